package props

import (
	"fmt"
	"go/token"
	"time"

	"lwverif/internal/absint"
)

// c20GPS decides the GPS-time clauses of C20 with the bit-level engine: time.Time is modelled as a signed 64-bit
// nanosecond count (Before/After = signed comparison, Add/Sub = two's-complement arithmetic), the leap-second table and
// the epoch are the library's own package-level initialisers, the input instant / duration is fully symbolic and
// restricted to 1980-01-06 .. 2100-01-01. Each clause is an equality or inequality of 64-bit BDD vectors over the 64
// input bits, i.e. it is decided for every nanosecond of the range at once; a refutation prints an instant.
func c20GPS(c *Ctx, leap [][]int, hms []int) {
	r := c.Run
	const pk = "gps"
	r.Rule("R7.gps-offset", "TimeSinceGPSEpoch(t) - (t - epoch) = (number of leap seconds inserted at or before t) x 1 s, for every UTC instant 1980-01-06..2100 at nanosecond resolution")
	r.Rule("R7.gps-monotone", "TimeSinceGPSEpoch is strictly increasing: f(t + 1 ns) > f(t) for every instant of the range")
	r.Rule("R7.gps-roundtrip", "NewTimeFromTimeSinceGPSEpoch(TimeSinceGPSEpoch(t)) = t for every instant; TimeSinceGPSEpoch(NewTimeFromTimeSinceGPSEpoch(d)) = d for every duration outside the inserted leap seconds")
	epoch := time.Date(1980, 1, 6, 0, 0, 0, 0, time.UTC).UnixNano()
	hi := time.Date(2100, 1, 1, 0, 0, 0, 0, time.UTC).UnixNano()
	// T[i]: first instant after the i-th inserted leap second (00:00:00 of the day after the listed day)
	var T []int64
	for _, l := range leap {
		p := time.Date(l[0], time.Month(l[1]), l[2], hms[0], hms[1], hms[2], hms[3], time.UTC)
		T = append(T, p.Add(time.Second).UnixNano())
	}
	in := absint.NewInterp(c.Prog)
	d := in.D
	TT := in.NamedType(pk, "Time")
	if TT == nil {
		r.Unknown("R7.gps-offset", "gps.Time", "", "type gps.Time exists", "missing")
		return
	}
	k64 := func(v int64) *absint.Bits { return d.Const(v, 64, true) }
	witness := func(n absint.Node, what string) string {
		if n == absint.False {
			return what
		}
		return "fails e.g. for " + d.Witness(n)
	}
	// ---- f on a symbolic instant
	x := d.Sym("t(ns since 1970)", 64, true, true)
	dom := d.M.And(d.Cmp(token.GEQ, x, k64(epoch)), d.Cmp(token.LSS, x, k64(hi)))
	f := func(t *absint.Bits, live absint.Node) (*absint.Bits, error) {
		var res []absint.Value
		err := in.Try(func() {
			in.SetLive(live)
			res = in.CallMethod(&absint.Cell{V: in.TimeValue(t, TT)}, TT, "TimeSinceGPSEpoch")
		})
		if err != nil {
			return nil, err
		}
		b, ok := res[0].(*absint.Bits)
		if !ok {
			return nil, fmt.Errorf("result is %T", res[0])
		}
		return b, nil
	}
	g := func(dur *absint.Bits, live absint.Node) (*absint.Bits, error) {
		var res []absint.Value
		err := in.Try(func() {
			in.SetLive(live)
			res = in.CallFunc(pk, "NewTimeFromTimeSinceGPSEpoch", dur)
		})
		if err != nil {
			return nil, err
		}
		b, ok := absint.TimeNS(res[0])
		if !ok {
			return nil, fmt.Errorf("result is %T", res[0])
		}
		return b, nil
	}
	fx, err := f(x, dom)
	if err != nil {
		r.Unknown("R7.gps-offset", "gps.Time.TimeSinceGPSEpoch", "", "inside the interpreter's subset", err.Error())
		return
	}
	// expected: (x - epoch) + 1e9 * #{i : x >= T[i]}
	want := d.AddSub(token.SUB, x, k64(epoch))
	for _, ti := range T {
		step := d.ITE(d.Cmp(token.GEQ, x, k64(ti)), k64(int64(time.Second)), k64(0))
		want = d.AddSub(token.ADD, want, step)
	}
	diff := absint.False
	for i, b := range fx.Bits() {
		diff = d.M.Or(diff, d.M.And(dom, d.M.Xor(b, want.Bits()[i])))
	}
	r.Check(diff == absint.False, "R7.gps-offset", "gps.Time.TimeSinceGPSEpoch", c.Prog.Rel(c.Prog.SSAFunc(pk, "Time.TimeSinceGPSEpoch").Pos()),
		"(t - epoch) + 1 s per leap second whose insertion lies at or before t", witness(diff, "equal for every instant of the range"), true)
	// ---- strictly increasing
	x1 := d.AddSub(token.ADD, x, k64(1))
	dom1 := d.M.And(dom, d.Cmp(token.LSS, x1, k64(hi)))
	if fx1, err := f(x1, dom1); err != nil {
		r.Unknown("R7.gps-monotone", "gps.Time.TimeSinceGPSEpoch", "", "inside the interpreter's subset", err.Error())
	} else {
		bad := d.M.And(dom1, d.M.Not(d.Cmp(token.GTR, fx1, fx)))
		r.Check(bad == absint.False, "R7.gps-monotone", "gps.Time.TimeSinceGPSEpoch", "", "f(t+1ns) > f(t)", witness(bad, "holds for every instant of the range"), true)
	}
	// ---- g(f(t)) = t
	if gfx, err := g(fx, dom); err != nil {
		r.Unknown("R7.gps-roundtrip", "utc->gps->utc", "", "inside the interpreter's subset", err.Error())
	} else {
		bad := absint.False
		for i, b := range gfx.Bits() {
			bad = d.M.Or(bad, d.M.And(dom, d.M.Xor(b, x.Bits()[i])))
		}
		r.Check(bad == absint.False, "R7.gps-roundtrip", "utc->gps->utc", "", "NewTimeFromTimeSinceGPSEpoch(TimeSinceGPSEpoch(t)) = t", witness(bad, "holds for every instant of the range"), true)
	}
	// ---- f(g(d)) = d outside the inserted leap seconds
	dv := d.Sym("d(ns since GPS epoch)", 64, true, true)
	dmax := hi - epoch + int64(len(T))*int64(time.Second)
	ddom := d.M.And(d.Cmp(token.GEQ, dv, k64(0)), d.Cmp(token.LSS, dv, k64(dmax)))
	for i, ti := range T {
		lo := ti - epoch + int64(i)*int64(time.Second) // GPS duration at which the i-th inserted second starts
		inLeap := d.M.And(d.Cmp(token.GEQ, dv, k64(lo)), d.Cmp(token.LSS, dv, k64(lo+int64(time.Second))))
		ddom = d.M.And(ddom, d.M.Not(inLeap))
	}
	if gd, err := g(dv, ddom); err != nil {
		r.Unknown("R7.gps-roundtrip", "gps->utc->gps", "", "inside the interpreter's subset", err.Error())
	} else if fgd, err := f(gd, ddom); err != nil {
		r.Unknown("R7.gps-roundtrip", "gps->utc->gps", "", "inside the interpreter's subset", err.Error())
	} else {
		bad := absint.False
		for i, b := range fgd.Bits() {
			bad = d.M.Or(bad, d.M.And(ddom, d.M.Xor(b, dv.Bits()[i])))
		}
		r.Check(bad == absint.False, "R7.gps-roundtrip", "gps->utc->gps", "", "TimeSinceGPSEpoch(NewTimeFromTimeSinceGPSEpoch(d)) = d for every duration outside an inserted leap second", witness(bad, "holds for every such duration"), true)
	}
}
