package props

import (
	"fmt"
	"sort"
	"strings"

	"lwverif/internal/tables"
)

func init() { Register("C15", checkC15) }

type encodable struct {
	typ   string
	field string
	value int64
	who   map[string]bool
}

func checkC15(c *Ctx) {
	r := c.Run
	r.Exhaustive = true
	r.Explanation = "Decides structural clauses of C15: (R1) every channel/TX-power accessor of package band that indexes a table with a signed int parameter has dominating lower and upper bound tests (SSA dominator facts) so negative or out-of-range indices are errors, not panics; (R2/R3, SSA/AST) outside the constructors only `.enabled` of a channel element is ever stored, AddChannel appends the same value to both tables, and the enabled/disabled and standard/custom index functions use complementary predicates over the same slice; (R4) every constant the evaluated band tables hand to the MAC layer — RX2 frequency and data-rate, fixed ping-slot frequency, default uplink and downlink channel frequencies and DR ranges, for all 38 configurations — is interpreted through the corresponding MAC encoder (RXParamSetupReq, PingSlotChannelReq, BeaconFreqReq, NewChannelReq, DLChannelReq, CFListChannelPayload) with the bit-precise abstract interpreter, the other fields symbolic in range: the encoder must accept and the decoder return the same value. Not covered: lookup-by-frequency results, exactness of CFList masks and LinkADRReq planning over mutation histories (runtime state; see C14)."
	r.Trusted = []string{"internal/tables evaluator", "internal/absint", "go/ssa dominator tree"}
	r.Rule("R1.signedindex", "slice/array index by a signed int parameter in a channel accessor has dominating lower and upper guards")
	r.Rule("R5.cflist", "the CFList a freshly configured band offers is nil, or the exact enabled-channel masks: ceil(n/16) <= 6 masks, bit i of mask k = channel 16k+i enabled")
	r.Rule("R4.encodable", "every band constant the MAC layer must carry is accepted by the corresponding MAC encoder and decodes back to the same value")
	c15Guards(c)
	c15BookkeepingE1(c)
	bands, err := c.Bands()
	if err != nil {
		r.Unknown("R4.encodable", "band.GetConfig", "", "band configurations evaluable", err.Error())
		return
	}
	c15CFList(c, bands)
	items := map[string]*encodable{}
	add := func(typ, field string, v int, who string) {
		k := fmt.Sprintf("%s.%s=%d", typ, field, v)
		if items[k] == nil {
			items[k] = &encodable{typ, field, int64(v), map[string]bool{}}
		}
		items[k].who[who] = true
	}
	for _, cfg := range bands.Configs {
		id := cfg.Canon()
		if res, _, ok := bands.EvalMethod(cfg, "GetDefaults", nil); ok && len(res) == 1 {
			if f, ok := tables.AsInt(tables.Field(res[0], "RX2Frequency")); ok {
				add("RXParamSetupReqPayload", "Frequency", f, id+" RX2 frequency")
			}
			if d, ok := tables.AsInt(tables.Field(res[0], "RX2DataRate")); ok {
				add("RXParamSetupReqPayload", "DLSettings.RX2DataRate", d, id+" RX2 data-rate")
			}
		}
		if res, _, ok := bands.EvalMethod(cfg, "GetPingSlotFrequency", nil); ok && len(res) == 2 {
			if f, ok := res[0].(tables.Int); ok {
				add("PingSlotChannelReqPayload", "Frequency", int(f.V), id+" ping-slot frequency")
				add("BeaconFreqReqPayload", "Frequency", int(f.V), id+" ping-slot/beacon frequency")
			}
		}
		sup, _ := tables.AsBool(cfg.Base.Fields["supportsExtraChannels"])
		if up, err := cfg.Channels("uplinkChannels"); err == nil {
			for i, ch := range up {
				if sup || i < 3 {
					add("NewChannelReqPayload", "Freq", ch.Freq, id+" uplink channel frequency")
				}
				add("NewChannelReqPayload", "MinDR", ch.MinDR, id+" channel MinDR")
				add("NewChannelReqPayload", "MaxDR", ch.MaxDR, id+" channel MaxDR")
				if sup {
					add("CFListChannelPayload", "Channels[0]", ch.Freq, id+" channel frequency in a CFList")
				}
			}
		}
		if dn, err := cfg.Channels("downlinkChannels"); err == nil {
			for _, ch := range dn {
				add("DLChannelReqPayload", "Freq", ch.Freq, id+" downlink channel frequency")
			}
		}
	}
	widths := map[string]map[string]int{
		"RXParamSetupReqPayload":    {"DLSettings.RX2DataRate": 4, "DLSettings.RX1DROffset": 3},
		"NewChannelReqPayload":      {"MaxDR": 4, "MinDR": 4},
		"PingSlotChannelReqPayload": {"DR": 4},
	}
	freqFields := map[string][]string{
		"RXParamSetupReqPayload": {"Frequency"}, "NewChannelReqPayload": {"Freq"}, "DLChannelReqPayload": {"Freq"},
		"PingSlotChannelReqPayload": {"Frequency"}, "BeaconFreqReqPayload": {"Frequency"}, "CFListChannelPayload": {"Channels"},
	}
	keys := make([]string, 0, len(items))
	for k := range items {
		keys = append(keys, k)
	}
	sort.Strings(keys)
	for _, k := range keys {
		it := items[k]
		var f100 []string
		for _, ff := range freqFields[it.typ] {
			if ff != it.field && ff+"[0]" != it.field {
				f100 = append(f100, ff)
			}
		}
		sp := aspec{Pkg: "", Type: it.typ, Dir: "down", Widths: widths[it.typ], Freq100: f100,
			Variants: []avariant{{Name: "v", NoStream: true, Fix: map[string]int64{it.field: it.value}}}}
		if it.typ == "CFListChannelPayload" {
			// the remaining four slots carry arbitrary in-unit frequencies
			sp.Freq100 = nil
			sp.Variants[0].Fix = map[string]int64{"Channels[0]": it.value, "Channels[1]": 0, "Channels[2]": 0, "Channels[3]": 0, "Channels[4]": 0}
		}
		res := runApp(c, sp)
		var who []string
		for w := range it.who {
			who = append(who, w)
		}
		sort.Strings(who)
		if len(who) > 4 {
			who = append(who[:4], fmt.Sprintf("… (%d sources)", len(it.who)))
		}
		okAll, why := true, "accepted and decoded back unchanged"
		undec := ""
		for _, f := range res.Facts {
			if f.Clause != "app.accept" && f.Clause != "app.inv" && !f.Undec {
				continue
			}
			if f.Clause == "app.inv" && !strings.HasSuffix(f.Key, "."+it.field) && !strings.Contains(f.Key, "decoder-accepts") {
				continue // only the carried constant has to survive; other fields are C07's subject
			}
			if f.Undec {
				undec = f.Got
			} else if !f.OK && okAll {
				okAll, why = false, f.Key+": "+f.Got
			}
		}
		key := fmt.Sprintf("%s.%s=%d", it.typ, it.field, it.value)
		want := fmt.Sprintf("encodable by %s (used by %v)", it.typ, who)
		switch {
		case undec != "":
			r.Unknown("R4.encodable", key, "", want, undec)
		case okAll:
			r.OK("R4.encodable", key, "", want, why, true)
		default:
			r.Bad("R4.encodable", key, "", want, why)
		}
	}
}

// c15CFList specialises GetCFList on every configuration's initial channel plan (conditional constant propagation
// through getCFListChannelMask/getCFListChannels) and compares the result with the exact enabled-channel masks.
func c15CFList(c *Ctx, bands *tables.Bands) {
	r := c.Run
	for _, cfg := range bands.Configs {
		id := cfg.Short()
		up, err := cfg.Channels("uplinkChannels")
		if err != nil {
			r.Unknown("R5.cflist", id, "", "channel table evaluable", err.Error())
			continue
		}
		sup, _ := tables.AsBool(cfg.Base.Fields["supportsExtraChannels"])
		for _, ver := range []string{"1.0.2", "1.0.3", "1.1.0"} {
			fd := cfg.Methods["GetCFList"]
			if fd == nil {
				r.Unknown("R5.cflist", id+"/GetCFList", "", "method present", "missing")
				continue
			}
			pn := paramNames(fd)
			res, _, ok := bands.EvalMethod(cfg, "GetCFList", map[string]tables.Value{pn[0]: tables.Str{V: ver}})
			key := fmt.Sprintf("%s/GetCFList(%s)", id, ver)
			pos := c.Prog.Rel(fd.Pos())
			if !ok || len(res) != 1 {
				r.Unknown("R5.cflist", key, pos, "GetCFList inside the evaluable subset", fmt.Sprint(bands.Ev.Diag))
				continue
			}
			_, isNil := res[0].(tables.Nil)
			wantNil := sup || ver == "1.0.2"
			if wantNil {
				r.Check(isNil, "R5.cflist", key, pos, "nil (no custom channels yet / mask CFList not defined for this version)", tables.Show(res[0]), true)
				continue
			}
			if isNil {
				r.Bad("R5.cflist", key, pos, "a channel-mask CFList", "nil")
				continue
			}
			typ, _ := tables.AsInt(tables.Field(res[0], "CFListType"))
			pl := tables.Field(res[0], "Payload")
			masks, okm := tables.Field(pl, "ChannelMasks").(*tables.Slice)
			want := (len(up) + 15) / 16
			if typ != 1 || !okm {
				r.Bad("R5.cflist", key, pos, "CFListType 1 with a mask list", tables.Show(res[0]))
				continue
			}
			good := len(masks.Elems) == want && want <= 6
			why := fmt.Sprintf("%d masks", len(masks.Elems))
			for k, m := range masks.Elems {
				ms, ok := m.(*tables.Slice)
				if !ok || len(ms.Elems) != 16 {
					good, why = false, "mask is not a [16]bool"
					break
				}
				for i, b := range ms.Elems {
					en, _ := tables.AsBool(b)
					exp := 16*k+i < len(up) && up[16*k+i].Enabled
					if en != exp {
						good, why = false, fmt.Sprintf("mask %d bit %d = %v, channel enabled = %v", k, i, en, exp)
					}
				}
			}
			r.Check(good, "R5.cflist", key, pos, fmt.Sprintf("%d masks (<= 6) mirroring the %d enabled channels", want, len(up)), why, true)
		}
	}
}
