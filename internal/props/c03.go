package props

import (
	"fmt"
	"go/token"

	"lwverif/internal/absint"
)

func init() { Register("C03", checkC03) }

// aBlock builds the specification's A_i block for FRMPayload encryption.
func aBlock(in *absint.Interp, uplink absint.Node, devAddr absint.Value, fcnt *absint.Bits, i int) []absint.Value {
	d := in.D
	dir := d.ITE(uplink, d.Const(0, 8, false), d.Const(1, 8, false))
	out := []absint.Value{d.Const(1, 8, false), d.Const(0, 8, false), d.Const(0, 8, false), d.Const(0, 8, false), d.Const(0, 8, false), dir}
	out = append(out, arrayBytes(devAddr, true)...)
	out = append(out, leBytes(fcnt, 4)...)
	out = append(out, d.Const(0, 8, false), d.Const(int64(i), 8, false))
	return out
}

// fOptsBlock builds the A block of FOpts encryption (LoRaWAN 1.1 with the FOpts erratum).
func fOptsBlock(in *absint.Interp, aFCntDown, uplink absint.Node, devAddr absint.Value, fcnt *absint.Bits) []absint.Value {
	d := in.D
	dir := d.ITE(uplink, d.Const(0, 8, false), d.Const(1, 8, false))
	typ := d.ITE(aFCntDown, d.Const(2, 8, false), d.Const(1, 8, false))
	out := []absint.Value{d.Const(1, 8, false), d.Const(0, 8, false), d.Const(0, 8, false), d.Const(0, 8, false), typ, dir}
	out = append(out, arrayBytes(devAddr, true)...)
	out = append(out, leBytes(fcnt, 4)...)
	out = append(out, d.Const(0, 8, false), d.Const(1, 8, false))
	return out
}

// xorStream returns data XOR AESenc(key, block_k) bytes as the specification prescribes.
func xorStream(in *absint.Interp, key absint.Value, data []absint.Value, block func(k int) []absint.Value) []absint.Value {
	out := make([]absint.Value, len(data))
	for k := 0; k*16 < len(data); k++ {
		s := in.OpaqueBytes("AESenc", [][]absint.Value{arrayBytes(key, false), block(k + 1)}, 16, "S")
		for j := 0; j < 16 && k*16+j < len(data); j++ {
			out[k*16+j] = in.D.Bitwise(token.XOR, data[k*16+j].(*absint.Bits), s[j].(*absint.Bits))
		}
	}
	return out
}

func checkC03(c *Ctx) {
	r := c.Run
	r.Exhaustive = true
	r.Explanation = "Decides C03's structural clauses with the abstract interpreter (engine E1), AES being an uninterpreted function of (key, block): the exported EncryptFRMPayload and EncryptFOpts and the PHYPayload methods EncryptFRMPayload / EncryptFOpts are interpreted on symbolic key, direction, DevAddr, 32-bit FCnt and payload bytes for payload lengths {0,1,15,16,17,31,32,40} (1..3 keystream blocks incl. non-aligned tails) and FOpts lengths 0..15 (+16 rejected); the result is compared byte for byte with the specification's ciphertext built independently as data XOR AES(K, A_i) with A_i = 01|00 00 00 00|Dir|DevAddr LE|FCnt LE|00|i (FOpts: A[4] = 02 iff AFCntDown else 01, A[15] = 01). Equality of BDD vectors covers all keys, addresses, counters and payload values at once; length preservation and the involution (encrypting the ciphertext again returns the plaintext bits) are checked the same way. For the methods the expected AFCntDown is the formula !uplink ∧ FPort≠nil ∧ FPort>0 over a symbolic FPort, and FCnt is the full 32-bit header field. Error discipline (no swallowed error, success implies store) are SSA rules of the flow engine. Keystream numerics (AES itself) are trusted."
	r.Trusted = []string{"internal/absint", "crypto/aes as an uninterpreted function", "A-block layouts from LoRaWAN 1.0.x/1.1 §4.3.3 and the 1.1 FOpts erratum"}
	r.Rule("R1.frmpayload", "EncryptFRMPayload output = data XOR AES(K, A_i), i = 1..ceil(len/16), same length; applying it twice is the identity")
	r.Rule("R3.fopts", "EncryptFOpts output = data XOR AES(K, A) with the AFCntDown/NFCntDown type byte; 16+ bytes are rejected")
	r.Rule("R4.methods", "PHYPayload.EncryptFRMPayload/EncryptFOpts feed isUplink, FHDR.DevAddr, the 32-bit FHDR.FCnt and AFCntDown = !uplink ∧ FPort≠nil ∧ FPort>0")
	pos := func(name string) string {
		if fn := c.Prog.SSAFunc("", name); fn != nil {
			return c.Prog.Rel(fn.Pos())
		}
		return ""
	}
	keyT := func(in *absint.Interp) absint.Value { return in.Sym("key", in.NamedType("", "AES128Key"), false) }
	// ---- exported EncryptFRMPayload
	for _, L := range []int{0, 1, 15, 16, 17, 31, 32, 40, 222, 240, 241, 242, 255} {
		in := absint.NewInterp(c.Prog)
		d := in.D
		cfg := fmt.Sprintf("EncryptFRMPayload/len%d", L)
		var res []absint.Value
		var key, addr absint.Value
		var fcnt *absint.Bits
		var up absint.Node
		var plain []absint.Value
		err := in.Try(func() {
			key = keyT(in)
			addr = in.Sym("devAddr", in.NamedType("", "DevAddr"), false)
			fcnt = d.Sym("fCnt", 32, false, false)
			upB := d.Sym("uplink", 1, false, false)
			up = upB.Bits()[0]
			data := in.SymBytes("data", L)
			plain = sliceVals(data)
			res = in.CallFunc("", "EncryptFRMPayload", key, upB, addr, fcnt, data)
		})
		if err != nil {
			r.Unknown("R1.frmpayload", cfg, pos("EncryptFRMPayload"), "inside the interpreter's subset", err.Error())
			continue
		}
		if ev, _ := res[1].(*absint.ErrVal); ev == nil || ev.NonNil != absint.False {
			r.Bad("R1.frmpayload", cfg+"/error", pos("EncryptFRMPayload"), "no error", in.Show(res[1]))
			continue
		}
		want := xorStream(in, key, plain, func(i int) []absint.Value { return aBlock(in, up, addr, fcnt, i) })
		got := sliceVals(res[0])
		r.Check(len(got) == L, "R1.frmpayload", cfg+"/length", pos("EncryptFRMPayload"), fmt.Sprintf("%d bytes", L), fmt.Sprintf("%d bytes", len(got)), true)
		if len(got) == L {
			compareBytes(c, in, "R1.frmpayload", cfg+"/ciphertext", pos("EncryptFRMPayload"), got, vals(want...), absint.True, nil)
			// involution
			var res2 []absint.Value
			e2 := in.Try(func() {
				bk := &absint.Backing{}
				for _, v := range got {
					bk.E = append(bk.E, &absint.Cell{V: v})
				}
				res2 = in.CallFunc("", "EncryptFRMPayload", key, d.Bool(up), addr, fcnt, &absint.Slice{Back: bk, Hi: L, Cap: L})
			})
			if e2 != nil {
				r.Unknown("R1.frmpayload", cfg+"/involution", pos("EncryptFRMPayload"), "inside the interpreter's subset", e2.Error())
			} else {
				compareBytes(c, in, "R1.frmpayload", cfg+"/involution", pos("EncryptFRMPayload"), sliceVals(res2[0]), vals(plain...), absint.True, nil)
			}
		}
	}
	// ---- exported EncryptFOpts
	for L := 0; L <= 16; L++ {
		in := absint.NewInterp(c.Prog)
		d := in.D
		cfg := fmt.Sprintf("EncryptFOpts/len%d", L)
		var res []absint.Value
		var key, addr absint.Value
		var fcnt *absint.Bits
		var up, afd absint.Node
		var plain []absint.Value
		err := in.Try(func() {
			key = keyT(in)
			addr = in.Sym("devAddr", in.NamedType("", "DevAddr"), false)
			fcnt = d.Sym("fCnt", 32, false, false)
			upB := d.Sym("uplink", 1, false, false)
			afB := d.Sym("aFCntDown", 1, false, false)
			up, afd = upB.Bits()[0], afB.Bits()[0]
			data := in.SymBytes("data", L)
			plain = sliceVals(data)
			res = in.CallFunc("", "EncryptFOpts", key, afB, upB, addr, fcnt, data)
		})
		if err != nil {
			r.Unknown("R3.fopts", cfg, pos("EncryptFOpts"), "inside the interpreter's subset", err.Error())
			continue
		}
		ev, _ := res[1].(*absint.ErrVal)
		if L > 15 {
			r.Check(ev != nil && ev.NonNil == absint.True, "R3.fopts", cfg+"/rejected", pos("EncryptFOpts"), "more than 15 bytes are rejected with an error", in.Show(res[1]), true)
			continue
		}
		if ev == nil || ev.NonNil != absint.False {
			r.Bad("R3.fopts", cfg+"/error", pos("EncryptFOpts"), "no error", in.Show(res[1]))
			continue
		}
		want := xorStream(in, key, plain, func(i int) []absint.Value { return fOptsBlock(in, afd, up, addr, fcnt) })
		got := sliceVals(res[0])
		r.Check(len(got) == L, "R3.fopts", cfg+"/length", pos("EncryptFOpts"), fmt.Sprintf("%d bytes", L), fmt.Sprintf("%d bytes", len(got)), true)
		if len(got) == L {
			compareBytes(c, in, "R3.fopts", cfg+"/ciphertext", pos("EncryptFOpts"), got, vals(want...), absint.True, nil)
		}
	}
	// ---- methods
	for _, mt := range []int64{2, 3, 4, 5} {
		for _, sh := range []struct {
			n, port, m int
		}{{3, 0, 0}, {3, 2, 5}, {15, 2, 17}, {0, 2, 40}, {0, 1, 4}, {7, 2, 0}} {
			v := frameVariant(mt, sh.n, sh.port > 0, sh.m)
			if sh.port == 1 {
				v.Where = map[string][2]int64{}
				v.Fix["MACPayload.*.FPort.*"] = 0
			} else if sh.port == 2 {
				v.Where["MACPayload.*.FPort.*"] = [2]int64{0, 255}
				if sh.n > 0 {
					v.Where["MACPayload.*.FPort.*"] = [2]int64{1, 255}
				}
			}
			c03Methods(c, mt, v, sh.n, sh.m)
		}
		// an application payload handed over in two parts: the ciphertext covers the concatenation
		{
			v := frameVariant(mt, 0, true, 3)
			v.Name += "/two-parts"
			v.Lens["MACPayload.*.FRMPayload"] = 2
			v.Dyn["MACPayload.*.FRMPayload[1]"] = ":DataPayload"
			v.Lens["MACPayload.*.FRMPayload[1].*.Bytes"] = 18
			c03Methods(c, mt, v, 0, 21)
		}
	}
	flowC03(c)
	c.Run.Advisory("R4.wiring", "R4.methods")
	// that success means "the transformed bytes are stored" is what R4.methods establishes on the whole method (result
	// stored, no error, for every input of its configurations); the flow reading of the same clause is a second opinion
	c.Run.Advisory("R6.success-store", "R4.methods")
	statelessRoots(c, "R7.stateless", "EncryptFRMPayload", "EncryptFOpts", "PHYPayload.EncryptFRMPayload", "PHYPayload.DecryptFRMPayload", "PHYPayload.EncryptFOpts", "PHYPayload.DecryptFOpts")
}

func c03Methods(c *Ctx, mt int64, v avariant, n, m int) {
	r := c.Run
	uplink := mt == 2 || mt == 4
	upN := absint.False
	if uplink {
		upN = absint.True
	}
	T := func(in *absint.Interp) (absint.Value, absint.Node) {
		dom := absint.True
		phy := symDeep(in, "", in.NamedType("", "PHYPayload"), v, aspec{}, &dom)
		return phy, dom
	}
	// EncryptFRMPayload method
	if m > 0 {
		in := absint.NewInterp(c.Prog)
		cfg := "PHYPayload.EncryptFRMPayload/" + v.Name
		pos := ""
		var phy, key absint.Value
		var dom absint.Node
		var plain []absint.Value
		var res []absint.Value
		err := in.Try(func() {
			phy, dom = T(in)
			in.SetLive(dom)
			key = in.Sym("key", in.NamedType("", "AES128Key"), false)
			// the plaintext is the concatenation of all FRMPayload elements (marshalPayload joins them)
			for k := 0; k < v.Lens["MACPayload.*.FRMPayload"]; k++ {
				plain = append(plain, sliceVals(deepLeaf(phy, fmt.Sprintf("MACPayload.*.FRMPayload[%d].*.Bytes", k)))...)
			}
			res = in.CallMethod(&absint.Cell{V: phy}, in.NamedType("", "PHYPayload"), "EncryptFRMPayload", key)
		})
		if err != nil {
			r.Unknown("R4.methods", cfg, pos, "inside the interpreter's subset", err.Error())
		} else if ev, _ := res[0].(*absint.ErrVal); ev == nil || in.D.M.And(dom, ev.NonNil) != absint.False {
			r.Bad("R4.methods", cfg+"/error", pos, "no error", in.Show(res[0]))
		} else {
			addr := deepLeaf(phy, mpFHDR+".DevAddr")
			fcnt := asBits(deepLeaf(phy, mpFHDR+".FCnt"), "FCnt")
			want := xorStream(in, key, plain, func(i int) []absint.Value { return aBlock(in, upN, addr, fcnt, i) })
			var got []absint.Value
			if e := in.Try(func() { got = sliceVals(deepLeaf(phy, "MACPayload.*.FRMPayload[0].*.Bytes")) }); e != nil || len(got) != len(want) {
				r.Bad("R4.methods", cfg+"/stored", pos, "FRMPayload replaced by one DataPayload with the ciphertext", fmt.Sprintf("%v (%d bytes)", e, len(got)))
			} else {
				compareBytes(c, in, "R4.methods", cfg+"/ciphertext", pos, got, vals(want...), dom, nil)
			}
		}
	}
	// EncryptFOpts method
	if n > 0 {
		in := absint.NewInterp(c.Prog)
		d := in.D
		cfg := "PHYPayload.EncryptFOpts/" + v.Name
		pos := ""
		var phy, key absint.Value
		var dom absint.Node
		var plain []absint.Value
		var res []absint.Value
		err := in.Try(func() {
			phy, dom = T(in)
			in.SetLive(dom)
			key = in.Sym("key", in.NamedType("", "AES128Key"), false)
			plain = sliceVals(deepLeaf(phy, mpFHDR+".FOpts[0].*.Bytes"))
			res = in.CallMethod(&absint.Cell{V: phy}, in.NamedType("", "PHYPayload"), "EncryptFOpts", key)
		})
		if err != nil {
			r.Unknown("R4.methods", cfg, pos, "inside the interpreter's subset", err.Error())
			return
		}
		if ev, _ := res[0].(*absint.ErrVal); ev == nil || d.M.And(dom, ev.NonNil) != absint.False {
			r.Bad("R4.methods", cfg+"/error", pos, "no error", in.Show(res[0]))
			return
		}
		addr := deepLeaf(phy, mpFHDR+".DevAddr")
		fcnt := asBits(deepLeaf(phy, mpFHDR+".FCnt"), "FCnt")
		afd := absint.False
		if fp, ok := deepLeaf(phy, "MACPayload.*.FPort").(*absint.Ptr); ok && !uplink {
			afd = d.Cmp(token.GTR, asBits(fp.To.V, "FPort"), d.Const(0, 8, false))
		}
		want := xorStream(in, key, plain, func(i int) []absint.Value { return fOptsBlock(in, afd, upN, addr, fcnt) })
		var got []absint.Value
		if e := in.Try(func() { got = sliceVals(deepLeaf(phy, mpFHDR+".FOpts[0].*.Bytes")) }); e != nil || len(got) != len(want) {
			r.Bad("R4.methods", cfg+"/stored", pos, "FOpts replaced by one DataPayload with the ciphertext", fmt.Sprintf("%v (%d bytes)", e, len(got)))
			return
		}
		compareBytes(c, in, "R4.methods", cfg+"/ciphertext", pos, got, vals(want...), dom, nil)
	}
}
