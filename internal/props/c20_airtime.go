package props

import (
	"fmt"
	"go/token"
	"go/types"
	"strings"

	"lwverif/internal/absint"
)

// c20AirtimeInt: the payload symbol count against the Semtech formula
//
//	n = 8 + max(ceil((8·PL − 4·SF + 28 + 16 − 20·IH) / (4·(SF − 2·DE))) · (CR + 4), 0)
//
// for every payload size 0..255 at once (PL symbolic), per spreading factor 7..12, coding rate 1..4, header and
// low-data-rate setting. This is decidable by the bit-level engine only when CalculateLoRaPayloadSymbolNumber is written
// in integer arithmetic: the pinned tree computes it in float64 (math.Ceil, math.Max), which the engine has no model
// of, and there the rule does not apply — it says so in a note and creates no obligation (the floating-point form is
// declined, DESIGN §3 C20). Two independent seeding rounds rewrote the function into integers with a ceiling helper that
// is wrong for negative numerators; on such a tree the rule decides the clause exactly.
func c20AirtimeInt(c *Ctx) {
	const rule = "R9.airtime-int"
	r := c.Run
	pk := c.Prog.Pkg("airtime")
	if pk == nil {
		return
	}
	fn, ok := pk.Types.Scope().Lookup("CalculateLoRaPayloadSymbolNumber").(*types.Func)
	if !ok {
		return
	}
	sig := fn.Type().(*types.Signature)
	if sig.Params().Len() != 5 || sig.Results().Len() != 2 {
		r.Note("R9.airtime-int: CalculateLoRaPayloadSymbolNumber has a different signature; the integer rule does not apply")
		return
	}
	crT := sig.Params().At(2).Type()
	crBits := 64
	if b, ok := crT.Underlying().(*types.Basic); ok {
		switch b.Kind() {
		case types.Int8, types.Uint8:
			crBits = 8
		case types.Int16, types.Uint16:
			crBits = 16
		case types.Int32, types.Uint32:
			crBits = 32
		}
	}
	crSigned := true
	if b, ok := crT.Underlying().(*types.Basic); ok && b.Info()&types.IsUnsigned != 0 {
		crSigned = false
	}
	declared := false
	n := 0
	for sf := int64(7); sf <= 12; sf++ {
		for cr := int64(1); cr <= 4; cr++ {
			for _, hdr := range []bool{true, false} {
				for _, de := range []bool{false, true} {
					in := absint.NewInterp(c.Prog)
					d := in.D
					pl := d.Sym("payloadSize", 64, true, true)
					dom := d.M.And(d.Cmp(token.GEQ, pl, d.Const(0, 64, true)), d.Cmp(token.LEQ, pl, d.Const(255, 64, true)))
					var res []absint.Value
					err := in.Try(func() {
						in.SetLive(dom)
						res = in.CallFunc("airtime", "CalculateLoRaPayloadSymbolNumber", pl, d.Const(sf, 64, true), d.Const(cr, crBits, crSigned), boolBits(d, hdr), boolBits(d, de))
					})
					key := fmt.Sprintf("airtime.CalculateLoRaPayloadSymbolNumber/sf%d/cr%d/header=%v/ldro=%v", sf, cr, hdr, de)
					if err != nil {
						if n == 0 {
							// not in the integer subset (the floating-point form): the rule does not apply
							r.Note("R9.airtime-int not applicable on this tree: the symbol count is not integer arithmetic the bit-level engine follows (%s)", clipText(err.Error(), 120))
							return
						}
						r.Unknown(rule, key, "", "inside the interpreter's subset", err.Error())
						continue
					}
					if !declared {
						r.Rule(rule, "CalculateLoRaPayloadSymbolNumber (integer form) = 8 + max(ceil((8·PL − 4·SF + 44 − 20·IH) / (4·(SF − 2·DE))) · (CR + 4), 0) for every payload size 0..255, SF 7..12, CR 1..4, header on/off, low-data-rate on/off")
						declared = true
					}
					n++
					got, okB := res[0].(*absint.Bits)
					if !okB {
						r.Unknown(rule, key, "", "an integer result", fmt.Sprintf("%T", res[0]))
						continue
					}
					ih := int64(0)
					if !hdr {
						ih = 1
					}
					dev := int64(0)
					if de {
						dev = 1
					}
					k := -4*sf + 44 - 20*ih
					b := 4 * (sf - 2*dev)
					a := d.AddSub(token.ADD, d.MulConst(pl, 8), d.Const(k, 64, true))
					q := d.DivModConst(a, b, false) // truncates towards zero
					rem := d.DivModConst(a, b, true)
					one := d.Const(1, 64, true)
					ceil := d.ITE(d.Cmp(token.GTR, rem, d.Const(0, 64, true)), d.AddSub(token.ADD, q, one), q)
					prod := d.MulConst(ceil, cr+4)
					zero := d.Const(0, 64, true)
					want := d.AddSub(token.ADD, d.Const(8, 64, true), d.ITE(d.Cmp(token.GTR, prod, zero), prod, zero))
					gotW := d.Resize(got, 64, true)
					diff := d.M.And(dom, d.Cmp(token.NEQ, gotW, want))
					errCond := absint.False // the condition under which an error is returned
					if ev, isErr := res[1].(*absint.ErrVal); isErr {
						errCond = d.M.And(dom, ev.NonNil)
					}
					switch {
					case errCond != absint.False:
						r.Bad(rule, key, "", "a symbol count for every payload size", "an error is returned for in-range settings, e.g. for "+d.Witness(errCond))
					case diff == absint.False:
						r.OK(rule, key, "", "result = Semtech formula for PL 0..255", "equal as functions of the payload size", true)
					default:
						r.Bad(rule, key, "", "result = Semtech formula for PL 0..255", "differs e.g. for "+d.Witness(diff))
					}
				}
			}
		}
	}
}

func clipText(s string, n int) string {
	s = strings.ReplaceAll(s, "\n", " ")
	if len(s) > n {
		return s[:n] + "…"
	}
	return s
}

func boolBits(d *absint.Dom, b bool) *absint.Bits {
	if b {
		return d.Bool(absint.True)
	}
	return d.Bool(absint.False)
}
