package props

import (
	"fmt"
	"go/token"

	"lwverif/internal/absint"
)

func init() { Register("C11", checkC11) }

// LoRaWAN backend interfaces / 1.1 addressing: NetID type t -> (DevAddr type-prefix length, NwkID bits, NetID ID-field width)
var netIDTable = [8][3]int{{1, 6, 6}, {2, 6, 6}, {3, 9, 9}, {4, 11, 21}, {5, 12, 21}, {6, 13, 21}, {7, 15, 21}, {8, 17, 21}}

func checkC11(c *Ctx) {
	r := c.Run
	r.Exhaustive = true
	r.Explanation = "Decides C11's algebraic clauses with the bit-precise abstract interpreter (engine E1): DevAddr.SetAddrPrefix, DevAddr.NwkID, DevAddr.NetIDType, DevAddr.IsNetID, NetID.Type and NetID.ID are interpreted on a fully symbolic 24-bit NetID and 32-bit DevAddr (the switch on the NetID type is if-converted; where the result length depends on the type the interpreter partitions on it), and every bit of the result is compared with the addressing rule built independently from the table type t -> (prefix length t+1 = t ones and a zero, NwkID width 6,6,9,11,12,13,15,17, ID-field width 6,6,9,21…): the prefixed address has the type prefix in its top bits, then the low NwkID-width bits of the NetID's ID field, then the untouched low bits of the old address; NwkID returns exactly those bits right-aligned; IsNetID is the boolean function 'type prefix matches and NwkID bits equal'. This is equality of boolean functions over all 2^24 x 2^32 inputs. The binary codecs of EUI64/DevAddr/NetID/AES128Key are the byte-reversing permutation with exact length tests (interpreted likewise); text/SQL representations are sibling-agreement rules of the flow engine."
	r.Trusted = []string{"internal/absint", "addressing table transcribed from LoRaWAN 1.1 §6.1.2 / Backend Interfaces"}
	r.Rule("R2.setprefix", "SetAddrPrefix: type prefix | low NwkID bits of the NetID ID field | untouched NwkAddr bits, for all NetIDs and DevAddrs")
	r.Rule("R2.nwkid", "NwkID() returns exactly the NwkID bits of the address, right-aligned in ceil(n/8) bytes; NetIDType is the leading-ones count")
	r.Rule("R2.netid", "NetID.Type = top 3 bits; NetID.ID = low 6/6/9/21 bits right-aligned")
	r.Rule("R3.isnetid", "IsNetID(netID) holds exactly for addresses carrying that NetID's type prefix and NwkID bits")
	r.Rule("R4.binary", "EUI64/DevAddr/NetID/AES128Key binary codecs reverse the byte order and require the exact length")
	in := absint.NewInterp(c.Prog)
	d := in.D
	AT := in.NamedType("", "DevAddr")
	NT := in.NamedType("", "NetID")
	var addr, netID absint.Value
	if err := in.Try(func() {
		addr = in.Sym("a", AT, false)
		netID = in.Sym("netID", NT, false)
	}); err != nil {
		r.Unknown("R2.setprefix", "inputs", "", "constructible", err.Error())
		return
	}
	// big-endian views: bit 31 of the address = bit 7 of a[0]
	beBits := func(v absint.Value) []absint.Node {
		bs := arrayBytes(v, false)
		var out []absint.Node // LSB first
		for i := len(bs) - 1; i >= 0; i-- {
			out = append(out, bs[i].(*absint.Bits).Bits()...)
		}
		return out
	}
	aBits := beBits(addr)  // 32
	nBits := beBits(netID) // 24
	// expected prefixed address per type
	expected := func(t int) []absint.Node {
		p, n := netIDTable[t][0], netIDTable[t][1]
		out := make([]absint.Node, 32)
		copy(out, aBits)
		for i := 0; i < p; i++ { // top p bits: t ones then a zero
			if i < p-1 {
				out[31-i] = absint.True
			} else {
				out[31-i] = absint.False
			}
		}
		for i := 0; i < n; i++ { // NwkID: low n bits of the NetID (ID field is the low bits)
			out[32-p-n+i] = nBits[i]
		}
		return out
	}
	// One run per NetID type with the three type bits fixed as constants (and, for the address-side functions, the
	// type prefix of the address fixed): the result is then independent of whether the code dispatches on the type
	// with a switch, a table or a helper.
	fixNetType := func(t int) absint.Value {
		v := absint.Copy(netID).(*absint.Array)
		v.E[0].V = fixBits(in, v.E[0].V.(*absint.Bits), byteBits(t, 5, 7))
		return v
	}
	fixAddrLead := func(t int) absint.Value { // t leading ones, then a zero
		v := absint.Copy(addr).(*absint.Array)
		fx := map[int]bool{}
		for i := 0; i < t; i++ {
			fx[7-i] = true
		}
		fx[7-t] = false
		v.E[0].V = fixBits(in, v.E[0].V.(*absint.Bits), fx)
		return v
	}
	// ---- SetAddrPrefix
	for t := 0; t < 8; t++ {
		nid := fixNetType(t)
		nBits = beBits(nid)
		cell := &absint.Cell{V: absint.Copy(addr)}
		if err := in.Try(func() { in.CallMethod(cell, AT, "SetAddrPrefix", nid) }); err != nil {
			r.Unknown("R2.setprefix", fmt.Sprintf("DevAddr.SetAddrPrefix/type%d", t), "", "inside the interpreter's subset", err.Error())
			continue
		}
		got := beBits(cell.V)
		exp := expected(t)
		for i := 31; i >= 0; i-- {
			diff := d.M.Xor(got[i], exp[i])
			role := "NwkAddr (unchanged)"
			p, n := netIDTable[t][0], netIDTable[t][1]
			switch {
			case i > 31-p:
				role = "type prefix"
			case i > 31-p-n:
				role = "NwkID"
			}
			r.Check(diff == absint.False, "R2.setprefix", fmt.Sprintf("DevAddr.SetAddrPrefix/type%d/bit%d", t, i), "", role+" = "+d.Describe(exp[i]),
				d.Describe(got[i])+witnessIf(in, diff), true)
		}
	}
	nBits = beBits(netID)
	// ---- NetID.Type and NetID.ID (length depends on type)
	for t := 0; t < 8; t++ {
		nid := fixNetType(t)
		nB := beBits(nid)
		var res []absint.Value
		if e := in.Try(func() { in.SetLive(absint.True); res = in.CallMethod(&absint.Cell{V: nid}, NT, "ID") }); e != nil {
			r.Unknown("R2.netid", fmt.Sprintf("NetID.ID/type%d", t), "", "inside the interpreter's subset", e.Error())
			continue
		}
		w := netIDTable[t][2]
		bs := sliceVals(res[0])
		wantLen := (w + 7) / 8
		if len(bs) != wantLen {
			r.Bad("R2.netid", fmt.Sprintf("NetID.ID/type%d/len", t), "", fmt.Sprintf("%d bytes", wantLen), fmt.Sprintf("%d bytes", len(bs)))
			continue
		}
		var got []absint.Node
		for i := len(bs) - 1; i >= 0; i-- {
			got = append(got, bs[i].(*absint.Bits).Bits()...)
		}
		ok := true
		why := "low bits of the NetID, right-aligned"
		for i := range got {
			exp := absint.False
			if i < w {
				exp = nB[i]
			}
			if d.M.Xor(got[i], exp) != absint.False {
				ok, why = false, fmt.Sprintf("bit %d is %s", i, d.Describe(got[i]))
			}
		}
		r.Check(ok, "R2.netid", fmt.Sprintf("NetID.ID/type%d", t), "", fmt.Sprintf("low %d bits of the NetID in %d bytes", w, wantLen), why, true)
	}
	in.SetLive(absint.True)
	if res, e := tryCall(in, &absint.Cell{V: netID}, NT, "Type"); e != nil {
		r.Unknown("R2.netid", "NetID.Type", "", "inside subset", e.Error())
	} else {
		tb := res[0].(*absint.Bits).Bits()
		ok := tb[0] == nBits[21] && tb[1] == nBits[22] && tb[2] == nBits[23]
		for _, b := range tb[3:] {
			if b != absint.False {
				ok = false
			}
		}
		r.Check(ok, "R2.netid", "NetID.Type", "", "the top three bits of the NetID", in.Show(res[0]), true)
	}
	// ---- NetIDType / NwkID of an address
	lead := func(t int) absint.Node { // address has t leading ones then a zero
		c := absint.True
		for i := 0; i < t; i++ {
			c = d.M.And(c, aBits[31-i])
		}
		if t < 8 {
			c = d.M.And(c, d.M.Not(aBits[31-t]))
		}
		return c
	}
	if res, e := tryCall(in, &absint.Cell{V: addr}, AT, "NetIDType"); e != nil {
		r.Unknown("R2.nwkid", "DevAddr.NetIDType", "", "inside subset", e.Error())
	} else {
		got := res[0].(*absint.Bits)
		for t := 0; t <= 8; t++ {
			want := int64(t)
			if t == 8 {
				want = -1
			}
			eq := d.Cmp(token.EQL, got, d.Const(want, got.W, true))
			r.Check(d.M.Implies(lead(t), eq), "R2.nwkid", fmt.Sprintf("DevAddr.NetIDType/%d-leading-ones", t), "", fmt.Sprint(want), "holds for all such addresses: "+fmt.Sprint(d.M.Implies(lead(t), eq)), true)
		}
	}
	for t := 0; t < 8; t++ {
		ad := fixAddrLead(t)
		aB := beBits(ad)
		var res []absint.Value
		if e := in.Try(func() { in.SetLive(absint.True); res = in.CallMethod(&absint.Cell{V: ad}, AT, "NwkID") }); e != nil {
			r.Unknown("R2.nwkid", fmt.Sprintf("DevAddr.NwkID/type%d", t), "", "inside the interpreter's subset", e.Error())
			continue
		}
		p, n := netIDTable[t][0], netIDTable[t][1]
		bs := sliceVals(res[0])
		wantLen := (n + 7) / 8
		if len(bs) != wantLen {
			r.Bad("R2.nwkid", fmt.Sprintf("DevAddr.NwkID/type%d/len", t), "", fmt.Sprintf("%d bytes", wantLen), fmt.Sprintf("%d bytes", len(bs)))
			continue
		}
		var got []absint.Node
		for i := len(bs) - 1; i >= 0; i-- {
			got = append(got, bs[i].(*absint.Bits).Bits()...)
		}
		ok, why := true, "NwkID bits right-aligned"
		for i := range got {
			exp := absint.False
			if i < n {
				exp = aB[32-p-n+i]
			}
			if d.M.Xor(got[i], exp) != absint.False {
				ok, why = false, fmt.Sprintf("bit %d is %s", i, d.Describe(got[i]))
			}
		}
		r.Check(ok, "R2.nwkid", fmt.Sprintf("DevAddr.NwkID/type%d", t), "", fmt.Sprintf("address bits %d..%d in %d bytes", 31-p, 32-p-n, wantLen), why, true)
	}
	// ---- IsNetID: one run per NetID type with the type bits fixed and the variables of the address's NwkID
	// field interleaved with the NetID bits they are compared with (keeps the comparison BDDs linear)
	for t := 0; t < 8; t++ {
		c11IsNetID(c, t)
	}
	in.SetLive(absint.True)
	for _, s := range frameSpecs {
		switch s.Type {
		case "EUI64", "DevAddr", "NetID", "AES128Key":
			res := runCodec(c, s)
			emitFacts(c, res, "R4.binary", "enc.layout", "dec.layout", "inv", "enc.size", "dec.short", "dec.long", "undecided")
		}
	}
	flowC11(c)
	c.Run.Advisory("R3.isnetid-flow", "R3.isnetid")
	c11TextE1(c, "R5.text")
	c11SQLE1(c, "R6.sql")
	// the identifier codec rule recognises one way of writing these codecs; what they compute is decided by R5 and R6
	c.Run.Advisory("R4.codecs", "R5.text", "R6.sql")
}

func tryCall(in *absint.Interp, cell *absint.Cell, T interface{ String() string }, name string, args ...absint.Value) (res []absint.Value, err error) {
	err = in.Try(func() {
		res = in.CallMethod(cell, in.NamedType("", T.String()[len("github.com/brocaar/lorawan."):]), name, args...)
	})
	return
}

func witnessIf(in *absint.Interp, diff absint.Node) string {
	if diff == absint.False {
		return ""
	}
	return "; differs e.g. for " + in.D.Witness(diff)
}

func c11IsNetID(c *Ctx, t int) {
	r := c.Run
	in := absint.NewInterp(c.Prog)
	d := in.D
	p, n := netIDTable[t][0], netIDTable[t][1]
	var order [][2]int
	for i := n - 1; i >= 0; i-- {
		order = append(order, [2]int{0, 32 - p - n + i}, [2]int{1, i})
	}
	g := d.SymGroup([]string{"a", "netID"}, []int{32, 24}, order)
	aBits, nBits := g[0].Bits(), append([]absint.Node{}, g[1].Bits()...)
	for i := 0; i < 3; i++ { // fix the NetID type
		if (t>>uint(i))&1 == 1 {
			nBits[21+i] = absint.True
		} else {
			nBits[21+i] = absint.False
		}
	}
	mkArr := func(bits []absint.Node, nbytes int) *absint.Array {
		a := &absint.Array{}
		for i := 0; i < nbytes; i++ { // element 0 = most significant byte
			lo := 8 * (nbytes - 1 - i)
			a.E = append(a.E, &absint.Cell{V: absint.MakeBits(8, false, bits[lo:lo+8])})
		}
		return a
	}
	addr, netID := mkArr(aBits, 4), mkArr(nBits, 3)
	AT := in.NamedType("", "DevAddr")
	want := absint.True
	for i := 0; i < p; i++ {
		b := aBits[31-i]
		if i == p-1 {
			b = d.M.Not(b)
		}
		want = d.M.And(want, b)
	}
	for i := 0; i < n; i++ {
		want = d.M.And(want, d.M.Eqv(aBits[32-p-n+i], nBits[i]))
	}
	key := fmt.Sprintf("DevAddr.IsNetID/type%d", t)
	func() {
		defer func() {
			if rec := recover(); rec != nil {
				r.Unknown("R3.isnetid", key, "", "inside the BDD budget", fmt.Sprint(rec))
			}
		}()
		forParts(in, absint.True, 12, func(dom absint.Node, tag string) error {
			var res []absint.Value
			if e := in.Try(func() { in.SetLive(dom); res = in.CallMethod(&absint.Cell{V: addr}, AT, "IsNetID", netID) }); e != nil {
				return e
			}
			got := res[0].(*absint.Bits).Bits()[0]
			diff := d.M.And(dom, d.M.Xor(got, want))
			r.Check(diff == absint.False, "R3.isnetid", key+tag, "", "true iff the address has the NetID's type prefix and its NwkID equals the low bits of the NetID's ID", "boolean functions equal: "+fmt.Sprint(diff == absint.False)+witnessIf(in, diff), true)
			return nil
		}, func(tag string, err error) {
			r.Unknown("R3.isnetid", key+tag, "", "inside the interpreter's subset", err.Error())
		})
	}()
}
