package props

import (
	"fmt"
	"go/types"
	"sort"
	"strings"
	"sync"

	"golang.org/x/tools/go/ssa"
	"golang.org/x/tools/go/ssa/ssautil"

	"lwverif/internal/guards"
	"lwverif/internal/load"
)

func init() {
	Register("C09", checkC09)
	dumpers["guards"] = dumpGuards
	dumpers["decide"] = func(P *load.Program, args []string) {
		E := guardsEngine(P)
		for f := range ssautil.AllFunctions(P.SSA) {
			if load.InModule(f) && f.Blocks != nil && len(args) > 0 && strings.Contains(f.String(), args[0]) {
				fmt.Println(f.String(), "::", E.DescribeDecision(f))
			}
		}
	}
}

var (
	engOnce sync.Once
	eng     *guards.Engine
)

// guardsEngine builds E3 once per process.
func guardsEngine(P *load.Program) *guards.Engine {
	engOnce.Do(func() {
		cg := P.CallGraph()
		eng = guards.NewEngine(P.SSA, cg, load.InModule, P.GOARCH)
	})
	return eng
}

// decoderRoots: every exported Unmarshal*/Decode*/Decrypt*/Scan function or method of the non-test packages
// plus GetMACPayloadAndSize.
func decoderRoots(P *load.Program) []*ssa.Function {
	P.BuildSSA()
	var out []*ssa.Function
	for f := range ssautil.AllFunctions(P.SSA) {
		if !load.InModule(f) || f.Synthetic != "" || f.Blocks == nil || f.Parent() != nil {
			continue
		}
		n := f.Name()
		if !(strings.HasPrefix(n, "Unmarshal") || strings.HasPrefix(n, "Decode") || strings.HasPrefix(n, "Decrypt") || n == "Scan" || n == "GetMACPayloadAndSize") {
			continue
		}
		if !ast_IsExported(n) {
			continue
		}
		out = append(out, f)
	}
	sort.Slice(out, func(i, j int) bool { return out[i].String() < out[j].String() })
	return out
}

func ast_IsExported(n string) bool { return n != "" && n[0] >= 'A' && n[0] <= 'Z' }

func oblKey(o *guards.Obl) string {
	expr := o.Expr
	if expr == "" {
		expr = "?"
	}
	return fmt.Sprintf("%s.%s/%s %s", guards.PkgRel(o.Fn, load.ModPath), guards.FuncShort(o.Fn), o.Kind, expr)
}

func ruleOfKind(kind string) string {
	switch kind {
	case "index", "slice", "div", "shift", "make", "intrinsic":
		return "R1.guarded"
	case "assert", "panic", "nil", "extern", "mapwrite":
		return "R4.nopanic"
	}
	return "R1.guarded"
}

func emitObl(c *Ctx, rulePrefix string, o *guards.Obl) {
	r := c.Run
	rule := rulePrefix + ruleOfKind(o.Kind)
	key := oblKey(o)
	pos := c.Prog.Rel(o.Pos())
	switch o.Status {
	case guards.Proved:
		r.OK(rule, key, pos, o.Want, o.Why, o.Nontrivial)
	case guards.Failed:
		r.Bad(rule, key, pos, o.Want, o.Why)
	default:
		r.Unknown(rule, key, pos, o.Want, o.Why)
	}
}

func checkC09(c *Ctx) {
	r := c.Run
	P := c.Prog
	r.Rule("R1.guarded", "every index/slice/div/shift/make/intrinsic reachable from a decoder root is discharged by dominating facts")
	r.Rule("R2.progress", "every loop reachable from a decoder root has an index that strictly increases towards a loop-invariant bound")
	r.Rule("R4.nopanic", "no unchecked type assertion, explicit panic, nil dereference or unclassified extern callee on reachable paths")
	r.Explanation = "E3 (DESIGN §2.4): forward dataflow of linear facts over SSA with memory-versioned loads, loop facts as greatest fixpoint, callee summaries, template-linear entailment"
	E := guardsEngine(P)
	roots := decoderRoots(P)
	for _, f := range roots {
		E.Roots[f] = true
		r.Saw("decoder roots", guards.PkgRel(f, load.ModPath)+"."+guards.FuncShort(f))
	}
	reach := E.Reachable(roots)
	var scope []*ssa.Function
	for _, f := range reach {
		if f.Synthetic != "" || f.Blocks == nil {
			continue
		}
		scope = append(scope, f)
		r.Saw("reachable module functions", guards.PkgRel(f, load.ModPath)+"."+guards.FuncShort(f))
	}
	E.SolveParamNil(scope)
	for _, f := range scope {
		for _, o := range E.Obligations(f) {
			emitObl(c, "", o)
		}
		for _, lp := range E.LoopProgress(f) {
			key := fmt.Sprintf("%s.%s/loop %s", guards.PkgRel(f, load.ModPath), guards.FuncShort(f), lp.Desc)
			switch lp.Status {
			case guards.Proved:
				r.OK("R2.progress", key, P.Rel(lp.Pos), "index advances by >= 1 on every back edge towards an invariant bound", lp.Why, true)
			case guards.Failed:
				r.Bad("R2.progress", key, P.Rel(lp.Pos), "index advances by >= 1 on every back edge towards an invariant bound", lp.Why)
			default:
				r.Unknown("R2.progress", key, P.Rel(lp.Pos), "recognised loop shape", lp.Why)
			}
		}
	}
	for _, u := range E.ExternUses() {
		r.Saw("extern callees ("+u.Class+")", fmt.Sprintf("%s ×%d — %s", u.Name, u.Sites, u.Reason))
	}
	c09NoInputWrite(c)
	r.Assumptions = guardsAssumptions
	r.Trusted = []string{"go/packages, go/types, go/ssa, callgraph/vta", "the trusted-total table of extern callees (internal/guards/extern.go)"}
}

var guardsAssumptions = []string{
	"the Go toolchain's type checker, go/ssa construction and the VTA call graph are correct",
	"A1: arithmetic in int/int64/uint64 on lengths, indices and small constants does not overflow (narrower types are modelled with wrap-around)",
	"A2: an interface value that passes a type assertion / carries a receiver does not hold a typed nil pointer",
	"A3: String/Error methods called by fmt/log verbs are side-effect free and total",
	"A4: receivers and pointer parameters of the root functions are non-nil; input slices and interface parameters are arbitrary",
	"slice expressions are required to stay within len (stronger than Go's cap bound)",
}

// c09NoInputWrite is the hook for C09-R3 (no store / copy destination / in-place append through the input
// parameter of a decoder root). The rule is built on the effects engine (E4).
func c09NoInputWrite(c *Ctx) {
	c.Run.Note("C09-R3 NO-INPUT-WRITE: provided by effects engine after merge")
}

var _ = types.Identical

// dumpGuards: lwstatic dump guards [func-substring]  — prints obligations and facts for debugging.
func dumpGuards(P *load.Program, args []string) {
	E := guardsEngine(P)
	roots := decoderRoots(P)
	for _, f := range roots {
		E.Roots[f] = true
	}
	reach := E.Reachable(roots)
	var scope []*ssa.Function
	for _, f := range reach {
		if f.Synthetic == "" && f.Blocks != nil {
			scope = append(scope, f)
		}
	}
	E.SolveParamNil(scope)
	fmt.Printf("roots=%d reachable=%d\n", len(roots), len(scope))
	counts := map[string][2]int{}
	for _, f := range scope {
		if len(args) > 0 && !strings.Contains(f.String(), args[0]) {
			continue
		}
		for _, o := range E.Obligations(f) {
			c := counts[o.Kind]
			c[0]++
			if o.Status != guards.Proved {
				c[1]++
				fmt.Printf("FAIL %-9s %s %s\n      %s\n", o.Kind, P.Rel(o.Pos()), oblKey(o), o.Why)
			} else if len(args) > 1 {
				fmt.Printf("ok   %-9s %s %s\n      %s\n", o.Kind, P.Rel(o.Pos()), oblKey(o), o.Why)
			}
			counts[o.Kind] = c
		}
		for _, lp := range E.LoopProgress(f) {
			c := counts["loop"]
			c[0]++
			if lp.Status != guards.Proved {
				c[1]++
				fmt.Printf("FAIL loop      %s %s %s\n      %s\n", P.Rel(lp.Pos), f.String(), lp.Desc, lp.Why)
			}
			counts["loop"] = c
		}
	}
	var ks []string
	for k := range counts {
		ks = append(ks, k)
	}
	sort.Strings(ks)
	for _, k := range ks {
		fmt.Printf("kind %-9s total=%d failed=%d\n", k, counts[k][0], counts[k][1])
	}
	for _, u := range E.ExternUses() {
		fmt.Printf("extern %-14s ×%-3d %s\n", u.Class, u.Sites, u.Name)
	}
}
