package props

import (
	"fmt"
	"sort"
	"strings"

	"golang.org/x/tools/go/ssa"
	"golang.org/x/tools/go/ssa/ssautil"

	"lwverif/internal/guards"
	"lwverif/internal/load"
)

// C09 — decoders are total (DESIGN §3 C09): R1 GUARDED, R2 PROGRESS, R4 no unchecked assertion / panic / nil
// dereference, over every exported Unmarshal*/Decode*/Decrypt*/Scan root plus GetMACPayloadAndSize.
// R3 NO-INPUT-WRITE is provided by the effects engine (hook c09NoInputWrite).

func init() {
	Register("C09", checkC09)
	dumpers["guards"] = dumpGuards
	dumpers["summary"] = func(P *load.Program, args []string) {
		E := guardsEngine(P)
		for f := range ssautil.AllFunctions(P.SSA) {
			if load.InModule(f) && f.Blocks != nil && len(args) > 0 && strings.Contains(f.String(), args[0]) {
				if s := E.Summarize(f); s != nil {
					fmt.Printf("%s :: errIdx=%d %+v\n", f.String(), s.ErrIdx, s.Res)
				} else {
					fmt.Println(f.String(), ":: no summary")
				}
			}
		}
	}
	dumpers["decide"] = func(P *load.Program, args []string) {
		E := guardsEngine(P)
		for f := range ssautil.AllFunctions(P.SSA) {
			if load.InModule(f) && f.Blocks != nil && len(args) > 0 && strings.Contains(f.String(), args[0]) {
				fmt.Println(f.String(), "::", E.DescribeDecision(f))
			}
		}
	}
}

// c09DecoderRoots: every exported Unmarshal*/Decode*/Decrypt*/Scan function or method of the non-test packages
// plus GetMACPayloadAndSize.
func c09DecoderRoots(P *load.Program) []*ssa.Function {
	P.BuildSSA()
	var out []*ssa.Function
	for f := range ssautil.AllFunctions(P.SSA) {
		if !load.InModule(f) || f.Synthetic != "" || f.Blocks == nil || f.Parent() != nil {
			continue
		}
		n := f.Name()
		if !(strings.HasPrefix(n, "Unmarshal") || strings.HasPrefix(n, "Decode") || strings.HasPrefix(n, "Decrypt") || n == "Scan" || n == "GetMACPayloadAndSize") {
			continue
		}
		out = append(out, f)
	}
	sort.Slice(out, func(i, j int) bool { return out[i].String() < out[j].String() })
	return out
}

func c09Rule(kind string) string {
	switch kind {
	case "index", "slice", "div", "shift", "make", "intrinsic":
		return "R1.guarded"
	default: // assert panic nil extern
		return "R4.nopanic"
	}
}

// c09Excluded: obligations the engine cannot discharge for a reason that is a limit of the analysis, not a
// defect of /repo. They are excluded from the claim and printed as notes on every run.
var c09Excluded = map[string]string{}

func checkC09(c *Ctx) {
	r := c.Run
	r.Rule("R0.roots", "every decoder root is found and its analysis converges")
	r.Rule("R1.guarded", "every index/slice/div/shift/make/intrinsic-precondition reachable from a decoder root is discharged by dominating facts")
	r.Rule("R2.progress", "every loop reachable from a decoder root moves an index by >= 1 per iteration towards a loop-invariant bound")
	r.Rule("R2.progress.nest", "loops nested inside a loop of the same function have constant bounds (linear time)")
	r.Rule("R4.nopanic", "no unchecked type assertion, explicit panic, nil dereference or unclassified extern callee on reachable paths")
	r.Explanation = "E3 (DESIGN §2.4): forward dataflow of linear facts over go/ssa with memory-versioned loads, loop facts as a greatest fixpoint (iterated removal with widening at loop heads), callee summaries (intervals, parameter-linear lengths, piecewise-constant decision summaries, non-nil results), field and registry invariants, template-linear entailment (depth <= 4)"
	guardsSelfTest(c, "R9.selftest")
	P := c.Prog
	roots := c09DecoderRoots(P)
	E := guardsEngine(P)
	scope := runGuards(c, roots, guardsOpts{rule: c09Rule, loopRule: "R2.progress", nest: true, excluded: c09Excluded, rootsCat: "decoder roots"})
	for _, f := range roots {
		a := E.Analyze(f)
		if a != nil && a.Converged {
			r.OK("R0.roots", guardFnName(f), P.Rel(f.Pos()), "root analysed", fmt.Sprintf("%d blocks", len(f.Blocks)), false)
		} else {
			r.Unknown("R0.roots", guardFnName(f), P.Rel(f.Pos()), "root analysed", "dataflow did not converge")
		}
	}
	// recursion among the reachable functions would break the linear-time argument
	for _, cyc := range guardCallCycles(E, scope) {
		r.Unknown("R2.progress", "recursion "+cyc, "", "no recursion among decoder functions", "call-graph cycle: "+cyc)
	}
	c09NoInputWrite(c)
	r.Assumptions = guardsAssumptions
	r.Trusted = []string{"go/packages, go/types, go/ssa, callgraph/vta", "the trusted-total table of extern callees (internal/guards/extern.go)"}
}

// guardCallCycles: strongly connected components with a cycle among the functions in scope.
func guardCallCycles(E *guards.Engine, scope []*ssa.Function) []string {
	in := map[*ssa.Function]bool{}
	for _, f := range scope {
		in[f] = true
	}
	succ := func(f *ssa.Function) []*ssa.Function {
		var out []*ssa.Function
		for _, b := range f.Blocks {
			for _, ins := range b.Instrs {
				if call, ok := ins.(ssa.CallInstruction); ok {
					for _, c := range E.Callees(call) {
						if in[c] {
							out = append(out, c)
						}
					}
				}
			}
		}
		return out
	}
	// Tarjan
	index := map[*ssa.Function]int{}
	low := map[*ssa.Function]int{}
	on := map[*ssa.Function]bool{}
	var stack []*ssa.Function
	var out []string
	n := 0
	var visit func(f *ssa.Function)
	visit = func(f *ssa.Function) {
		n++
		index[f], low[f] = n, n
		stack = append(stack, f)
		on[f] = true
		self := false
		for _, s := range succ(f) {
			if s == f {
				self = true
			}
			if index[s] == 0 {
				visit(s)
				if low[s] < low[f] {
					low[f] = low[s]
				}
			} else if on[s] && index[s] < low[f] {
				low[f] = index[s]
			}
		}
		if low[f] == index[f] {
			var comp []string
			for {
				x := stack[len(stack)-1]
				stack = stack[:len(stack)-1]
				on[x] = false
				comp = append(comp, guardFnName(x))
				if x == f {
					break
				}
			}
			if len(comp) > 1 || self {
				sort.Strings(comp)
				out = append(out, strings.Join(comp, " <-> "))
			}
		}
	}
	for _, f := range scope {
		if index[f] == 0 {
			visit(f)
		}
	}
	sort.Strings(out)
	return out
}

// c09NoInputWrite is the hook for C09-R3 (no store / copy destination / in-place append through the input
// parameter of a decoder root). The rule is built on the effects engine (E4).
func c09NoInputWrite(c *Ctx) {
	ruleNoInputWrite(c, "R3.no-input-write", nil)
	// never hang: decoders take macPayloadMutex (and the application-layer registries' locks); no function may leave one locked
	ruleNoLockLeak(c, "R5.no-lock-leak")
}

// dumpGuards: lwstatic dump guards [func-substring [all]]  — prints obligations and facts for debugging.
func dumpGuards(P *load.Program, args []string) {
	E := guardsEngine(P)
	roots := c09DecoderRoots(P)
	if rs := guardExtraDumpRoots(P); len(rs) > 0 {
		roots = append(roots, rs...)
	}
	for _, f := range roots {
		E.Roots[f] = true
	}
	reach := E.Reachable(roots)
	var scope []*ssa.Function
	for _, f := range reach {
		if f.Synthetic == "" && f.Blocks != nil {
			scope = append(scope, f)
		}
	}
	E.SolveParamNil(scope)
	fmt.Printf("roots=%d reachable=%d\n", len(roots), len(scope))
	counts := map[string][2]int{}
	for _, f := range scope {
		if len(args) > 0 && !strings.Contains(f.String(), args[0]) {
			continue
		}
		for _, o := range E.Obligations(f) {
			c := counts[o.Kind]
			c[0]++
			if o.Status != guards.Proved {
				c[1]++
				fmt.Printf("FAIL %-9s %s %s\n      %s\n", o.Kind, P.Rel(o.Pos()), guardOblKey(o), o.Why)
			} else if len(args) > 1 {
				fmt.Printf("ok   %-9s %s %s\n      %s\n", o.Kind, P.Rel(o.Pos()), guardOblKey(o), o.Why)
			}
			counts[o.Kind] = c
		}
		for _, lp := range E.LoopProgress(f) {
			c := counts["loop"]
			c[0]++
			if lp.Status != guards.Proved {
				c[1]++
				fmt.Printf("FAIL loop      %s %s %s\n      %s\n", P.Rel(lp.Pos), f.String(), lp.Desc, lp.Why)
			} else if len(args) > 1 {
				fmt.Printf("ok   loop      %s %s %s depth=%d inputbound=%v\n      %s\n", P.Rel(lp.Pos), f.String(), lp.Desc, lp.Depth, lp.InputBound, lp.Why)
			}
			counts["loop"] = c
		}
	}
	var ks []string
	for k := range counts {
		ks = append(ks, k)
	}
	sort.Strings(ks)
	for _, k := range ks {
		fmt.Printf("kind %-9s total=%d failed=%d\n", k, counts[k][0], counts[k][1])
	}
	for _, u := range E.ExternUses() {
		fmt.Printf("extern %-14s ×%-3d %s\n", u.Class, u.Sites, u.Name)
	}
}

// guardExtraDumpRoots lets `LWROOTS=pkg.Func,…` add roots to the debugging dump.
func guardExtraDumpRoots(P *load.Program) []*ssa.Function {
	return guardRootsFromEnv(P)
}
