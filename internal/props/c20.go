package props

import (
	"fmt"
	"go/ast"
	"go/constant"
	"go/token"
	"go/types"
	"lwverif/internal/guards"
	"sort"
	"strings"

	"golang.org/x/tools/go/ssa"

	"lwverif/internal/load"
	"lwverif/internal/tables"
)

func init() { Register("C20", checkC20) }

type timeSpec struct {
	GPSEpoch []int   `json:"gps_epoch"`
	Leap     [][]int `json:"leap_seconds"`
	HMS      []int   `json:"leap_instant_hms"`
	EIRP     []int   `json:"eirp_dbm"`
}

func checkC20(c *Ctx) {
	r := c.Run
	r.Exhaustive = true
	r.Explanation = "Decides the table clauses of C20 and three structural necessary conditions of its conversion clauses: the leap-second table equals the 18 published instants (+1 s each, strictly ascending), the GPS epoch constant is 1980-01-06T00:00:00Z, the EIRP coding table equals the specification and is strictly increasing with a guarded index, and no airtime computation scales up the result of a truncating integer division. The GPS conversions themselves are decided exactly by the bit-level engine (rules R7: time.Time modelled as a 64-bit nanosecond count, every instant 1980-2100 at once): applied offset = published leap-second count, strict monotonicity, round trips in both directions. It does NOT decide the floating-point airtime formula or sensitivity numerics (declined in DESIGN.md)."
	r.Trusted = []string{"go/types constant evaluation", "internal/tables evaluator", "spec/time.json transcription", "package time (Date, Before, Add, Sub)"}
	r.Rule("R1.leap", "leapSecondsTable = the 18 published leap-second instants, Duration = 1 s each, strictly ascending")
	// R1 reads a literal table of that name; how the leap seconds are stored is an implementation matter, and what they
	// amount to — the offset applied at every instant equals the published count — is decided by R7.gps-offset
	r.Advisory("R1.leap", "R7.gps-offset")
	r.Rule("R2.epoch", "gpsEpochTime = 1980-01-06 00:00:00 UTC")
	r.Rule("R6.eirp-encode", "GetTXParamSetupEIRPIndex depends on the power only through comparisons with eirpTable entries, and on each of the 32 order types returns the largest index whose entry does not exceed the power")
	r.Rule("R3.eirp", "eirpTable = 8,10,12,13,14,16,18,20,21,24,26,27,29,30,33,36 strictly increasing; decode index guarded")
	r.Rule("R5.divmul", "in package airtime no integer product has a factor that is the result of a truncating non-constant integer division")
	var spec timeSpec
	if err := c.Spec("time.json", &spec); err != nil {
		r.Unknown("R0.load", "spec/time.json", "", "oracle readable", err.Error())
		return
	}
	P := c.Prog
	gps := P.Pkg("gps")
	ev := tables.NewEvaluator(gps)
	lookupVar := func(pk string, ev *tables.Evaluator, name string) (tables.Value, types.Object) {
		o := P.Pkg(pk).Types.Scope().Lookup(name)
		if o == nil {
			return tables.Unknown{Why: "not declared"}, nil
		}
		// evaluate through an identifier use: find any *ast.Ident defining it
		for id, d := range P.Pkg(pk).TypesInfo.Defs {
			if d == o {
				return ev.Eval(id, tables.NewEnv(nil)), o
			}
		}
		return tables.Unknown{Why: "no definition"}, o
	}
	isDate := func(v tables.Value, want []int) (bool, string) {
		call, ok := v.(*tables.Call)
		if !ok || call.Fn != "time.Date" || len(call.Args) != 8 {
			return false, tables.Show(v)
		}
		got := []int{}
		for i := 0; i < 7; i++ {
			n, ok := tables.AsInt(call.Args[i])
			if !ok {
				return false, tables.Show(v)
			}
			got = append(got, n)
		}
		loc := tables.Show(call.Args[7])
		return fmt.Sprint(got) == fmt.Sprint(want) && loc == "?(foreign package variable UTC)", fmt.Sprint(got) + " " + loc
	}
	// R2
	ep, eo := lookupVar("gps", ev, "gpsEpochTime")
	if eo == nil {
		r.Unknown("R2.epoch", "gps.gpsEpochTime", "", "anchor variable present", "missing")
	} else {
		ok, got := isDate(ep, spec.GPSEpoch)
		r.Check(ok, "R2.epoch", "gps.gpsEpochTime", P.Rel(eo.Pos()), fmt.Sprint(spec.GPSEpoch)+" UTC", got, true)
	}
	// R1
	lt, lo := lookupVar("gps", ev, "leapSecondsTable")
	sl, ok := lt.(*tables.Slice)
	if lo == nil || !ok {
		r.Unknown("R1.leap", "gps.leapSecondsTable", "", "literal table, never written after init", tables.Show(lt))
	} else {
		r.Check(len(sl.Elems) == len(spec.Leap), "R1.leap", "gps.leapSecondsTable/len", P.Rel(lo.Pos()), fmt.Sprint(len(spec.Leap)), fmt.Sprint(len(sl.Elems)), false)
		for i, e := range sl.Elems {
			if i >= len(spec.Leap) {
				r.Bad("R1.leap", fmt.Sprintf("gps.leapSecondsTable[%d]", i), P.Rel(lo.Pos()), "no further leap second published", tables.Show(e))
				continue
			}
			want := append(append([]int{}, spec.Leap[i]...), spec.HMS...)
			okd, got := isDate(tables.Field(e, "Time"), want)
			d, okn := tables.AsInt(tables.Field(e, "Duration"))
			r.Check(okd && okn && d == 1_000_000_000, "R1.leap", fmt.Sprintf("gps.leapSecondsTable[%d]", i), P.Rel(lo.Pos()), fmt.Sprint(want)+" UTC +1s", fmt.Sprintf("%s +%dns", got, d), true)
		}
		// ascending order of the oracle itself (a precondition of the summation being a count)
		for i := 1; i < len(spec.Leap); i++ {
			a, b := spec.Leap[i-1], spec.Leap[i]
			asc := a[0] < b[0] || (a[0] == b[0] && (a[1] < b[1] || (a[1] == b[1] && a[2] < b[2])))
			if !asc {
				r.Unknown("R1.leap", "spec/time.json/order", "", "oracle ascending", fmt.Sprint(a, b))
			}
		}
	}
	// R3 eirp
	root := P.Pkg("")
	ev2 := tables.NewEvaluator(root)
	et, eobj := lookupVar("", ev2, eirpTableName(P))
	esl, ok := et.(*tables.Slice)
	if eobj == nil || !ok {
		r.Unknown("R3.eirp", "lorawan.eirpTable", "", "literal table, never written after init", tables.Show(et))
	} else {
		r.Check(len(esl.Elems) == len(spec.EIRP), "R3.eirp", "lorawan.eirpTable/len", P.Rel(eobj.Pos()), fmt.Sprint(len(spec.EIRP)), fmt.Sprint(len(esl.Elems)), false)
		prev := -1e9
		for i, e := range esl.Elems {
			f, okf := e.(tables.Float)
			want := -1
			if i < len(spec.EIRP) {
				want = spec.EIRP[i]
			}
			r.Check(okf && f.V == float64(want) && f.V > prev, "R3.eirp", fmt.Sprintf("lorawan.eirpTable[%d]", i), P.Rel(eobj.Pos()), fmt.Sprintf("%d dBm, greater than the previous entry", want), tables.Show(e), true)
			if okf {
				prev = f.V
			}
		}
	}
	c20EIRPGuard(c)
	var tbl []float64
	if esl != nil {
		for _, e := range esl.Elems {
			if f, ok := e.(tables.Float); ok {
				tbl = append(tbl, f.V)
			}
		}
	}
	c20EIRPEncode(c, ev2, tbl)
	c20DivMul(c)
	c20AirtimeInt(c)
	c20GPS(c, spec.Leap, spec.HMS)
	// the conversions, the airtime functions and the EIRP lookups are functions of their arguments: no result cache, no
	// table that is filled while they run (tables built once from immutable data under sync.Once are initialisation)
	for _, t := range []struct{ rel, name string }{
		{"airtime", "CalculateLoRaAirtime"}, {"airtime", "CalculateLoRaSymbolDuration"}, {"airtime", "CalculateLoRaPreambleDuration"},
		{"airtime", "CalculateLoRaPayloadSymbolNumber"}, {"gps", "NewTimeFromTimeSinceGPSEpoch"}, {"gps", "Time.TimeSinceGPSEpoch"},
		{"", "GetTXParamSetupEIRPIndex"}, {"", "GetTXParamSetupEIRP"},
	} {
		fn := c.Prog.SSAFunc(t.rel, t.name)
		if fn == nil {
			r.Unknown("R8.stateless", t.rel+"."+t.name, "", "anchor function exists", "missing")
			continue
		}
		ruleStatelessGlobals(c, "R8.stateless", fn)
	}
}

// countedLoopRange recognises i := a; i < b | i <= b | i > b | i >= b; i++ | i-- with constant or len(table)±k bounds.
func countedLoopRange(info *types.Info, x *ast.ForStmt, table types.Object, n int) (lo, hi int, ok bool) {
	val := func(e ast.Expr) (int, bool) {
		if v, ok := valRec(info, e, table, n); ok {
			return v, true
		}
		if be, ok := unparen(e).(*ast.BinaryExpr); ok {
			l, okl := valRec(info, be.X, table, n)
			rr, okr := valRec(info, be.Y, table, n)
			if okl && okr && be.Op == token.ADD {
				return l + rr, true
			}
			if okl && okr && be.Op == token.SUB {
				return l - rr, true
			}
		}
		return 0, false
	}
	as, ok1 := x.Init.(*ast.AssignStmt)
	if !ok1 || len(as.Lhs) != 1 || len(as.Rhs) != 1 {
		return 0, 0, false
	}
	iv, ok2 := as.Lhs[0].(*ast.Ident)
	start, ok3 := val(as.Rhs[0])
	cond, ok4 := x.Cond.(*ast.BinaryExpr)
	inc, ok5 := x.Post.(*ast.IncDecStmt)
	if !ok2 || !ok3 || !ok4 || !ok5 {
		return 0, 0, false
	}
	cid, ok6 := cond.X.(*ast.Ident)
	bound, ok7 := val(cond.Y)
	pid, ok8 := inc.X.(*ast.Ident)
	if !ok6 || !ok7 || !ok8 || cid.Name != iv.Name || pid.Name != iv.Name {
		return 0, 0, false
	}
	if inc.Tok == token.INC {
		switch cond.Op {
		case token.LSS:
			return start, bound - 1, true
		case token.LEQ:
			return start, bound, true
		}
	} else {
		switch cond.Op {
		case token.GTR:
			return bound + 1, start, true
		case token.GEQ:
			return bound, start, true
		}
	}
	return 0, 0, false
}

func valRec(info *types.Info, e ast.Expr, table types.Object, n int) (int, bool) {
	if tv, ok := info.Types[e]; ok && tv.Value != nil && tv.Value.Kind() == constant.Int {
		v, _ := constant.Int64Val(tv.Value)
		return int(v), true
	}
	e = unparen(e)
	if call, ok := e.(*ast.CallExpr); ok && len(call.Args) == 1 {
		if id, ok := call.Fun.(*ast.Ident); ok && id.Name == "len" {
			if aid, ok := unparen(call.Args[0]).(*ast.Ident); ok && info.Uses[aid] == table {
				return n, true
			}
		}
	}
	return 0, false
}

// c20EIRPGuard: GetTXParamSetupEIRP's table index is dominated by an upper-bound test.
func c20EIRPGuard(c *Ctx) {
	r := c.Run
	P := c.Prog
	fn := P.SSAFunc("", "GetTXParamSetupEIRP")
	if fn == nil {
		r.Unknown("R3.eirp", "lorawan.GetTXParamSetupEIRP", "", "anchor function present", "missing")
		return
	}
	n := 0
	for _, b := range fn.Blocks {
		for _, ins := range b.Instrs {
			ia, ok := ins.(*ssa.IndexAddr)
			if !ok {
				continue
			}
			p := paramOf(ia.Index)
			if p == nil {
				continue
			}
			n++
			_, upper, facts := indexGuards(b, p, ia.X)
			if !upper {
				// guards written another way than the matcher reads: the facts engine decides the same obligation
				switch st, why := e3IndexVerdict(P, fn, ins); st {
				case guards.Proved:
					r.OK("R3.eirp", "lorawan.GetTXParamSetupEIRP/index-guard", P.Rel(ins.Pos()), "index <= len(eirpTable)-1 dominates the table read", "E3: "+why, true)
					continue
				case guards.Unsupported:
					r.Unknown("R3.eirp", "lorawan.GetTXParamSetupEIRP/index-guard", P.Rel(ins.Pos()), "index <= len(eirpTable)-1 dominates the table read", "E3: "+why)
					continue
				}
			}
			r.Check(upper, "R3.eirp", "lorawan.GetTXParamSetupEIRP/index-guard", P.Rel(ins.Pos()), "index <= len(eirpTable)-1 dominates the table read", fmt.Sprint(facts), true)
		}
	}
	if n == 0 {
		r.Unknown("R3.eirp", "lorawan.GetTXParamSetupEIRP/index-guard", P.Rel(fn.Pos()), "a table read indexed by the parameter", "none found")
	}
}

// c20DivMul: airtime: no integer MUL with an operand defined by a non-constant integer QUO.
func c20DivMul(c *Ctx) {
	r := c.Run
	P := c.Prog
	sp := P.SSAPkg("airtime")
	if sp == nil {
		r.Unknown("R5.divmul", "airtime", "", "package loaded", "missing")
		return
	}
	isInt := func(t types.Type) bool {
		b, ok := t.Underlying().(*types.Basic)
		return ok && b.Info()&types.IsInteger != 0
	}
	var truncDiv func(v ssa.Value, depth int) *ssa.BinOp
	truncDiv = func(v ssa.Value, depth int) *ssa.BinOp {
		if depth > 6 {
			return nil
		}
		switch x := v.(type) {
		case *ssa.BinOp:
			if x.Op == token.QUO && isInt(x.Type()) {
				if _, yc := x.Y.(*ssa.Const); !yc {
					return x
				}
			}
		case *ssa.Convert:
			if isInt(x.X.Type()) {
				return truncDiv(x.X, depth+1)
			}
		case *ssa.ChangeType:
			return truncDiv(x.X, depth+1)
		case *ssa.Phi:
			for _, e := range x.Edges {
				if d := truncDiv(e, depth+1); d != nil {
					return d
				}
			}
		}
		return nil
	}
	nmul := 0
	for _, m := range sp.Members {
		fn, ok := m.(*ssa.Function)
		if !ok || fn.Blocks == nil {
			continue
		}
		r.Saw("airtime functions", fn.Name())
		for _, b := range fn.Blocks {
			for _, ins := range b.Instrs {
				bo, ok := ins.(*ssa.BinOp)
				if !ok || bo.Op != token.MUL || !isInt(bo.Type()) {
					continue
				}
				nmul++
				var d *ssa.BinOp
				for _, op := range []ssa.Value{bo.X, bo.Y} {
					if x := truncDiv(op, 0); x != nil {
						d = x
					}
				}
				key := fmt.Sprintf("airtime.%s/mul#%d", fn.Name(), nmul)
				if d != nil {
					r.Bad("R5.divmul", key, P.Rel(bo.Pos()), "no factor is a truncated quotient (multiply before dividing)", fmt.Sprintf("factor is the integer quotient computed at %s", P.Rel(d.Pos())))
				} else {
					r.OK("R5.divmul", key, P.Rel(bo.Pos()), "no factor is a truncated quotient", "factors are parameters, constants or products", true)
				}
			}
		}
	}
}

// c20EIRPEncode decides the encode clause of the EIRP coding: (a) structurally, the power parameter reaches the
// result only through comparisons against entries of eirpTable (so the function is constant on each order type of the
// power relative to the 16 entries), and (b) for one representative of each of the 32 order types at or above the
// first entry (equal to entry i; strictly between entries i and i+1; above the last) the constant-propagated result
// is the largest index whose entry does not exceed the power.
func c20EIRPEncode(c *Ctx, ev *tables.Evaluator, tbl []float64) {
	r := c.Run
	P := c.Prog
	const fnName = "GetTXParamSetupEIRPIndex"
	fn := P.SSAFunc("", fnName)
	fd := load.FuncDecl(P.Pkg(""), fnName)
	if fn == nil || fd == nil || len(fn.Params) != 1 {
		r.Unknown("R6.eirp-encode", "lorawan."+fnName, "", "anchor function with one parameter", "missing")
		return
	}
	var g *ssa.Global
	if m, ok := fn.Pkg.Members[eirpTableName(P)].(*ssa.Global); ok {
		g = m
	}
	// (a) uses of the parameter
	var bad []string
	seen := map[ssa.Value]bool{}
	ncmp := 0
	var visit func(v ssa.Value)
	var visitAddr func(a ssa.Value)
	seenAddr := map[ssa.Value]bool{}
	// visitAddr: a is the address of a cell that holds the power (a local, or a captured free variable)
	visitAddr = func(a ssa.Value) {
		if seenAddr[a] {
			return
		}
		seenAddr[a] = true
		refs := a.Referrers()
		if refs == nil {
			return
		}
		for _, ins := range *refs {
			switch x := ins.(type) {
			case *ssa.DebugRef:
			case *ssa.UnOp:
				if x.Op == token.MUL {
					visit(x)
				}
			case *ssa.Store:
				if x.Addr != a {
					bad = append(bad, fmt.Sprintf("%s: address of the power stored", P.Rel(x.Pos())))
				} else if !seen[x.Val] {
					bad = append(bad, fmt.Sprintf("%s: the local holding the power is overwritten", P.Rel(x.Pos())))
				}
			case *ssa.MakeClosure:
				if fnc, ok := x.Fn.(*ssa.Function); ok {
					for i, b := range x.Bindings {
						if b == a && i < len(fnc.FreeVars) {
							visitAddr(fnc.FreeVars[i])
						}
					}
				}
			default:
				bad = append(bad, fmt.Sprintf("%s: address of the power used by %T", P.Rel(ins.Pos()), ins))
			}
		}
	}
	visit = func(v ssa.Value) {
		if seen[v] {
			return
		}
		seen[v] = true
		refs := v.Referrers()
		if refs == nil {
			return
		}
		for _, ins := range *refs {
			switch x := ins.(type) {
			case *ssa.DebugRef:
			case *ssa.Convert:
				// exact widening float32 -> float64 keeps the value
				if bt, ok := x.Type().Underlying().(*types.Basic); ok && bt.Kind() == types.Float64 {
					visit(x)
				} else {
					bad = append(bad, fmt.Sprintf("%s: conversion to %s", P.Rel(x.Pos()), x.Type()))
				}
			case *ssa.Store:
				// spilled into a local that a closure captures: follow the loads of that local
				if al, ok := x.Addr.(*ssa.Alloc); ok && x.Val == v {
					visitAddr(al)
				} else {
					bad = append(bad, fmt.Sprintf("%s: stored to memory", P.Rel(x.Pos())))
				}
			case *ssa.MakeClosure:
				// captured by value: the free variable of the closure stands for the power
				if fnc, ok := x.Fn.(*ssa.Function); ok {
					for i, b := range x.Bindings {
						if b == v && i < len(fnc.FreeVars) {
							visit(fnc.FreeVars[i])
						}
					}
				}
			case *ssa.BinOp:
				switch x.Op {
				case token.LSS, token.LEQ, token.GTR, token.GEQ:
					other := x.X
					if other == v {
						other = x.Y
					}
					if g == nil || !derivesFromGlobal(other, g, map[ssa.Value]bool{}) {
						bad = append(bad, fmt.Sprintf("%s: compared with %s, not an entry of eirpTable", P.Rel(x.Pos()), other))
					}
					ncmp++
				default:
					bad = append(bad, fmt.Sprintf("%s: arithmetic %s on the power before it is compared", P.Rel(x.Pos()), x.Op))
				}
			default:
				bad = append(bad, fmt.Sprintf("%s: used by %T", P.Rel(ins.Pos()), ins))
			}
		}
	}
	visit(fn.Params[0])
	sort.Strings(bad)
	okA := len(bad) == 0 && ncmp > 0
	r.Check(okA, "R6.eirp-encode", "lorawan."+fnName+"/compare-only", P.Rel(fn.Pos()),
		"the power is used only as the unmodified operand of ordering comparisons with eirpTable entries", fmt.Sprintf("%d comparisons; %s", ncmp, strings.Join(bad, "; ")), true)
	if !okA || len(tbl) == 0 {
		return
	}
	// (b) one representative per order type
	type rep struct {
		x    float64
		want int
		name string
	}
	var reps []rep
	for i, t := range tbl {
		reps = append(reps, rep{t, i, fmt.Sprintf("equal-entry-%d", i)})
		if i+1 < len(tbl) {
			reps = append(reps, rep{(t + tbl[i+1]) / 2, i, fmt.Sprintf("between-%d-%d", i, i+1)})
		} else {
			reps = append(reps, rep{t + 1, i, "above-last"})
		}
	}
	for _, rp := range reps {
		res, ok := ev.Call(fd, map[string]tables.Value{fd.Type.Params.List[0].Names[0].Name: tables.Float{V: rp.x}})
		key := "lorawan." + fnName + "/order-type/" + rp.name
		if !ok || len(res) != 1 {
			r.Unknown("R6.eirp-encode", key, P.Rel(fn.Pos()), "constant propagation decides the result", "outside the evaluator's subset: "+firstN(ev.Diag, 3))
			continue
		}
		got, isInt := tables.AsInt(res[0])
		r.Check(isInt && got == rp.want, "R6.eirp-encode", key, P.Rel(fn.Pos()), fmt.Sprintf("index %d for a power of %v dBm (largest entry not exceeding it)", rp.want, rp.x), tables.Show(res[0]), true)
	}
}

// derivesFromGlobal: v is computed from a load of g (through element addressing, loads, range extraction and local copies).
func derivesFromGlobal(v ssa.Value, g *ssa.Global, seen map[ssa.Value]bool) bool {
	if v == g {
		return true
	}
	if seen[v] {
		return false
	}
	seen[v] = true
	switch x := v.(type) {
	case *ssa.UnOp:
		return derivesFromGlobal(x.X, g, seen)
	case *ssa.IndexAddr:
		return derivesFromGlobal(x.X, g, seen)
	case *ssa.Index:
		return derivesFromGlobal(x.X, g, seen)
	case *ssa.FieldAddr:
		return derivesFromGlobal(x.X, g, seen)
	case *ssa.Slice:
		return derivesFromGlobal(x.X, g, seen)
	case *ssa.Convert:
		return derivesFromGlobal(x.X, g, seen)
	case *ssa.ChangeType:
		return derivesFromGlobal(x.X, g, seen)
	case *ssa.Phi:
		for _, e := range x.Edges {
			if !derivesFromGlobal(e, g, seen) {
				return false
			}
		}
		return len(x.Edges) > 0
	case *ssa.Alloc:
		// a local copy: every store into it must come from g
		n := 0
		if refs := x.Referrers(); refs != nil {
			for _, ins := range *refs {
				if st, ok := ins.(*ssa.Store); ok && st.Addr == x {
					n++
					if !derivesFromGlobal(st.Val, g, seen) {
						return false
					}
				}
			}
		}
		return n > 0
	}
	return false
}

func firstN(xs []string, n int) string {
	if len(xs) > n {
		xs = xs[:n]
	}
	return strings.Join(xs, "; ")
}

// eirpTableName: the package-level table the exported decoder GetTXParamSetupEIRP indexes (eirpTable on the pinned
// tree; the name is not part of the API).
func eirpTableName(P *load.Program) string {
	fn := P.SSAFunc("", "GetTXParamSetupEIRP")
	if fn == nil {
		return "eirpTable"
	}
	for _, b := range fn.Blocks {
		for _, ins := range b.Instrs {
			var base ssa.Value
			switch x := ins.(type) {
			case *ssa.IndexAddr:
				base = x.X
			case *ssa.Index:
				base = x.X
			default:
				continue
			}
			if ld, ok := base.(*ssa.UnOp); ok {
				base = ld.X
			}
			if g, ok := base.(*ssa.Global); ok && g.Pkg == fn.Pkg {
				return g.Name()
			}
		}
	}
	return "eirpTable"
}
