package props

import (
	"fmt"
	"strings"

	"golang.org/x/tools/go/ssa"

	"lwverif/internal/flow"
	"lwverif/internal/load"
)

func init() {
	// lwstatic dump flow <pkg-rel> <Func|Recv.Method>: call sites with argument terms, returns with path
	// conditions and result terms.
	dumpers["flow"] = func(p *load.Program, args []string) {
		if len(args) < 2 {
			fmt.Println("usage: dump flow <pkg rel path, '.' for root> <Func|Recv.Method>")
			return
		}
		rel := args[0]
		if rel == "." {
			rel = ""
		}
		fn := p.SSAFunc(rel, args[1])
		if fn == nil {
			fmt.Println("no such function")
			return
		}
		e := flow.For(fn)
		for _, s := range flow.Calls(fn, nil) {
			fmt.Printf("call %s @%s\n", s.Callee, p.Rel(s.Instr.Pos()))
			for i, a := range s.Args {
				fmt.Printf("    arg%d = %s\n", i, a)
			}
			fmt.Printf("    under %s\n", e.PathCond(s.Instr.Block(), nil))
		}
		for _, r := range flow.Returns(fn) {
			fmt.Printf("return @%s under %s\n", p.Rel(r.Pos()), e.PathCond(r.Block(), nil).Pretty())
			if len(args) > 2 && len(fn.Params) > 0 {
				// dump flow <pkg> <fn> a.b.c: content of (*param0).a.b.c at each return
				fmt.Printf("    $0.%s = %s\n", args[2], e.SelectAddr(fn.Params[0], strings.Split(args[2], "."), r))
			}
			for i, v := range r.Results {
				fmt.Printf("    res%d = %s\n", i, e.Select(v, nil, r))
			}
		}
		for _, b := range fn.Blocks {
			for _, ins := range b.Instrs {
				if st, ok := ins.(*ssa.Store); ok {
					fmt.Printf("store %s <- %s\n", e.Term(st.Addr), e.Select(st.Val, nil, st))
				}
			}
		}
	}
}
