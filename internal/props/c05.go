package props

import (
	"fmt"
	"go/token"
	"go/types"

	"lwverif/internal/absint"
)

func init() { Register("C05", checkC05) }

// cloneDeep copies an abstract value including everything reachable through pointers, slices and interfaces, so that
// the copy is unaffected by later writes through the original (the sender mutates its frame in place).
func cloneDeep(v absint.Value) absint.Value {
	switch x := v.(type) {
	case *absint.Struct:
		n := &absint.Struct{T: x.T, F: map[string]*absint.Cell{}, Order: x.Order}
		for k, c := range x.F {
			n.F[k] = &absint.Cell{V: cloneDeep(c.V)}
		}
		return n
	case *absint.Array:
		n := &absint.Array{Elem: x.Elem}
		for _, c := range x.E {
			n.E = append(n.E, &absint.Cell{V: cloneDeep(c.V)})
		}
		return n
	case *absint.Slice:
		bk := &absint.Backing{}
		for i := 0; i < x.Len(); i++ {
			bk.E = append(bk.E, &absint.Cell{V: cloneDeep(x.At(i).V)})
		}
		return &absint.Slice{Back: bk, Hi: x.Len(), Cap: x.Len(), Elem: x.Elem, Nil: x.Nil}
	case *absint.Ptr:
		return &absint.Ptr{To: &absint.Cell{V: cloneDeep(x.To.V)}, T: x.T}
	case *absint.Iface:
		return &absint.Iface{Dyn: cloneDeep(x.Dyn), DynT: x.DynT}
	}
	return v
}

type plainRes struct {
	ok  bool
	why string
}

type c05Cmd struct {
	cid  int64
	typ  string // "" no payload
	size int
}

// checkC05 decides the first sentence of C05 by interpreting the whole sender and receiver call sequence of the
// property on one symbolic frame (engine E1, AES and AES-CMAC uninterpreted): for every structural configuration
// (direction x confirmed/unconfirmed x MAC version x where the MAC commands travel x application payload length) and for
// all field values, keys, counters and MIC parameters at once, the receiver's MIC validation succeeds and the decrypted
// frame equals the sender's original frame leaf by leaf. The second sentence (tamper detection) is the conjunction of
// clauses decided elsewhere and of R2 here: the receiver authenticates exactly the received bytes.
func checkC05(c *Ctx) {
	r := c.Run
	r.Exhaustive = true
	r.Explanation = "Decides C05's composition clause by one abstract interpretation (engine E1) of the property's call history: EncryptFRMPayload -> EncryptFOpts (1.1) -> Set*DataMIC -> MarshalBinary | UnmarshalBinary -> restore the 32-bit FCnt -> Validate*DataMIC -> DecryptFOpts (1.1) / DecodeFOptsToMACCommands (1.0) -> DecryptFRMPayload, on a frame whose every scalar, every key, the frame counter (32 bits), ConfFCnt, TxDr and TxCh are symbolic. AES and AES-CMAC are uninterpreted functions (equal inputs give equal outputs, nothing else is assumed), so the keystream cancels and the MIC matches exactly when the receiver feeds them bit-identical inputs. Configurations: uplink/downlink x confirmed/unconfirmed x LoRaWAN 1.0/1.1 x {no MAC commands, MAC commands in FOpts with an application payload of 1 or 17 bytes or none, MAC commands on port 0}. Proved for all values at once: every sender step succeeds on in-range values, the receiver's validation is true, and every leaf of the received frame (MAC commands decoded, payload bytes) equals the original. R2: on the receiver the bytes authenticated by the CMAC are exactly the received bytes minus the MIC (interpreted on fully symbolic received bytes), so any change of a received bit changes the MIC input; that a different MIC input, key, direction, counter or 1.1 parameter gives a different specification MIC 'whenever the specification's MIC differs' is then C02's block rules. Not covered: frames longer than the configurations' payload lengths are covered by the length arguments of C01/C03, not re-enumerated here."
	r.Trusted = []string{"internal/absint BDD domain and operator semantics", "AES / AES-CMAC as uninterpreted functions", "models of encoding/binary, append, copy, make, maps and function values"}
	r.Rule("R1.end-to-end", "sender sequence then receiver sequence: every step succeeds, MIC validation is true, and the receiver's frame equals the sender's original frame for all field values, keys and counters")
	r.Rule("R2.authenticated-bytes", "the receiver's MIC is computed over exactly the received bytes without the MIC (every received bit reaches the CMAC input)")
	r.Rule("R3.validate-compare", "Set*DataMIC stores the MIC computed from the sender's keys, counters and 1.1 parameters; Validate*DataMIC passes the receiver's through unchanged and is true exactly when all four bytes of p.MIC equal the MIC computed from them (no key, version or parameter value short-cuts the comparison)")
	r.Rule("R4.stateless", "every step of the sender / receiver history writes no package-level variable: what a step returns depends on its arguments and receiver only, not on earlier frames or on when a table was first built")
	micWrappers(c, "R3.validate-compare", false)
	statelessRoots(c, "R4.stateless", "PHYPayload.EncryptFRMPayload", "PHYPayload.EncryptFOpts", "PHYPayload.SetUplinkDataMIC", "PHYPayload.SetDownlinkDataMIC", "PHYPayload.MarshalBinary",
		"PHYPayload.UnmarshalBinary", "PHYPayload.ValidateUplinkDataMIC", "PHYPayload.ValidateDownlinkDataMIC", "PHYPayload.DecryptFOpts", "PHYPayload.DecodeFOptsToMACCommands", "PHYPayload.DecryptFRMPayload")
	// 0x85: a proprietary command without payload needs no registration and may stand anywhere in the list
	upCmds := []c05Cmd{{0x03, "LinkADRAnsPayload", 1}, {0x02, "", 0}, {0x85, "", 0}, {0x06, "DevStatusAnsPayload", 2}}
	downCmds := []c05Cmd{{0x02, "LinkCheckAnsPayload", 2}, {0x06, "", 0}, {0x85, "", 0}, {0x08, "RXTimingSetupReqPayload", 1}}
	for _, mt := range []int64{2, 3, 4, 5} {
		uplink := mt == 2 || mt == 4
		cmds := downCmds
		if uplink {
			cmds = upCmds
		}
		for _, ver := range []int64{0, 1} {
			for _, shape := range []struct {
				name   string
				fopts  bool
				port   int // 0 none, 1 port 0 with MAC commands, 2 application port
				appLen int
			}{
				{"no-commands/no-payload", false, 0, 0},
				{"no-commands/app1", false, 2, 1},
				{"no-commands/app17", false, 2, 17},
				{"fopts-commands/no-payload", true, 0, 0},
				{"fopts-commands/app1", true, 2, 1},
				{"fopts-commands/app17", true, 2, 17},
				{"port0-commands", false, 1, 0},
			} {
				cfg := fmt.Sprintf("mtype%d/mac1.%d/%s", mt, ver, shape.name)
				c05One(c, cfg, mt, uplink, ver, cmds, shape.fopts, shape.port, shape.appLen)
			}
			// the largest FOpts field (15 bytes) and the class C commands (CID 0x20), in FOpts and on port 0
			full := []c05Cmd{{0x03, "LinkADRReqPayload", 4}, {0x03, "LinkADRReqPayload", 4}, {0x03, "LinkADRReqPayload", 4}}
			classC := []c05Cmd{{0x20, "DeviceModeConfPayload", 1}, {0x02, "LinkCheckAnsPayload", 2}}
			if uplink {
				full = []c05Cmd{{0x06, "DevStatusAnsPayload", 2}, {0x06, "DevStatusAnsPayload", 2}, {0x06, "DevStatusAnsPayload", 2}, {0x06, "DevStatusAnsPayload", 2}, {0x06, "DevStatusAnsPayload", 2}}
				classC = []c05Cmd{{0x20, "DeviceModeIndPayload", 1}, {0x03, "LinkADRAnsPayload", 1}}
			}
			if mt == 2 || mt == 3 {
				c05One(c, fmt.Sprintf("mtype%d/mac1.%d/fopts15-commands/app1", mt, ver), mt, uplink, ver, full, true, 2, 1)
				c05One(c, fmt.Sprintf("mtype%d/mac1.%d/fopts-classc/app1", mt, ver), mt, uplink, ver, classC, true, 2, 1)
				c05One(c, fmt.Sprintf("mtype%d/mac1.%d/port0-classc", mt, ver), mt, uplink, ver, classC, false, 1, 0)
			}
		}
	}
	c05Authenticated(c)
}

func c05Variant(mt int64, cmds []c05Cmd, fopts bool, port, appLen int) avariant {
	v := avariant{Name: "e2e", NoStream: true,
		Dyn:  map[string]string{"MACPayload": ":MACPayload"},
		Fix:  map[string]int64{"MHDR.MType": mt, "MHDR.Major": 0, mpFHDR + ".FCtrl.fOptsLen": 0},
		Lens: map[string]int{}, Where: map[string][2]int64{},
		Equal: [][2]string{{mpFHDR + ".FCtrl.ClassB", mpFHDR + ".FCtrl.FPending"}}}
	putCmds := func(list string) {
		v.Lens[list] = len(cmds)
		for i, k := range cmds {
			e := fmt.Sprintf("%s[%d]", list, i)
			v.Dyn[e] = ":MACCommand"
			v.Fix[e+".*.CID"] = k.cid
			if k.typ != "" {
				v.Dyn[e+".*.Payload"] = ":" + k.typ
			}
		}
	}
	if fopts {
		putCmds(mpFHDR + ".FOpts")
	}
	switch port {
	case 1:
		v.NonNil = []string{"MACPayload.*.FPort"}
		v.Fix["MACPayload.*.FPort.*"] = 0
		putCmds("MACPayload.*.FRMPayload")
	case 2:
		v.NonNil = []string{"MACPayload.*.FPort"}
		v.Where["MACPayload.*.FPort.*"] = [2]int64{1, 255}
		v.Lens["MACPayload.*.FRMPayload"] = 1
		v.Dyn["MACPayload.*.FRMPayload[0]"] = ":DataPayload"
		v.Lens["MACPayload.*.FRMPayload[0].*.Bytes"] = appLen
	}
	return v
}

func c05One(c *Ctx, cfg string, mt int64, uplink bool, ver int64, cmds []c05Cmd, fopts bool, port, appLen int) {
	r := c.Run
	const rule = "R1.end-to-end"
	in := absint.NewInterp(c.Prog)
	d := in.D
	T := in.NamedType("", "PHYPayload")
	KT := in.NamedType("", "AES128Key")
	v := c05Variant(mt, cmds, fopts, port, appLen)
	dom := absint.True
	var phy, orig absint.Value
	var frmKey, encKey, fKey, sKey absint.Value
	var conf, txDR, txCh *absint.Bits
	if err := in.Try(func() {
		phy = symDeep(in, "", T, v, aspec{}, &dom)
		for _, eq := range v.Equal {
			a := asBits(deepLeaf(phy, eq[0]), eq[0]).Bits()[0]
			b := asBits(deepLeaf(phy, eq[1]), eq[1]).Bits()[0]
			dom = d.M.And(dom, d.M.Eqv(a, b))
		}
		orig = cloneDeep(phy)
		frmKey = in.Sym("frmPayloadKey", KT, false)
		encKey = in.Sym("nwkSEncKey", KT, false)
		fKey = in.Sym("fNwkSIntKey", KT, false)
		sKey = in.Sym("sNwkSIntKey", KT, false)
		conf = d.Sym("confFCnt", 32, false, false)
		txDR = d.Sym("txDR", 8, false, false)
		txCh = d.Sym("txCh", 8, false, false)
	}); err != nil {
		r.Unknown(rule, cfg, "", "inputs constructible", err.Error())
		return
	}
	verV := d.Const(ver, 8, false)
	fcnt := asBits(deepLeaf(orig, mpFHDR+".FCnt"), "FCnt")
	// parameters the specification ignores for this MAC version may differ between the two sides: in 1.0 ConfFCnt,
	// TxDr, TxCh are not part of the MIC and the uplink MIC uses one key only (passed in both key positions is not
	// required: the second key is ignored)
	rConf, rTxDR, rTxCh, rSKeyUp := conf, txDR, txCh, sKey
	if ver == 0 {
		rConf = d.Sym("receiver.confFCnt", 32, false, false)
		rTxDR = d.Sym("receiver.txDR", 8, false, false)
		rTxCh = d.Sym("receiver.txCh", 8, false, false)
		if e := in.Try(func() { rSKeyUp = in.Sym("receiver.sNwkSIntKey", KT, false) }); e != nil {
			rSKeyUp = sKey
		}
	}
	forParts(in, dom, 6, func(dp absint.Node, pt string) error {
		key := cfg
		if pt != "" {
			key += "/part" + pt
		}
		work := cloneDeep(phy)
		cell := &absint.Cell{V: work}
		live := dp
		step := func(what string, res []absint.Value, idx int) bool {
			ev, ok := res[idx].(*absint.ErrVal)
			if !ok {
				r.Unknown(rule, key+"/"+what, "", "error result", fmt.Sprintf("%T", res[idx]))
				return false
			}
			if w := d.M.And(live, ev.NonNil); w != absint.False {
				// values the library refuses to encode are not frames a sender can build: restrict, but report when
				// nothing is left
				live = d.M.And(live, d.M.Not(ev.NonNil))
				if live == absint.False {
					r.Bad(rule, key+"/"+what, "", "the step succeeds for in-range values", "fails for every value: "+witnessOr(in, w, ""))
					return false
				}
				in.SetLive(live)
			}
			return true
		}
		var b absint.Value
		var micOK absint.Node
		var foptsPlain *plainRes
		rx := &absint.Cell{}
		err := in.Try(func() {
			in.SetLive(live)
			if !step("EncryptFRMPayload", in.CallMethod(cell, T, "EncryptFRMPayload", frmKey), 0) {
				return
			}
			if ver == 1 {
				if !step("EncryptFOpts", in.CallMethod(cell, T, "EncryptFOpts", encKey), 0) {
					return
				}
			}
			if uplink {
				if !step("SetUplinkDataMIC", in.CallMethod(cell, T, "SetUplinkDataMIC", verV, conf, txDR, txCh, fKey, sKey), 0) {
					return
				}
			} else {
				if !step("SetDownlinkDataMIC", in.CallMethod(cell, T, "SetDownlinkDataMIC", verV, conf, sKey), 0) {
					return
				}
			}
			enc := in.CallMethod(cell, T, "MarshalBinary")
			if !step("MarshalBinary", enc, 1) {
				return
			}
			b = enc[0]
			// ---- receiver
			rx.V = in.Zero(T)
			if !step("UnmarshalBinary", in.CallMethod(rx, T, "UnmarshalBinary", b), 0) {
				return
			}
			// the receiver knows the full 32-bit counter
			rmp := rx.V.(*absint.Struct).F["MACPayload"].V.(*absint.Iface).Dyn.(*absint.Ptr).To.V.(*absint.Struct)
			rmp.F["FHDR"].V.(*absint.Struct).F["FCnt"].V = fcnt
			var vres []absint.Value
			if uplink {
				vres = in.CallMethod(rx, T, "ValidateUplinkDataMIC", verV, rConf, rTxDR, rTxCh, fKey, rSKeyUp)
			} else {
				vres = in.CallMethod(rx, T, "ValidateDownlinkDataMIC", verV, rConf, sKey)
			}
			if !step("ValidateMIC", vres, 1) {
				return
			}
			micOK = vres[0].(*absint.Bits).Bits()[0]
			if ver == 1 {
				if fopts {
					// the decryption half of DecryptFOpts on a copy: the plaintext bytes must be the sender's FOpts bytes
					// (a decoder fed with symbolic garbage would leave the interpreter's subset instead of failing)
					probe := &absint.Cell{V: cloneDeep(rx.V)}
					pres := in.CallMethod(probe, T, "EncryptFOpts", encKey)
					if ev, ok := pres[0].(*absint.ErrVal); ok && d.M.And(live, ev.NonNil) == absint.False {
						got := sliceVals(deepLeaf(probe.V, mpFHDR+".FOpts[0].*.Bytes"))
						var want []absint.Value
						wl := deepLeaf(orig, mpFHDR+".FOpts").(*absint.Slice)
						for i := 0; i < wl.Len(); i++ {
							mc := wl.At(i).V.(*absint.Iface).Dyn.(*absint.Ptr)
							mb := in.CallMethod(&absint.Cell{V: cloneDeep(mc.To.V)}, in.NamedType("", "MACCommand"), "MarshalBinary")
							want = append(want, sliceVals(mb[0])...)
						}
						okP, whyP := len(got) == len(want), fmt.Sprintf("%d bytes, expected %d", len(got), len(want))
						if okP {
							whyP = "equal to the sender's FOpts bytes for every value"
							for i := range want {
								if same, w := sameValue(in, got[i], want[i], live); !same {
									okP, whyP = false, fmt.Sprintf("byte %d: %s", i, w)
									break
								}
							}
						}
						foptsPlain = &plainRes{okP, whyP}
					}
				}
				if !step("DecryptFOpts", in.CallMethod(rx, T, "DecryptFOpts", encKey), 0) {
					return
				}
			} else {
				if !step("DecodeFOptsToMACCommands", in.CallMethod(rx, T, "DecodeFOptsToMACCommands"), 0) {
					return
				}
			}
			if !step("DecryptFRMPayload", in.CallMethod(rx, T, "DecryptFRMPayload", frmKey), 0) {
				return
			}
		})
		if foptsPlain != nil {
			r.Check(foptsPlain.ok, rule, key+"/fopts-plaintext", "", "the receiver's decrypted FOpts bytes are the sender's MAC-command bytes", foptsPlain.why, true)
		}
		if err != nil {
			if _, isSplit := err.(absint.SplitRequest); isSplit {
				return err
			}
			if pe, ok := err.(absint.Panic); ok {
				r.Bad(rule, key, "", "the sequence returns values or errors", "panics: "+pe.Why)
				return nil
			}
			r.Unknown(rule, key, "", "sequence inside the interpreter's subset", err.Error())
			return nil
		}
		if micOK == 0 && rx.V == nil {
			return nil
		}
		bad := d.M.And(live, d.M.Not(micOK))
		r.Check(bad == absint.False, rule, key+"/mic-valid", "", "the receiver's MIC validation succeeds", witnessOr(in, bad, "true for every frame, key and counter"), true)
		good, why, n := true, "", 0
		func() {
			defer func() {
				if rec := recover(); rec != nil {
					good, why = false, fmt.Sprint(rec)
				}
			}()
			deepCompare(in, "", rx.V, orig, live, func(p string, ok bool, w string) {
				if p == ".MIC" || len(p) > 4 && p[:5] == ".MIC[" || p == "."+mpFHDR+".FCtrl.fOptsLen" || p == ".MACPayload.*.FHDR.FCtrl.fOptsLen" {
					return // the MIC is an output of the sender; fOptsLen is bookkeeping
				}
				n++
				if !ok && good {
					good, why = false, p+": "+w
				}
			})
		}()
		if good {
			why = fmt.Sprintf("all %d leaves of the received frame equal the original for every value", n)
		}
		r.Check(good, rule, key+"/content", "", "received frame (MAC commands decoded, payload decrypted) = original frame", why, true)
		return nil
	}, func(pt string, err error) {
		r.Unknown(rule, cfg+"/part"+pt, "", "sequence inside the interpreter's subset", err.Error())
	})
	_ = types.Typ
	_ = token.ADD
}

// c05Authenticated (R2): on fully symbolic received bytes of a data frame, the message the receiver feeds to the CMAC
// (after the B0 block) is byte for byte the received frame without its last four bytes.
func c05Authenticated(c *Ctx) {
	r := c.Run
	const rule = "R2.authenticated-bytes"
	T := func(in *absint.Interp) types.Type { return in.NamedType("", "PHYPayload") }
	for _, mt := range []int64{2, 3} {
		for _, L := range []int{12, 13, 20, 30} {
			for _, nib := range []int{0, 3} {
				key := fmt.Sprintf("mtype%d/len%d/foptslen%d", mt, L, nib)
				if 12+nib > L {
					continue
				}
				in := absint.NewInterp(c.Prog)
				d := in.D
				data := in.SymBytes("data", L)
				fx := byteBits(int(mt), 5, 7)
				for i := 2; i <= 4; i++ {
					fx[i] = false
				}
				data.At(0).V = fixBits(in, data.At(0).V.(*absint.Bits), fx)
				data.At(5).V = fixBits(in, data.At(5).V.(*absint.Bits), byteBits(nib, 0, 3))
				snap := make([]absint.Value, L)
				for i := range snap {
					snap[i] = data.At(i).V
				}
				rx := &absint.Cell{V: in.Zero(T(in))}
				var res []absint.Value
				var dec []absint.Value
				err := in.Try(func() {
					dec = in.CallMethod(rx, T(in), "UnmarshalBinary", data)
				})
				if err != nil {
					r.Unknown(rule, key, "", "decoder inside the interpreter's subset", err.Error())
					continue
				}
				A := absint.True
				if de, _ := dec[0].(*absint.ErrVal); de != nil {
					A = d.M.Not(de.NonNil)
				}
				if A == absint.False {
					continue
				}
				keyV := in.Sym("key", in.NamedType("", "AES128Key"), false)
				err = in.Try(func() {
					in.SetLive(A)
					if mt == 2 {
						res = in.CallMethod(rx, T(in), "calculateUplinkDataMIC", d.Const(0, 8, false), d.Const(0, 32, false), d.Const(0, 8, false), d.Const(0, 8, false), keyV, keyV)
					} else {
						res = in.CallMethod(rx, T(in), "calculateDownlinkDataMIC", d.Const(0, 8, false), d.Const(0, 32, false), keyV)
					}
				})
				if err != nil {
					r.Unknown(rule, key, "", "MIC calculation inside the interpreter's subset", err.Error())
					continue
				}
				// the CMAC term behind the MIC bytes: its message argument
				mic, ok := res[0].(*absint.Array)
				if !ok || len(mic.E) != 4 {
					r.Unknown(rule, key, "", "MIC result is a 4-byte array", fmt.Sprintf("%T", res[0]))
					continue
				}
				var msg []absint.Value
				if b0, ok := mic.E[0].V.(*absint.Bits); ok {
					for id := range in.OpaqueIDsIn(b0.Bits()) {
						if t, ok := in.OpaqueDesc[id]; ok && t.Kind == "CMAC" && len(t.Inputs) == 2 {
							msg = t.Inputs[1]
						}
					}
				}
				if msg == nil {
					r.Unknown(rule, key, "", "the MIC is a CMAC output", "no CMAC term found behind the MIC")
					continue
				}
				want := snap[:L-4]
				if len(msg) != 16+len(want) {
					r.Bad(rule, key, "", fmt.Sprintf("CMAC input = B0 (16 bytes) | %d received bytes", len(want)), fmt.Sprintf("%d bytes", len(msg)))
					continue
				}
				good, why := true, fmt.Sprintf("all %d received bytes before the MIC are authenticated unchanged", len(want))
				for i, w := range want {
					same, ww := sameValue(in, msg[16+i], w, A)
					if !same {
						good, why = false, fmt.Sprintf("byte %d: %s", i, ww)
						break
					}
				}
				r.Check(good, rule, key, "", "CMAC message = received bytes without the MIC", why, true)
			}
		}
	}
}
