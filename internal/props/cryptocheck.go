package props

import (
	"fmt"

	"lwverif/internal/absint"
)

// expected byte of a crypto block: constant or abstract value.
type xb struct {
	K   int
	V   absint.Value
	Any bool
}

func kb(k int) xb          { return xb{K: k} }
func vb(v absint.Value) xb { return xb{V: v} }
func zeros(n int) []xb {
	out := make([]xb, n)
	return out
}
func vals(vs ...absint.Value) []xb {
	var out []xb
	for _, v := range vs {
		out = append(out, vb(v))
	}
	return out
}
func catx(a ...[]xb) []xb {
	var out []xb
	for _, x := range a {
		out = append(out, x...)
	}
	return out
}

// arrayBytes returns the element values of an abstract [N]byte (optionally reversed).
func arrayBytes(v absint.Value, reversed bool) []absint.Value {
	var out []absint.Value
	switch a := v.(type) {
	case *absint.Array:
		for _, c := range a.E {
			out = append(out, c.V)
		}
	case *absint.Slice:
		for i := 0; i < a.Len(); i++ {
			out = append(out, a.At(i).V)
		}
	}
	if reversed {
		for i, j := 0, len(out)-1; i < j; i, j = i+1, j-1 {
			out[i], out[j] = out[j], out[i]
		}
	}
	return out
}

// compareBytes checks got[i] against want[i] under cond, emitting one obligation per byte.
func compareBytes(c *Ctx, in *absint.Interp, rule, key, pos string, got []absint.Value, want []xb, cond absint.Node, names []string) {
	r := c.Run
	if len(got) != len(want) {
		r.Bad(rule, key+"/len", pos, fmt.Sprintf("%d bytes", len(want)), fmt.Sprintf("%d bytes", len(got)))
		return
	}
	for i := range want {
		if want[i].Any {
			continue
		}
		var wv absint.Value
		desc := ""
		if want[i].V != nil {
			wv = want[i].V
			desc = in.Show(wv)
		} else {
			wv = in.D.Const(int64(want[i].K), 8, false)
			desc = fmt.Sprintf("%#02x", want[i].K)
		}
		name := fmt.Sprint(i)
		if i < len(names) && names[i] != "" {
			name = fmt.Sprintf("%d(%s)", i, names[i])
		}
		ok, why := false, ""
		if err := in.Try(func() { ok, why = sameValue(in, got[i], wv, cond) }); err != nil {
			r.Unknown(rule, key+"/byte"+name, pos, "byte = "+desc, err.Error())
			continue
		}
		if ok {
			r.OK(rule, key+"/byte"+name, pos, "byte = "+desc, in.Show(got[i]), want[i].V != nil)
		} else {
			r.Bad(rule, key+"/byte"+name, pos, "byte = "+desc, in.Show(got[i])+" ("+why+")")
		}
	}
}

// opaqueOfBytes: all bytes must be the consecutive bytes [off..off+n) of one opaque term; returns that term.
func opaqueOfBytes(in *absint.Interp, bs []absint.Value, off int) (absint.OpaqueTerm, int, bool) {
	id0 := -1
	for i, b := range bs {
		id, idx, ok := in.OpaqueOf(b)
		if !ok || idx != off+i {
			return absint.OpaqueTerm{}, 0, false
		}
		if id0 < 0 {
			id0 = id
		} else if id != id0 {
			return absint.OpaqueTerm{}, 0, false
		}
	}
	if id0 < 0 {
		return absint.OpaqueTerm{}, 0, false
	}
	return in.OpaqueDesc[id0], id0, true
}
