package props

import (
	"fmt"
	"go/types"
	"sort"
	"strings"

	"golang.org/x/tools/go/ssa"

	"lwverif/internal/flow"
)

// C16 — join-server answers (engine E5; R1 and R7 are hooks filled by the bit-level and effects engines).
//
//	R2 ARGUMENTS  key / flag / KEK argument provenance of the session-key, MIC, encryption and envelope calls
//	R3 DEF-USE    every context field read by a task of joinTasks/rejoinTasks is written by an earlier task
//	              of the same list or by the handler's context literal
//	R4 ORDER      the MIC-validating task precedes key derivation and answer creation in joinTasks; a failed
//	              validation returns ErrInvalidMIC; the task loop stops at the first error and returns it
//	R5 MIRROR     SenderID/ReceiverID/TransactionID of every answer come from the request's
//	              ReceiverID/SenderID/TransactionID
//	R6 CODES      ErrInvalidMIC → MICFailed, ErrDevEUINotFound → UnknownDevEUI
//	R8 ECHO       join-accept fields come from the configured JoinNonce (< 2^24), the sender id and the request;
//	              the answer carries the MIC'd, encrypted, marshalled frame with ResultCode Success

const jsRel = "backend/joinserver"
const jsPkg = "lorawan/backend/joinserver."

func init() { Register("C16", checkC16) }

func checkC16(c *Ctx) {
	r := c.Run
	r.Explanation = "Static decision of structural necessary conditions of C16 on package backend/joinserver: argument provenance of every key-derivation, MIC, encryption and key-envelope call (symbolic terms over the request context), def-use of the request context along the two literal task pipelines, ordering of MIC validation, error→result-code mapping, id mirroring and echo of request fields in the join-accept literal. Values are symbolic terms obtained from SSA def chains with a reaching-store memory model; guards are compared by truth table."
	r.Trusted = []string{"go/packages, go/types, go/ssa", "github.com/pkg/errors.Cause/Wrap, encoding/json (semantics assumed)"}
	r.Assumptions = []string{
		"callees do not retain pointers to the caller's locals beyond the call; aliasing between distinct SSA base objects is not modelled (effects engine E4 covers aliasing)",
		"the GetKEKByLabelFunc / GetDeviceKeysByDevEUIFunc callbacks are pure lookups (configuration, not analysed)",
	}
	flowSelfTest(c)
	// the task-pipeline rules recognise the two literal task lists and the context struct; what the pipelines compute is
	// decided end to end by R9 on the cores themselves, so an unrecognised shape of these rules is a note (§7)
	for _, rl := range []string{"R1.keyblocks", "R2.keys", "R2.kek", "R2.mic-enc", "R2.chain-ctx", "R3.defuse", "R4.order", "R4.errvar", "R4.loop", "R8.echo", "R8.joinnonce"} {
		r.Advisory(rl, "R9.join-e1", "R9.rejoin-e1")
	}
	c16KeyBlocks(c)
	c16Stateless(c)
	lists := c16Pipelines(c)
	c16Order(c, lists)
	c16Arguments(c, lists)
	c16Mirror(c)
	c16Codes(c)
	c16Echo(c, lists)
	c16JoinE1(c)
	c16WrongKind(c)
}

// c16KeyBlocks: R1 (getSKey/getJSKey block layouts and type bytes) is decided by the bit-level engine E1.
func c16KeyBlocks(c *Ctx) {
	c.Run.Rule("R1.keyblocks", "getSKey/getJSKey feed AES-encrypt the specified 16-byte block (type byte, JoinNonce|NetID|DevNonce or JoinNonce|JoinEUI|DevNonce little endian, zero padding) with the named root key, and return its 16 output bytes")
	c16KeyBlocksE1(c, "R1.keyblocks")
}

// c16Stateless: R7 (handler writes no shared state) is decided by the effects engine E4.
func c16Stateless(c *Ctx) {
	ruleStateless(c, "R7.stateless", c.Prog.SSAFunc("backend/joinserver", "handler.ServeHTTP"))
}

// ---------------------------------------------------------------------------
// pipelines

type c16List struct {
	tl      *flow.TaskList
	loop    flow.ListLoop
	literal map[string]*flow.Term // context field -> term written by the handler's literal (zero fields absent)
	ok      bool
	req     string // joinReqPayload | rejoinReqPayload: the request field the handler literal fills
}

func samePkg(sp *ssa.Package) func(*ssa.Function) bool {
	return func(f *ssa.Function) bool { return f != nil && f.Pkg == sp && f.Blocks != nil }
}

func c16Pipelines(c *Ctx) map[string]*c16List {
	const rule = "R3.defuse"
	c.Run.Rule(rule, "every context field read by a task is written by an earlier task of the same list (or earlier in the same task) or by the handler's context literal")
	out := map[string]*c16List{}
	pk := c.Prog.Pkg(jsRel)
	sp := c.Prog.SSAPkg(jsRel)
	if pk == nil || sp == nil {
		c.Run.Unknown(rule, "joinserver", "", "package backend/joinserver loaded", "missing")
		return out
	}
	fns := flow.PackageFuncs(c.Prog.SSA, sp)
	lists := flow.TaskLists(pk, c.Prog.SSA, sp)
	for _, want := range []string{"joinTasks", "rejoinTasks"} {
		var tl *flow.TaskList
		for _, l := range lists {
			if l.Name == want {
				tl = l
			}
		}
		if tl == nil {
			c.Run.Unknown(rule, want, "", "task list "+want+" is a package-level slice literal of functions", "not found")
			continue
		}
		L := &c16List{tl: tl, literal: map[string]*flow.Term{}}
		out[want] = L
		pos := c.Prog.Rel(tl.Pos)
		if len(tl.Problems) > 0 {
			c.Run.Unknown(rule, want+"/literal", pos, "a literal list that is never modified", strings.Join(tl.Problems, "; "))
			continue
		}
		var names []string
		for _, t := range tl.Tasks {
			names = append(names, flow.ShortFunc(t))
		}
		c.Run.Saw("task lists", want+" = ["+strings.Join(names, ", ")+"]")
		loops := flow.FindListLoops(tl, fns)
		if len(loops) != 1 || loops[0].Ctx == nil {
			c.Run.Unknown(rule, want+"/handler", pos, "exactly one function runs the list with one context argument", fmt.Sprintf("%d loops", len(loops)))
			continue
		}
		L.loop = loops[0]
		e := flow.For(L.loop.Fn)
		fields := flow.StructFields(L.loop.Ctx.Type())
		if len(fields) == 0 {
			c.Run.Unknown(rule, want+"/context", pos, "context is a pointer to a struct", L.loop.Ctx.Type().String())
			continue
		}
		for _, f := range fields {
			t := e.SelectAddr(L.loop.Ctx, []string{f}, L.loop.Load)
			if t.Op == "zero" {
				continue
			}
			if t.IsUnknown() {
				c.Run.Unknown(rule, want+"/literal:"+f, ipos(c, L.loop.Load), "context field initialised by the handler literal", t.String())
				continue
			}
			L.literal[f] = t
			if (f == "joinReqPayload" || f == "rejoinReqPayload") && L.req == "" {
				L.req = f
			}
		}
		L.ok = true
		// def-use
		type wr struct {
			path []string
			task int
			ins  ssa.Instruction
		}
		var writes []wr
		incomplete := false
		for f := range L.literal {
			writes = append(writes, wr{[]string{f}, -1, nil})
		}
		for ti, task := range tl.Tasks {
			acc, prob := flow.ParamAccesses(task, 0, flow.InModule)
			tname := flow.ShortFunc(task)
			if len(prob) > 0 {
				incomplete = true
				c.Run.Unknown(rule, want+"/"+tname, fpos(c, task), "context uses are field reads, field writes or calls", strings.Join(prob, "; "))
			}
			ev := flow.For(task)
			_ = ev
			for _, a := range acc {
				if a.Kind == "write" || a.Kind == "passed" {
					writes = append(writes, wr{a.Path, ti, a.Instr})
				}
			}
			seen := map[string]bool{}
			for _, a := range acc {
				if a.Kind != "read" {
					continue
				}
				ps := a.PathString()
				var by string
				for _, w := range writes {
					if !flow.Covers(w.path, a.Path) {
						continue
					}
					switch {
					case w.task < 0:
						by = "handler literal"
					case w.task < ti:
						by = "task " + flow.ShortFunc(tl.Tasks[w.task])
					case w.task == ti && w.ins != a.Instr && flow.For(task).MayPrecede(w.ins, a.Instr):
						by = "earlier in the same task"
					}
					if by != "" {
						break
					}
				}
				key := want + "/" + tname + "/read:" + ps
				if seen[key] {
					continue
				}
				seen[key] = true
				if by != "" {
					c.Run.OK(rule, key, ipos(c, a.Instr), "ctx."+ps+" is written before it is read", "written by "+by, true)
				} else if incomplete {
					c.Run.Unknown(rule, key, ipos(c, a.Instr), "ctx."+ps+" is written before it is read", "no writer found, but the write summary of an earlier task is incomplete")
				} else {
					c.Run.Bad(rule, key, ipos(c, a.Instr), "ctx."+ps+" is written by the handler literal or an earlier task of "+want, "no task of "+want+" and no field of the handler's context literal writes ctx."+topField(ps)+": "+tname+" reads the zero value")
				}
			}
		}
	}
	return out
}

func topField(p string) string {
	if i := strings.Index(p, "."); i >= 0 {
		return p[:i]
	}
	return p
}

// ---------------------------------------------------------------------------
// R4

const validateMICName = "(lorawan.PHYPayload).ValidateUplinkJoinMIC"

func c16Order(c *Ctx, lists map[string]*c16List) {
	const rOrd, rErr, rLoop = "R4.order", "R4.errvar", "R4.loop"
	c.Run.Rule(rOrd, "in joinTasks the task that validates the uplink join MIC precedes every task that derives keys or builds the answer")
	c.Run.Rule(rErr, "the validating task checks the frame with the device's NwkKey and returns ErrInvalidMIC when the MIC does not match")
	c.Run.Rule(rLoop, "the task loop returns the first task error unchanged and reports success only after the whole list ran")
	sp := c.Prog.SSAPkg(jsRel)
	if sp == nil {
		return
	}
	keep := samePkg(sp)
	producers := flow.Named(jsPkg+"getSKey", jsPkg+"getJSKey", "lorawan/backend.NewKeyEnvelope", "(*lorawan.PHYPayload).EncryptJoinAcceptPayload", "(*lorawan.PHYPayload).SetDownlinkJoinMIC")
	for _, name := range []string{"joinTasks", "rejoinTasks"} {
		L := lists[name]
		if L == nil || !L.ok {
			continue
		}
		pos := c.Prog.Rel(L.tl.Pos)
		vi := -1
		for i, t := range L.tl.Tasks {
			if flow.CallsTransitively(t, keep, flow.Named(validateMICName)) {
				if vi < 0 {
					vi = i
				}
			}
		}
		if name == "rejoinTasks" {
			if vi < 0 {
				c.Run.Note("R4: rejoinTasks contains no task that validates the rejoin-request MIC; the C16 statement requires MICFailed only for join-requests, so this is reported as a note, not as an obligation")
			}
		} else {
			if vi < 0 {
				c.Run.Bad(rOrd, name+"/validator", pos, "a task of "+name+" calls PHYPayload.ValidateUplinkJoinMIC", "no task does: a join-request with a wrong MIC is answered with Success and session keys")
			} else {
				c.Run.OK(rOrd, name+"/validator", pos, "a task of "+name+" calls PHYPayload.ValidateUplinkJoinMIC", flow.ShortFunc(L.tl.Tasks[vi])+" at index "+fmt.Sprint(vi), true)
			}
			for i, t := range L.tl.Tasks {
				if !flow.CallsTransitively(t, keep, producers) {
					continue
				}
				key := name + "/validate-before:" + flow.ShortFunc(t)
				switch {
				case vi < 0:
					c.Run.Bad(rOrd, key, pos, "MIC validation precedes "+flow.ShortFunc(t), "no validating task in the list")
				case vi < i:
					c.Run.OK(rOrd, key, pos, "MIC validation precedes "+flow.ShortFunc(t), fmt.Sprintf("index %d < %d", vi, i), true)
				default:
					c.Run.Bad(rOrd, key, pos, "MIC validation precedes "+flow.ShortFunc(t), fmt.Sprintf("%s runs at index %d, validation at index %d: keys/answer are produced for an unauthenticated request", flow.ShortFunc(t), i, vi))
				}
			}
			if vi >= 0 {
				c16Validator(c, rErr, L.tl.Tasks[vi])
			}
		}
		// the loop
		fn := L.loop.Fn
		e := flow.For(fn)
		key := fnKey(fn)
		callT := e.Term(L.loop.Call)
		ei := errIndex(fn)
		if ei < 0 {
			c.Run.Unknown(rLoop, key+"/signature", fpos(c, fn), "last result is an error", fn.Signature.String())
			continue
		}
		errSwallowRule(c, rLoop, fn)
		tested := false
		for _, br := range flow.ErrBranches(fn) {
			if br.Err != ssa.Value(L.loop.Call) {
				continue
			}
			tested = true
			// every return reachable from the error side returns the task's error itself
			seen := map[*ssa.BasicBlock]bool{}
			stack := []*ssa.BasicBlock{br.OnError}
			n := 0
			for len(stack) > 0 {
				x := stack[len(stack)-1]
				stack = stack[:len(stack)-1]
				if seen[x] || x == br.If.Block() {
					continue
				}
				seen[x] = true
				if ret, ok := x.Instrs[len(x.Instrs)-1].(*ssa.Return); ok {
					n++
					got := e.Select(ret.Results[ei], nil, ret)
					checkTerm(c, rLoop, fmt.Sprintf("%s/error-return#%d", key, n), ipos(c, ret), "error returned when a task fails (the task's own error, so errors.Cause can map it)", got, callT, flow.Call("pkgerrors.WithStack", callT))
					continue
				}
				stack = append(stack, x.Succs...)
			}
		}
		if !tested {
			c.Run.Bad(rLoop, key+"/task-error-tested", ipos(c, L.loop.Call), "the result of every task is tested and a failure stops the pipeline", "the task's error result is not compared with nil")
		}
	}
}

// c16Validator checks the MIC-validating task.
func c16Validator(c *Ctx, rule string, fn *ssa.Function) {
	key := fnKey(fn)
	e := flow.For(fn)
	s, ok := oneSite(c, rule, key+"/call:ValidateUplinkJoinMIC", fn, validateMICName)
	if !ok {
		return
	}
	checkTerm(c, rule, key+"/frame", ipos(c, s.Instr), "validated frame", s.Args[0], flow.Param(0, "phyPayload"))
	checkTerm(c, rule, key+"/key", ipos(c, s.Instr), "MIC key of a join-request", s.Args[1], flow.Param(0, "deviceKeys", "NwkKey"))
	ct := e.Term(s.Value())
	okA := flow.AtomOf(flow.Extract(ct, 0))
	errNil := flow.Eq(flow.Extract(ct, 1), flow.Nil())
	errVar := flow.Global(jsPkg + "ErrInvalidMIC")
	nBad, nGood := 0, 0
	for _, r := range flow.Returns(fn) {
		pc := e.PathCond(r.Block(), nil)
		got := e.Select(r.Results[0], nil, r)
		if flow.FAnd(pc, flow.FNot(okA), errNil).Satisfiable() {
			nBad++
			rk := fmt.Sprintf("%s/mismatch-return#%d", key, nBad)
			wrapped := got.Op == "call" && strings.HasPrefix(got.Val, "pkgerrors.Wrap") && len(got.Args) > 0 && got.Args[0].Equal(errVar)
			if wrapped {
				c.Run.OK(rule, rk, ipos(c, r), "a MIC mismatch returns ErrInvalidMIC", got.String(), true)
			} else {
				checkTerm(c, rule, rk, ipos(c, r), "error returned when the MIC does not match", got, errVar)
			}
		}
		if flow.FAnd(pc, okA, errNil).Satisfiable() {
			nGood++
			checkTerm(c, rule, fmt.Sprintf("%s/match-return#%d", key, nGood), ipos(c, r), "error returned when the MIC matches", got, flow.Nil())
		}
	}
	if nBad == 0 {
		c.Run.Bad(rule, key+"/mismatch-return", fpos(c, fn), "a return for the case ok == false", "the boolean result of ValidateUplinkJoinMIC does not reach a return")
	}
	errSwallowRule(c, rule, fn)
}

// ---------------------------------------------------------------------------
// R2

func c16Arguments(c *Ctx, lists map[string]*c16List) {
	const rKey, rKek, rMic, rChain = "R2.keys", "R2.kek", "R2.mic-enc", "R2.chain"
	c.Run.Rule(rKey, "session keys: optNeg flag = the OptNeg the join-accept carries; AppSKey from AppKey under OptNeg else NwkKey; the other three from NwkKey; NetID/JoinEUI/JoinNonce/DevNonce from the context; results stored in their context fields")
	c.Run.Rule(rKek, "key envelopes: NwkSKey/FNwkSIntKey/SNwkSIntKey/NwkSEncKey use the NS label+KEK, AppSKey the AS label+KEK, each with its own session key; 1.0 answers carry NwkSKey, 1.1 answers the three network keys")
	c.Run.Rule(rMic, "join-accept MIC key = JSIntKey under OptNeg (always for rejoin) else NwkKey, with the context's join type, JoinEUI, DevNonce; encryption key = NwkKey (join) / JSEncKey (rejoin); MIC is set on every path before encryption")
	c.Run.Rule(rChain, "the HTTP handler hands the wrapper the decoded request, the device keys looked up by its DevEUI, the AS label looked up by its DevEUI, the NS label = its SenderID, and each KEK looked up under the label it is sent with; the wrapper's answer is what is written")
	c.Run.Rule(rChain+"-ctx", "labels, KEKs and device keys travel unchanged from the wrapper through the handler into the context literal")
	sp := c.Prog.SSAPkg(jsRel)
	if sp == nil {
		return
	}
	ctxNwk := flow.Param(0, "deviceKeys", "NwkKey")
	ctxApp := flow.Param(0, "deviceKeys", "AppKey")

	// the HTTP half of the chain does not depend on the task lists
	c16ChainHTTP(c, rChain, "joinTasks", "handleJoinRequestWrapper")
	c16ChainHTTP(c, rChain, "rejoinTasks", "handleRejoinRequestWrapper")
	for _, name := range []string{"joinTasks", "rejoinTasks"} {
		L := lists[name]
		if L == nil || !L.ok {
			continue
		}
		// the create*AnsPayload task and the DLSettings the join-accept carries
		var create *ssa.Function
		for _, t := range L.tl.Tasks {
			if len(flow.Calls(t, flow.Named("lorawan/backend.NewKeyEnvelope"))) > 0 {
				create = t
			}
		}
		var dls *flow.Term
		if create != nil {
			if ja := joinAcceptLiteral(create); ja != nil {
				dls = flow.For(create).Select(ja.alloc, []string{"DLSettings"}, ja.at)
			}
		}
		if create == nil || dls == nil || dls.IsUnknown() {
			c.Run.Unknown(rKey, name+"/join-accept-literal", c.Prog.Rel(L.tl.Pos), "a task that builds the JoinAcceptPayload literal and the key envelopes", "not found")
			// the chain of custody does not depend on how the answer is built
			c16Chain(c, rChain, name, L)
			continue
		}
		optNegWant := dls.Field("OptNeg")
		rs := newC16Resolver(L)
		ci := rs.taskIndex(create)
		// --- session keys
		derived := map[string]bool{}
		for _, t := range L.tl.Tasks {
			for _, s := range flow.Calls(t, flow.Named(jsPkg+"getFNwkSIntKey", jsPkg+"getAppSKey", jsPkg+"getSNwkSIntKey", jsPkg+"getNwkSEncKey")) {
				derived[strings.TrimPrefix(s.Callee, jsPkg)] = true
			}
		}
		for _, kn := range []string{"getFNwkSIntKey", "getAppSKey", "getSNwkSIntKey", "getNwkSEncKey"} {
			if !derived[kn] {
				// not a refutation: the derivation may be reached through a table of functions or a helper; whether the
				// right keys come out is decided by R9 on the core itself
				c.Run.Unknown(rKey, name+"/"+kn, c.Prog.Rel(L.tl.Pos), "a task of "+name+" derives the session key with "+kn, "no task calls "+kn+" directly")
			}
		}
		for _, t := range L.tl.Tasks {
			sites := flow.Calls(t, flow.Named(jsPkg+"getFNwkSIntKey", jsPkg+"getAppSKey", jsPkg+"getSNwkSIntKey", jsPkg+"getNwkSEncKey"))
			if len(sites) == 0 {
				continue
			}
			e := flow.For(t)
			ti := rs.taskIndex(t)
			tname := flow.ShortFunc(t)
			flags := map[string]*flow.Term{}
			perKey := map[string][]flow.Site{}
			for _, s := range sites {
				perKey[strings.TrimPrefix(s.Callee, jsPkg)] = append(perKey[strings.TrimPrefix(s.Callee, jsPkg)], s)
			}
			for _, kn := range []string{"getFNwkSIntKey", "getAppSKey", "getSNwkSIntKey", "getNwkSEncKey"} {
				ss := perKey[kn]
				base := name + "/" + tname + "/" + kn
				if len(ss) == 0 {
					continue // derived by another task of the list (checked per list above)
				}
				for i, s := range ss {
					sk := fmt.Sprintf("%s#%d", base, i+1)
					if len(s.Args) != 6 {
						c.Run.Unknown(rKey, sk, ipos(c, s.Instr), "6 arguments", fmt.Sprint(len(s.Args)))
						continue
					}
					p := ipos(c, s.Instr)
					// the flag (checked once per task below)
					got := s.Args[0]
					flags[got.String()] = got
					// the root key, by polarity of the flag actually passed
					pc := e.PathCond(s.Instr.Block(), nil)
					flag := flow.AtomOf(got)
					for _, pol := range []bool{true, false} {
						cond := flag
						if !pol {
							cond = flow.FNot(flag)
						}
						if !flow.FAnd(pc, cond).Satisfiable() {
							continue // this call site is not executed with that polarity
						}
						want := ctxNwk
						if kn == "getAppSKey" && pol {
							want = ctxApp
						}
						keyT := s.Args[1].Specialise(got, pol)
						checkCtxTerm(c, rs, ti, rKey, fmt.Sprintf("%s/rootkey[optNeg=%v]", sk, pol), p, fmt.Sprintf("root key when optNeg=%v", pol), keyT, want)
					}
					checkCtxTerm(c, rs, ti, rKey, sk+"/netID", p, "netID", s.Args[2], flow.Param(0, "netID"))
					checkCtxTerm(c, rs, ti, rKey, sk+"/joinEUI", p, "joinEUI", s.Args[3], flow.Param(0, "joinEUI"))
					checkCtxTerm(c, rs, ti, rKey, sk+"/joinNonce", p, "joinNonce", s.Args[4], flow.Param(0, "joinNonce"))
					checkCtxTerm(c, rs, ti, rKey, sk+"/devNonce", p, "devNonce", s.Args[5], flow.Param(0, "devNonce"))
				}
			}
			// the flag must be the OptNeg of the DLSettings put into the join-accept
			{
				var fs []string
				allOK, unk, rooted := true, false, true
				wantR := rs.resolve(optNegWant, ci, 0)
				for k, t := range flags {
					fs = append(fs, k)
					tr := rs.resolve(t, ti, 0)
					if !t.Equal(optNegWant) && !tr.Equal(wantR) {
						allOK = false
						// a verdict needs a flag that is a plain input: a constant or a field of a request
						// payload held in the context
						if !(tr.Op == "const" || strings.Contains(tr.String(), "ReqPayload.")) || !tr.Pure() {
							rooted = false
						}
					}
					if t.IsUnknown() {
						unk = true
					}
				}
				sort.Strings(fs)
				k := name + "/" + tname + "/optNeg-source"
				switch {
				case len(fs) == 0:
					c.Run.Unknown(rKey, k, fpos(c, t), "optNeg = "+optNegWant.String(), "no derivation call of the recognised shape in this task")
				case allOK && len(fs) > 0:
					c.Run.OK(rKey, k, fpos(c, t), "optNeg of every derivation = OptNeg of the join-accept's DLSettings = "+optNegWant.String(), strings.Join(fs, ", "), true)
				case unk || !rooted:
					c.Run.Unknown(rKey, k, fpos(c, t), "optNeg = "+optNegWant.String(), strings.Join(fs, ", "))
				default:
					c.Run.Bad(rKey, k, fpos(c, t), "optNeg of every derivation = OptNeg of the join-accept's DLSettings = "+optNegWant.String(), strings.Join(fs, ", ")+": the derivation variant (1.0/1.1) and the AppSKey root key are chosen from a different value than the OptNeg bit sent to the device")
				}
			}
			// results stored in their context fields at the successful return
			dest := map[string]string{"getFNwkSIntKey": "fNwkSIntKey", "getAppSKey": "appSKey", "getSNwkSIntKey": "sNwkSIntKey", "getNwkSEncKey": "nwkSEncKey"}
			for _, r := range flow.Returns(t) {
				if !flow.IsNilConst(r.Results[0]) {
					continue
				}
				for _, kn := range []string{"getFNwkSIntKey", "getAppSKey", "getSNwkSIntKey", "getNwkSEncKey"} {
					if len(perKey[kn]) == 0 {
						continue // derived (and stored) by another task
					}
					got := e.SelectAddr(t.Params[0], []string{dest[kn]}, r)
					okT := true
					leaves := iteLeaves(got)
					for _, lf := range leaves {
						if !(lf.Op == "extract" && lf.Val == "0" && lf.Args[0].Op == "call" && lf.Args[0].Val == jsPkg+kn) {
							okT = false
						}
					}
					k := name + "/" + tname + "/store:" + dest[kn]
					if okT && len(leaves) > 0 {
						c.Run.OK(rKey, k, ipos(c, r), "ctx."+dest[kn]+" holds the result of "+kn, short(got.String()), true)
					} else if got.IsUnknown() || unknownHelper(got, []string{jsPkg + kn + "("}) != "" {
						c.Run.Unknown(rKey, k, ipos(c, r), "ctx."+dest[kn]+" holds the result of "+kn, short(got.String()))
					} else {
						c.Run.Bad(rKey, k, ipos(c, r), "ctx."+dest[kn]+" holds the result of "+kn, short(got.String()))
					}
				}
			}
			errSwallowRule(c, rKey, t)
		}
		// the four wrappers pass their arguments through, in order
		if name == "joinTasks" {
			for _, kn := range []string{"getFNwkSIntKey", "getAppSKey", "getSNwkSIntKey", "getNwkSEncKey"} {
				if fn := flowFn(c, rKey, jsRel, kn); fn != nil {
					if s, ok := oneSite(c, rKey, fnKey(fn)+"/call:getSKey", fn, jsPkg+"getSKey"); ok && len(s.Args) == 7 {
						want := []*flow.Term{flow.Param(0), s.Args[1], flow.Param(1), flow.Param(2), flow.Param(3), flow.Param(4), flow.Param(5)}
						passThrough(c, rKey, fnKey(fn)+"/args", fn, s, want)
						for _, r := range flow.Returns(fn) {
							ct := flow.For(fn).Term(s.Value())
							checkTerm(c, rKey, fnKey(fn)+"/result", ipos(c, r), "returned key", flow.For(fn).Select(r.Results[0], nil, r), flow.Extract(ct, 0))
						}
					}
				}
			}
			for _, kn := range []string{"getJSIntKey", "getJSEncKey"} {
				if fn := flowFn(c, rKey, jsRel, kn); fn != nil {
					if s, ok := oneSite(c, rKey, fnKey(fn)+"/call:getJSKey", fn, jsPkg+"getJSKey"); ok && len(s.Args) == 3 {
						passThrough(c, rKey, fnKey(fn)+"/args", fn, s, []*flow.Term{s.Args[0], flow.Param(1), flow.Param(0)})
					}
				}
			}
		}

		// --- MIC and encryption in the answer-building task
		c16MicEnc(c, rMic, name, create, optNegWant, rs, L)
		// --- envelopes
		c16Envelopes(c, rKek, name, create, optNegWant, rs)
		// --- chain of custody: literal ← handler params ← wrapper ← HTTP handler
		c16Chain(c, rChain, name, L)
	}
}

// iteLeaves lists the non-ite leaves of nested ite terms.
func iteLeaves(t *flow.Term) []*flow.Term {
	if t.Op == "ite" {
		return append(iteLeaves(t.Args[1]), iteLeaves(t.Args[2])...)
	}
	return []*flow.Term{t}
}

type jaLit struct {
	alloc *ssa.Alloc
	at    ssa.Instruction
}

// joinAcceptLiteral finds the &lorawan.JoinAcceptPayload{…} literal of fn and the instruction at which it is
// handed over (boxed into the Payload interface).
func joinAcceptLiteral(fn *ssa.Function) *jaLit {
	for _, b := range fn.Blocks {
		for _, ins := range b.Instrs {
			mi, ok := ins.(*ssa.MakeInterface)
			if !ok {
				continue
			}
			al, ok := mi.X.(*ssa.Alloc)
			if !ok {
				continue
			}
			if n, ok := derefNamed(al.Type()); ok && n == "github.com/brocaar/lorawan.JoinAcceptPayload" {
				return &jaLit{al, mi}
			}
		}
	}
	return nil
}

func derefNamed(t types.Type) (string, bool) {
	if p, ok := t.Underlying().(*types.Pointer); ok {
		t = p.Elem()
	}
	if n, ok := t.(*types.Named); ok && n.Obj().Pkg() != nil {
		return n.Obj().Pkg().Path() + "." + n.Obj().Name(), true
	}
	return "", false
}

func c16MicEnc(c *Ctx, rule, list string, fn *ssa.Function, optNeg *flow.Term, rs *c16Resolver, L *c16List) {
	ti := rs.taskIndex(fn)
	e := flow.For(fn)
	base := list + "/" + flow.ShortFunc(fn)
	rejoin := list == "rejoinTasks"
	jsInt := flow.Extract(flow.Call(jsPkg+"getJSIntKey", flow.Param(0, "deviceKeys", "NwkKey"), flow.Param(0, "devEUI")), 0)
	jsEnc := flow.Extract(flow.Call(jsPkg+"getJSEncKey", flow.Param(0, "deviceKeys", "NwkKey"), flow.Param(0, "devEUI")), 0)
	mics := flow.Calls(fn, flow.Named("(*lorawan.PHYPayload).SetDownlinkJoinMIC"))
	if len(mics) == 0 {
		elsewhere := false
		for _, t := range L.tl.Tasks {
			if t != fn && flow.CallsTransitively(t, flow.InModule, flow.Named("(*lorawan.PHYPayload).SetDownlinkJoinMIC")) {
				elsewhere = true
			}
		}
		if elsewhere || flow.CallsTransitively(fn, flow.InModule, flow.Named("(*lorawan.PHYPayload).SetDownlinkJoinMIC")) {
			c.Run.Unknown(rule, base+"/SetDownlinkJoinMIC", fpos(c, fn), "the join-accept MIC is set in the task that builds the frame", "set in another task or helper (outside the supported subset)")
		} else {
			c.Run.Bad(rule, base+"/SetDownlinkJoinMIC", fpos(c, fn), "the join-accept MIC is set", "no call of SetDownlinkJoinMIC in any task of "+list)
		}
		return
	}
	O := flow.AtomOf(optNeg)
	var micInstrs []ssa.Instruction
	for i, s := range mics {
		micInstrs = append(micInstrs, s.Instr)
		sk := fmt.Sprintf("%s/SetDownlinkJoinMIC#%d", base, i+1)
		p := ipos(c, s.Instr)
		if len(s.Args) != 5 {
			c.Run.Unknown(rule, sk, p, "5 arguments", fmt.Sprint(len(s.Args)))
			continue
		}
		checkCtxTerm(c, rs, ti, rule, sk+"/joinType", p, "join type", s.Args[1], flow.Param(0, "joinType"))
		checkCtxTerm(c, rs, ti, rule, sk+"/joinEUI", p, "JoinEUI", s.Args[2], flow.Param(0, "joinEUI"))
		checkCtxTerm(c, rs, ti, rule, sk+"/devNonce", p, "DevNonce (RJCount for rejoins, set by the context task)", s.Args[3], flow.Param(0, "devNonce"))
		pc := e.PathCond(s.Instr.Block(), nil)
		if rejoin {
			checkCtxTerm(c, rs, ti, rule, sk+"/key", p, "MIC key of a rejoin answer (JSIntKey)", s.Args[4], jsInt)
			continue
		}
		for _, pol := range []bool{true, false} {
			cond := O
			if !pol {
				cond = flow.FNot(O)
			}
			if !flow.FAnd(pc, cond).Satisfiable() {
				continue
			}
			want := flow.Param(0, "deviceKeys", "NwkKey")
			if pol {
				want = jsInt
			}
			checkCtxTerm(c, rs, ti, rule, fmt.Sprintf("%s/key[OptNeg=%v]", sk, pol), p, fmt.Sprintf("MIC key when OptNeg=%v", pol), s.Args[4].Specialise(optNeg, pol), want)
		}
	}
	enc, ok := oneSite(c, rule, base+"/call:EncryptJoinAcceptPayload", fn, "(*lorawan.PHYPayload).EncryptJoinAcceptPayload")
	if !ok {
		return
	}
	wantEnc := flow.Param(0, "deviceKeys", "NwkKey")
	what := "encryption key of a join answer (NwkKey)"
	if rejoin {
		wantEnc, what = jsEnc, "encryption key of a rejoin answer (JSEncKey)"
	}
	checkCtxTerm(c, rs, ti, rule, base+"/EncryptJoinAcceptPayload/key", ipos(c, enc.Instr), what, enc.Args[1], wantEnc)
	// same frame object, MIC on every path before encryption
	same := true
	for _, s := range mics {
		if s.Instr.Common().Args[0] != enc.Instr.Common().Args[0] {
			same = false
		}
	}
	c.Run.Check(same, rule, base+"/same-frame", ipos(c, enc.Instr), "MIC and encryption operate on the same PHYPayload", fmt.Sprint(same), true)
	if flow.AllPathsThrough(fn, micInstrs, enc.Instr) {
		c.Run.OK(rule, base+"/mic-before-encrypt", ipos(c, enc.Instr), "every path to EncryptJoinAcceptPayload sets the MIC first (the MIC is part of the encrypted block)", fmt.Sprintf("%d SetDownlinkJoinMIC site(s) cut every path", len(mics)), true)
	} else {
		c.Run.Bad(rule, base+"/mic-before-encrypt", ipos(c, enc.Instr), "every path to EncryptJoinAcceptPayload sets the MIC first", "a path reaches the encryption without SetDownlinkJoinMIC")
	}
	errSwallowRule(c, rule, fn)
}

func c16Envelopes(c *Ctx, rule, list string, fn *ssa.Function, optNeg *flow.Term, rs *c16Resolver) {
	e := flow.For(fn)
	ti := rs.taskIndex(fn)
	base := list + "/" + flow.ShortFunc(fn)
	rejoin := list == "rejoinTasks"
	ans := "joinAnsPayload"
	if rejoin {
		ans = "rejoinAnsPaylaod"
		if !hasField(fn.Params[0].Type(), ans) {
			ans = "rejoinAnsPayload"
		}
	}
	type want struct{ label, kek, key string }
	wants := map[string]want{
		"NwkSKey":     {"nsKEKLabel", "nsKEK", "fNwkSIntKey"},
		"FNwkSIntKey": {"nsKEKLabel", "nsKEK", "fNwkSIntKey"},
		"SNwkSIntKey": {"nsKEKLabel", "nsKEK", "sNwkSIntKey"},
		"NwkSEncKey":  {"nsKEKLabel", "nsKEK", "nwkSEncKey"},
		"AppSKey":     {"asKEKLabel", "asKEK", "appSKey"},
	}
	absent := []*flow.Term{{Op: "zero"}, flow.Nil()}
	n := 0
	for _, r := range flow.Returns(fn) {
		if !flow.IsNilConst(r.Results[0]) {
			continue
		}
		n++
		for _, f := range []string{"AppSKey", "NwkSKey", "FNwkSIntKey", "SNwkSIntKey", "NwkSEncKey"} {
			w := wants[f]
			wantT := flow.Extract(flow.Call("lorawan/backend.NewKeyEnvelope", flow.Param(0, w.label), flow.Param(0, w.kek), flow.Param(0, w.key)), 0)
			what := f + " = NewKeyEnvelope(ctx." + w.label + ", ctx." + w.kek + ", ctx." + w.key + ") (wrapped for and labelled as the party that holds that KEK)"
			got := e.SelectAddr(fn.Params[0], []string{ans, f}, r)
			k := fmt.Sprintf("%s/envelope:%s", base, f)
			if n > 1 {
				k += fmt.Sprintf("#%d", n)
			}
			p := ipos(c, r)
			if rejoin {
				if f == "NwkSKey" {
					continue // a rejoin answer is always LoRaWAN 1.1
				}
				checkCtxTerm(c, rs, ti, rule, k, p, what, got, wantT)
				continue
			}
			on, off := got.Specialise(optNeg, true), got.Specialise(optNeg, false)
			switch f {
			case "AppSKey":
				checkCtxTerm(c, rs, ti, rule, k, p, what, on, wantT)
				if !on.Equal(off) {
					checkCtxTerm(c, rs, ti, rule, k+"/1.0", p, what+" when OptNeg is clear", off, wantT)
				}
			case "NwkSKey":
				checkCtxTerm(c, rs, ti, rule, k, p, what+" when OptNeg is clear (LoRaWAN 1.0)", off, wantT)
				checkTerm(c, rule, k+"/when", p, f+" when OptNeg is set (absent in a 1.1 answer)", on, absent...)
			default:
				checkCtxTerm(c, rs, ti, rule, k, p, what+" when OptNeg is set (LoRaWAN 1.1)", on, wantT)
				checkTerm(c, rule, k+"/when", p, f+" when OptNeg is clear (absent in a 1.0 answer)", off, absent...)
			}
		}
	}
	if n == 0 {
		c.Run.Unknown(rule, base+"/envelopes", fpos(c, fn), "a successful return", "none")
	}
}

func hasField(t types.Type, name string) bool {
	for _, f := range flow.StructFields(t) {
		if f == name {
			return true
		}
	}
	return false
}

func c16Chain(c *Ctx, rule, list string, L *c16List) {
	// Two parts. From the wrapper inwards (wrapper → handler → context literal) the rule reads one shape of the code —
	// six positional parameters — and what that part computes is decided end to end by R9, which fills the wrapper's
	// parameters by type and name whatever their packaging: rule "<rule>-ctx", advisory. From the HTTP handler to the
	// wrapper (which configuration lookups feed which role) R9 does not look: rule "<rule>", read by role, not position.
	ruleCtx := rule + "-ctx"
	h := L.loop.Fn // handleJoinRequest(reqPL, dk, asKEKLabel, asKEK, nsKEKLabel, nsKEK)
	key := list + "/" + flow.ShortFunc(h)
	sp := c.Prog.SSAPkg(jsRel)
	var wrapper *ssa.Function
	var wsite flow.Site
	for _, fn := range flow.PackageFuncs(c.Prog.SSA, sp) {
		for _, s := range flow.Calls(fn, flow.Named(flow.FuncName(h))) {
			wrapper, wsite = fn, s
		}
	}
	// context literal fields come from the handler's parameters of the same role
	roles := []struct {
		field string
		param int
	}{{L.req, 0}, {"deviceKeys", 1}, {"asKEKLabel", 2}, {"asKEK", 3}, {"nsKEKLabel", 4}, {"nsKEK", 5}}
	if len(h.Params) != 6 {
		c.Run.Unknown(ruleCtx, key+"/params", fpos(c, h), "6 parameters (request, device keys, AS label, AS KEK, NS label, NS KEK)", fmt.Sprint(len(h.Params)))
	} else {
		for _, r := range roles {
			got := L.literal[r.field]
			if got == nil {
				got = &flow.Term{Op: "zero"}
			}
			checkTerm(c, ruleCtx, key+"/literal:"+r.field, ipos(c, L.loop.Load), "ctx."+r.field, got, flow.Param(r.param))
		}
		if wrapper != nil {
			var ps []*flow.Term
			for i := range wrapper.Params {
				ps = append(ps, flow.Param(i))
			}
			passThrough(c, ruleCtx, list+"/"+flow.ShortFunc(wrapper)+"/args", wrapper, wsite, ps)
		}
	}
}

// c16ChainHTTP: the HTTP-handler → wrapper half of the chain of custody, anchored on the wrappers R9 interprets
// (handleJoinRequestWrapper / handleRejoinRequestWrapper), independent of how the task lists are organised.
func c16ChainHTTP(c *Ctx, rule, list, wrapperName string) {
	sp := c.Prog.SSAPkg(jsRel)
	if sp == nil {
		return
	}
	wrapper := sp.Func(wrapperName)
	if wrapper == nil {
		c.Run.Unknown(rule, list+"/wrapper", "", "function "+wrapperName+" exists", "missing")
		return
	}
	// HTTP handler → wrapper
	var hh *ssa.Function
	var hsite flow.Site
	for _, fn := range flow.PackageFuncs(c.Prog.SSA, sp) {
		for _, s := range flow.Calls(fn, flow.Named(flow.FuncName(wrapper))) {
			hh, hsite = fn, s
		}
	}
	if hh == nil {
		c.Run.Unknown(rule, list+"/http-handler", fpos(c, wrapper), "an HTTP handler method calls "+flow.ShortFunc(wrapper), "none")
		return
	}
	// the look-ups may have been extracted into a helper of the handler: its results are read in the helper, once per
	// return that may report success, with the helper's parameters replaced by the handler's arguments
	variants := c16InlineLookups(hh, hsite)
	if len(variants) > 1 || (len(variants) == 1 && variants[0] != nil) {
		for vi, args := range variants {
			vs := hsite
			vs.Args = args
			sfx := ""
			if len(variants) > 1 {
				sfx = fmt.Sprintf("#ret%d", vi+1)
			}
			c16ChainHTTPRoles(c, rule, list, wrapper, hh, vs, sfx)
		}
	} else {
		c16ChainHTTPRoles(c, rule, list, wrapper, hh, hsite, "")
	}
	// the answer that is written is the wrapper's result
	hk := list + "/" + flow.ShortFunc(hh)
	for _, s := range flow.Calls(hh, flow.Named(c16Writer(c))) {
		if len(s.Args) == 4 && flow.For(hh).PathCond(s.Instr.Block(), nil).Satisfiable() {
			if s.Args[3].Equal(flow.For(hh).Term(hsite.Value())) {
				c.Run.OK(rule, hk+"/answer-written", ipos(c, s.Instr), "the wrapper's answer is written to the response", "returnPayload(w, 200, ans)", true)
				checkTerm(c, rule, hk+"/answer-status", ipos(c, s.Instr), "HTTP status of an answer", s.Args[2], flow.ConstInt(200))
			}
		}
	}
}

// c16InlineLookups: if arguments of the wrapper call are results of one multi-result helper of the package (the
// look-ups factored out of the handler), returns the argument terms once per return of the helper that may report
// success, with every `result i of the helper` replaced by what that return yields for i, expressed over the handler's
// own values. nil when there is no such helper or it is not a plain sequence of look-ups (it stores somewhere, its
// results are not terms).
func c16InlineLookups(hh *ssa.Function, hsite flow.Site) [][]*flow.Term {
	e := flow.For(hh)
	for _, b := range hh.Blocks {
		for _, ins := range b.Instrs {
			call, ok := ins.(*ssa.Call)
			if !ok {
				continue
			}
			H := call.Call.StaticCallee()
			if H == nil || H.Blocks == nil || H.Pkg != hh.Pkg || call.Call.IsInvoke() || H.Signature.Results().Len() < 2 {
				continue
			}
			T := e.Term(call)
			used := false
			for _, a := range hsite.Args {
				if a.Has(func(t *flow.Term) bool { return t.Op == "extract" && len(t.Args) == 1 && t.Args[0].Equal(T) }) {
					used = true
				}
			}
			if !used {
				continue
			}
			// the helper must be effect-free apart from the calls it makes
			for _, hb := range H.Blocks {
				for _, hi := range hb.Instrs {
					switch x := hi.(type) {
					case *ssa.Store:
						if _, isAlloc := x.Addr.(*ssa.Alloc); !isAlloc {
							if fa, isFA := x.Addr.(*ssa.FieldAddr); isFA {
								if _, onAlloc := fa.X.(*ssa.Alloc); onAlloc {
									continue
								}
							}
							return nil
						}
					case *ssa.MapUpdate, *ssa.Send, *ssa.Go, *ssa.Defer, *ssa.Panic:
						return nil
					}
				}
			}
			var hcall flow.Site
			found := false
			for _, s := range flow.Calls(hh, flow.Named(flow.FuncName(H))) {
				if s.Instr == ssa.CallInstruction(call) {
					hcall, found = s, true
				}
			}
			if !found || len(hcall.Args) != len(H.Params) {
				return nil
			}
			ce := flow.For(H)
			nres := H.Signature.Results().Len()
			var out [][]*flow.Term
			for _, r := range flow.Returns(H) {
				if len(r.Results) != nres || ssaNonNil(r.Results[nres-1], 0) || !mayReturnNil(ce, r, nres-1) {
					continue // a return that reports failure (a non-nil error or failure object)
				}
				args := append([]*flow.Term(nil), hsite.Args...)
				okv := true
				for i := 0; i < nres; i++ {
					rt := ce.Select(r.Results[i], nil, r)
					if rt.IsUnknown() {
						okv = false
						break
					}
					for k := range hcall.Args {
						rt = rt.Subst(flow.Param(k), &flow.Term{Op: "param", Val: fmt.Sprintf("__%d", k)})
					}
					for k, a := range hcall.Args {
						arg := a
						if arg.Op == "addr" && len(arg.Args) == 1 {
							arg = arg.Args[0]
						}
						rt = rt.Subst(&flow.Term{Op: "param", Val: fmt.Sprintf("__%d", k)}, arg)
					}
					rt = flow.SelectRecFields(rt)
					from := flow.Extract(T, i)
					for j := range args {
						args[j] = flow.SelectRecFields(args[j].Subst(from, rt))
					}
				}
				if !okv {
					return nil
				}
				out = append(out, args)
			}
			if len(out) == 0 {
				return nil
			}
			return out
		}
	}
	return [][]*flow.Term{nil}
}

func c16ChainHTTPRoles(c *Ctx, rule, list string, wrapper, hh *ssa.Function, hsite flow.Site, sfx string) {
	role, why := c16SiteRoles(wrapper, hsite)
	if why != "" {
		c.Run.Unknown(rule, list+"/http-handler"+sfx, ipos(c, hsite.Instr), "the wrapper's parameters name the request, the device keys and the AS / NS label and KEK (by type and name)", why)
		return
	}
	hk := list + "/" + flow.ShortFunc(hh)
	p := ipos(c, hsite.Instr)
	req := role["req"]
	cfg := func(f string, arg *flow.Term, i int) *flow.Term {
		return flow.Extract(flow.Call("dyn", flow.Param(0, "config", f), arg), i)
	}
	checkTerm(c, rule, hk+"/deviceKeys"+sfx, p, "device keys (looked up by the request's DevEUI)", role["dk"], cfg("GetDeviceKeysByDevEUIFunc", req.Field("DevEUI"), 0))
	checkTerm(c, rule, hk+"/asKEKLabel"+sfx, p, "AS KEK label (looked up by the request's DevEUI)", role["asLabel"], cfg("GetASKEKLabelByDevEUIFunc", req.Field("DevEUI"), 0))
	// a KEK is compared with the lookup under the label that is sent; where the label itself comes out of a helper the
	// rule does not read, the comparison has nothing to stand on
	kek := func(k, what string, got, label *flow.Term) {
		if h := unknownHelper(label, nil); h != "" || label.IsUnknown() {
			c.Run.Unknown(rule, hk+"/"+k+sfx, p, what, "the label it must be looked up under goes through helper "+h+": "+short(label.String()))
			return
		}
		checkTerm(c, rule, hk+"/"+k+sfx, p, what, got, cfg("GetKEKByLabelFunc", label, 0))
	}
	kek("asKEK", "AS KEK (looked up under the AS label that is sent)", role["asKEK"], role["asLabel"])
	checkTerm(c, rule, hk+"/nsKEKLabel"+sfx, p, "NS KEK label (the request's SenderID)", role["nsLabel"], req.Field("BasePayload", "SenderID"))
	kek("nsKEK", "NS KEK (looked up under the NS label that is sent)", role["nsKEK"], role["nsLabel"])
	if !(req.Op == "after" && req.Val == "encoding/json.Unmarshal") {
		c.Run.Unknown(rule, hk+"/request"+sfx, p, "the request payload decoded from the body", req.String())
	}
}

// c16SiteRoles: which argument (or field of a struct argument) of a call of the wrapper carries which role, decided
// like R9 fills the wrapper's parameters: the request and the device keys by type, the two labels (string) and the two
// KEKs ([]byte) by the innermost name that says AS or NS.
func c16SiteRoles(wrapper *ssa.Function, site flow.Site) (map[string]*flow.Term, string) {
	out := map[string]*flow.Term{}
	var fill func(t types.Type, path string, term *flow.Term, depth int) string
	fill = func(t types.Type, path string, term *flow.Term, depth int) string {
		if depth > 3 {
			return "parameter " + path + " nests too deep"
		}
		lp := strings.ToLower(path)
		side := ""
		if i, j := strings.LastIndex(lp, "as"), strings.LastIndex(lp, "ns"); i >= 0 || j >= 0 {
			if i > j {
				side = "as"
			} else {
				side = "ns"
			}
		}
		set := func(role string) string {
			if out[role] != nil {
				return "two parameters take the " + role
			}
			out[role] = term
			return ""
		}
		if pt, ok := t.Underlying().(*types.Pointer); ok {
			if term.Op == "addr" && len(term.Args) == 1 {
				return fill(pt.Elem(), path, term.Args[0], depth+1)
			}
			return "parameter " + path + " is a pointer whose target the rule does not see"
		}
		if n, ok := t.(*types.Named); ok {
			switch n.Obj().Name() {
			case "JoinReqPayload", "RejoinReqPayload":
				return set("req")
			case "DeviceKeys":
				return set("dk")
			}
		}
		switch u := t.Underlying().(type) {
		case *types.Basic:
			if u.Kind() == types.String && side != "" {
				return set(side + "Label")
			}
		case *types.Slice:
			if b, ok := u.Elem().Underlying().(*types.Basic); ok && b.Kind() == types.Uint8 && side != "" {
				return set(side + "KEK")
			}
		case *types.Struct:
			for i := 0; i < u.NumFields(); i++ {
				if why := fill(u.Field(i).Type(), path+"."+u.Field(i).Name(), term.Field(u.Field(i).Name()), depth+1); why != "" {
					return why
				}
			}
			return ""
		}
		return "parameter " + path + " of type " + t.String() + " is not recognised"
	}
	if len(site.Args) != len(wrapper.Params) {
		return nil, "argument count"
	}
	for i, p := range wrapper.Params {
		if why := fill(p.Type(), p.Name(), site.Args[i], 0); why != "" {
			return nil, why
		}
	}
	for _, k := range []string{"req", "dk", "asLabel", "asKEK", "nsLabel", "nsKEK"} {
		if out[k] == nil {
			return nil, "no parameter of " + flow.ShortFunc(wrapper) + " takes the " + k
		}
	}
	return out, ""
}

// ---------------------------------------------------------------------------
// R5

// mirrorTriple checks S = X.ReceiverID, R = X.SenderID, T = X.TransactionID for one X.
func mirrorTriple(c *Ctx, rule, key, pos string, s, r, t *flow.Term, wantX *flow.Term) {
	if s.IsUnknown() || r.IsUnknown() || t.IsUnknown() {
		c.Run.Unknown(rule, key, pos, "SenderID/ReceiverID/TransactionID = request.ReceiverID/SenderID/TransactionID", s.String()+" / "+r.String()+" / "+t.String())
		return
	}
	checkTerm(c, rule, key+"/SenderID", pos, "answer.SenderID", s, wantX.Field("ReceiverID"))
	checkTerm(c, rule, key+"/ReceiverID", pos, "answer.ReceiverID", r, wantX.Field("SenderID"))
	checkTerm(c, rule, key+"/TransactionID", pos, "answer.TransactionID", t, wantX.Field("TransactionID"))
}

func c16Mirror(c *Ctx) {
	const rule = "R5.mirror"
	c.Run.Rule(rule, "every answer (wrappers, error helpers, HomeNS answer) takes SenderID/ReceiverID/TransactionID from the request's ReceiverID/SenderID/TransactionID; helpers are called with the request's base payload")
	bp := []string{"BasePayloadResult", "BasePayload"}
	sel := func(e *flow.Eval, v ssa.Value, at ssa.Instruction, f string) *flow.Term {
		return e.Select(v, append(append([]string{}, bp...), f), at)
	}
	// wrappers: the returned struct
	for _, n := range []string{"handleJoinRequestWrapper", "handleRejoinRequestWrapper"} {
		fn := flowFn(c, rule, jsRel, n)
		if fn == nil {
			continue
		}
		e := flow.For(fn)
		for i, r := range flow.Returns(fn) {
			key := fmt.Sprintf("%s/return#%d", fnKey(fn), i+1)
			mirrorTriple(c, rule, key, ipos(c, r), sel(e, r.Results[0], r, "SenderID"), sel(e, r.Results[0], r, "ReceiverID"), sel(e, r.Results[0], r, "TransactionID"), flow.Param(0, "BasePayload"))
		}
	}
	// error helpers: the literal handed to returnPayload; basePL is parameter 2
	for _, n := range []string{"handler.returnJoinReqError", "handler.returnRejoinReqError", "handler.returnHomeNSReqError"} {
		fn := flowFn(c, rule, jsRel, n)
		if fn == nil {
			continue
		}
		e := flow.For(fn)
		s, ok := oneSite(c, rule, fnKey(fn)+"/call:returnPayload", fn, c16Writer(c))
		if !ok {
			continue
		}
		pl := s.Instr.Common().Args[3]
		if mi, isMI := pl.(*ssa.MakeInterface); isMI {
			pl = mi.X
		}
		key := fnKey(fn) + "/answer"
		mirrorTriple(c, rule, key, ipos(c, s.Instr), sel(e, pl, s.Instr, "SenderID"), sel(e, pl, s.Instr, "ReceiverID"), sel(e, pl, s.Instr, "TransactionID"), flow.Param(2))
	}
	// HTTP handlers: helpers receive the decoded request's base payload; HomeNS success literal
	for _, n := range []string{"handler.handleJoinReq", "handler.handleRejoinReq", "handler.handleHomeNSReq"} {
		fn := flowFn(c, rule, jsRel, n)
		if fn == nil {
			continue
		}
		e := flow.For(fn)
		req := flow.After("encoding/json.Unmarshal", &flow.Term{Op: "zero"})
		k := 0
		for _, s := range flow.Calls(fn, func(name string) bool {
			return strings.HasPrefix(name, "(*"+jsPkg+"handler).return") && strings.HasSuffix(name, "ReqError")
		}) {
			k++
			if len(s.Args) < 3 {
				continue
			}
			checkTerm(c, rule, fmt.Sprintf("%s/helper-call#%d/basePL", fnKey(fn), k), ipos(c, s.Instr), "base payload handed to "+strings.TrimPrefix(s.Callee, "(*"+jsPkg+"handler)."), s.Args[2], req.Field("BasePayload"))
		}
		if n == "handler.handleHomeNSReq" {
			for _, s := range flow.Calls(fn, flow.Named(c16Writer(c))) {
				pl := s.Instr.Common().Args[3]
				if mi, isMI := pl.(*ssa.MakeInterface); isMI {
					pl = mi.X
				}
				mirrorTriple(c, rule, fnKey(fn)+"/answer", ipos(c, s.Instr), sel(e, pl, s.Instr, "SenderID"), sel(e, pl, s.Instr, "ReceiverID"), sel(e, pl, s.Instr, "TransactionID"), req.Field("BasePayload"))
			}
		}
	}
}

// ---------------------------------------------------------------------------
// R6

func c16Codes(c *Ctx) {
	const rule = "R6.codes"
	c.Run.Rule(rule, "ErrInvalidMIC → ResultCode MICFailed in the join answer; ErrDevEUINotFound → UnknownDevEUI in the join/rejoin/HomeNS error answers; helpers put their resultCode parameter into the answer")
	if fn := flowFn(c, rule, jsRel, "handleJoinRequestWrapper"); fn != nil {
		e := flow.For(fn)
		inner, ok := oneSite(c, rule, fnKey(fn)+"/call:handleJoinRequest", fn, jsPkg+"handleJoinRequest")
		if ok {
			errT := flow.Extract(e.Term(inner.Value()), 1)
			errNil := flow.Bin("==", errT, flow.Nil())
			isMIC := flow.Bin("==", flow.Global(jsPkg+"ErrInvalidMIC"), flow.Call("pkgerrors.Cause", errT))
			isMIC2 := flow.Bin("==", flow.Global(jsPkg+"ErrInvalidMIC"), errT)
			for i, r := range flow.Returns(fn) {
				rc := e.Select(r.Results[0], []string{"BasePayloadResult", "Result", "ResultCode"}, r)
				key := fmt.Sprintf("%s/return#%d", fnKey(fn), i+1)
				if rc.IsUnknown() {
					c.Run.Unknown(rule, key+"/MICFailed", ipos(c, r), "ResultCode when the pipeline failed with ErrInvalidMIC", rc.String())
					continue
				}
				onErr := rc.Specialise(errNil, false)
				got := onErr.Specialise(isMIC, true).Specialise(isMIC2, true)
				checkTerm(c, rule, key+"/MICFailed", ipos(c, r), "ResultCode when errors.Cause(err) == ErrInvalidMIC", got, flow.ConstString("MICFailed"))
				other := onErr.Specialise(isMIC, false).Specialise(isMIC2, false)
				if other.Equal(flow.ConstString("MICFailed")) || other.Equal(flow.ConstString("Success")) {
					c.Run.Bad(rule, key+"/other-errors", ipos(c, r), "other failures are not reported as MICFailed/Success", other.String())
				} else {
					c.Run.OK(rule, key+"/other-errors", ipos(c, r), "other failures are not reported as MICFailed/Success", short(other.String()), true)
				}
				okT := rc.Specialise(errNil, true)
				checkTerm(c, rule, key+"/success-passthrough", ipos(c, r), "ResultCode when the pipeline succeeded (the pipeline's own answer)", okT, flow.Extract(e.Term(inner.Value()), 0).Field("BasePayloadResult", "Result", "ResultCode"))
			}
		}
	}
	// UnknownDevEUI
	for _, x := range []struct{ fn, lookup string }{
		{"handler.handleJoinReq", "GetDeviceKeysByDevEUIFunc"},
		{"handler.handleRejoinReq", "GetDeviceKeysByDevEUIFunc"},
		{"handler.handleHomeNSReq", "GetHomeNetIDByDevEUIFunc"},
	} {
		fn := flowFn(c, rule, jsRel, x.fn)
		if fn == nil {
			continue
		}
		e := flow.For(fn)
		req := flow.After("encoding/json.Unmarshal", &flow.Term{Op: "zero"})
		errT := flow.Extract(flow.Call("dyn", flow.Param(0, "config", x.lookup), req.Field("DevEUI")), 1)
		notFound := flow.Eq(errT, flow.Global(jsPkg+"ErrDevEUINotFound"))
		n := 0
		for _, s := range flow.Calls(fn, func(name string) bool {
			return strings.HasPrefix(name, "(*"+jsPkg+"handler).return") && strings.HasSuffix(name, "ReqError")
		}) {
			if len(s.Args) < 5 {
				continue
			}
			pc := e.PathCond(s.Instr.Block(), nil)
			if !flow.Implies(pc, notFound) {
				// one call for every failure, with the code chosen beforehand (`code := Other; if err == ErrDevEUINotFound
				// { code = UnknownDevEUI }`): the argument, specialised to the not-found case, must be UnknownDevEUI
				nf1 := flow.Bin("==", errT, flow.Global(jsPkg+"ErrDevEUINotFound"))
				nf2 := flow.Bin("!=", errT, flow.Global(jsPkg+"ErrDevEUINotFound"))
				sp := s.Args[4].Specialise(nf1, true).Specialise(nf2, false)
				if sp.Equal(s.Args[4]) {
					continue // does not depend on that comparison
				}
				n++
				checkTerm(c, rule, fmt.Sprintf("%s/not-found#%d", fnKey(fn), n), ipos(c, s.Instr), "result code when the device lookup returns ErrDevEUINotFound", sp, flow.ConstString("UnknownDevEUI"))
				continue
			}
			n++
			checkTerm(c, rule, fmt.Sprintf("%s/not-found#%d", fnKey(fn), n), ipos(c, s.Instr), "result code when the device lookup returns ErrDevEUINotFound", s.Args[4], flow.ConstString("UnknownDevEUI"))
		}
		if n == 0 {
			// a verdict needs the lookup callback to be invoked in this very function; when the lookup lives in a helper
			// the guard is on the helper's error and the shape is not the recognised one
			direct := false
			for _, s := range flow.Calls(fn, func(name string) bool { return name == "dyn" }) {
				if len(s.Args) > 0 && s.Args[0].Equal(flow.Param(0, "config", x.lookup)) {
					direct = true
				}
			}
			if !direct {
				c.Run.Unknown(rule, fnKey(fn)+"/not-found", fpos(c, fn), "a branch for "+x.lookup+" returning ErrDevEUINotFound that answers through a return*ReqError helper", "the callback is not invoked in this function (a helper performs the lookup): outside the recognised shape")
				continue
			}
			c.Run.Bad(rule, fnKey(fn)+"/not-found", fpos(c, fn), "a branch for "+x.lookup+" returning ErrDevEUINotFound that answers through a return*ReqError helper", "no helper call is guarded by err == ErrDevEUINotFound (error of "+errT.String()+")")
		}
	}
	for _, n := range []string{"handler.returnJoinReqError", "handler.returnRejoinReqError", "handler.returnHomeNSReqError"} {
		fn := flowFn(c, rule, jsRel, n)
		if fn == nil {
			continue
		}
		e := flow.For(fn)
		for _, s := range flow.Calls(fn, flow.Named(c16Writer(c))) {
			pl := s.Instr.Common().Args[3]
			if mi, isMI := pl.(*ssa.MakeInterface); isMI {
				pl = mi.X
			}
			checkTerm(c, rule, fnKey(fn)+"/ResultCode", ipos(c, s.Instr), "ResultCode of the error answer", e.Select(pl, []string{"BasePayloadResult", "Result", "ResultCode"}, s.Instr), flow.Param(4))
		}
	}
}

// ---------------------------------------------------------------------------
// R8

func c16Echo(c *Ctx, lists map[string]*c16List) {
	const rule, rNonce = "R8.echo", "R8.joinnonce"
	c.Run.Rule(rule, "join-accept literal: JoinNonce = ctx.joinNonce, HomeNetID = ctx.netID (parsed from the request's SenderID), DevAddr/DLSettings/RxDelay/CFList from the request; the answer carries MarshalBinary of the MIC'd and encrypted frame with ResultCode Success")
	c.Run.Rule(rNonce, "ctx.joinNonce is the configured DeviceKeys.JoinNonce and values >= 2^24 are rejected")
	for _, name := range []string{"joinTasks", "rejoinTasks"} {
		L := lists[name]
		if L == nil || !L.ok {
			continue
		}
		req := L.req
		if req == "" {
			c.Run.Unknown(rule, name+"/request-field", c.Prog.Rel(L.tl.Pos), "the handler literal fills joinReqPayload or rejoinReqPayload", "neither")
			continue
		}
		for _, t := range L.tl.Tasks {
			tname := flow.ShortFunc(t)
			e := flow.For(t)
			// --- the writer of ctx.joinNonce
			acc, _ := flow.ParamAccesses(t, 0, flow.InModule)
			writesNonce := false
			for _, a := range acc {
				if a.Kind == "write" && a.PathString() == "joinNonce" {
					writesNonce = true
				}
			}
			if writesNonce {
				base := name + "/" + tname
				src := flow.Param(0, "deviceKeys", "JoinNonce")
				i := 0
				for _, r := range flow.Returns(t) {
					if !mayReturnNil(e, r, 0) {
						continue
					}
					i++
					got := e.SelectAddr(t.Params[0], []string{"joinNonce"}, r)
					checkTerm(c, rNonce, fmt.Sprintf("%s/value#%d", base, i), ipos(c, r), "ctx.joinNonce", got, flow.Conv("uint32", src), src)
					pc := e.PathCond(r.Block(), nil)
					over1 := flow.AtomOf(flow.Bin("<", flow.ConstInt(1<<24-1), src))
					over2 := flow.AtomOf(flow.Bin("<=", flow.ConstInt(1<<24), src))
					if flow.Implies(pc, flow.FNot(over1)) && pc.DependsOn(over1.Atom) || flow.Implies(pc, flow.FNot(over2)) && pc.DependsOn(over2.Atom) {
						c.Run.OK(rNonce, fmt.Sprintf("%s/limit#%d", base, i), ipos(c, r), "success implies JoinNonce <= 2^24-1 (three bytes on the wire)", pc.Pretty(), true)
					} else {
						c.Run.Bad(rNonce, fmt.Sprintf("%s/limit#%d", base, i), ipos(c, r), "success implies JoinNonce <= 16777215 (three bytes on the wire)", "path condition of the successful return: "+pc.Pretty()+": a larger configured nonce is truncated in the join-accept while the keys are derived from the full value")
					}
				}
			}
			// --- the netID parser
			for _, s := range flow.Calls(t, flow.Named("(*lorawan.NetID).UnmarshalText")) {
				if len(s.Args) == 2 && s.Args[0].Equal(flow.Addr(flow.Param(0, "netID"))) {
					checkTerm(c, rule, name+"/"+tname+"/netID-source", ipos(c, s.Instr), "text parsed into ctx.netID (the sender id)", s.Args[1], flow.Conv("[]byte", flow.Param(0, req, "BasePayload", "SenderID")))
				}
			}
			// --- the join-accept literal
			ja := joinAcceptLiteral(t)
			if ja == nil {
				continue
			}
			base := name + "/" + tname
			p := ipos(c, ja.at)
			f := func(n string) *flow.Term { return e.Select(ja.alloc, []string{n}, ja.at) }
			rs := newC16Resolver(L)
			ti := rs.taskIndex(t)
			checkCtxTerm(c, rs, ti, rule, base+"/JoinNonce", p, "JoinNonce", f("JoinNonce"), flow.Param(0, "joinNonce"))
			checkCtxTerm(c, rs, ti, rule, base+"/HomeNetID", p, "HomeNetID", f("HomeNetID"), flow.Param(0, "netID"))
			checkTerm(c, rule, base+"/DevAddr", p, "DevAddr", f("DevAddr"), flow.Param(0, req, "DevAddr"))
			checkTerm(c, rule, base+"/DLSettings", p, "DLSettings", f("DLSettings"), flow.Param(0, req, "DLSettings"))
			checkTerm(c, rule, base+"/RXDelay", p, "RXDelay", f("RXDelay"), flow.Conv("uint8", flow.Param(0, req, "RxDelay")))
			// CFList: nil when the request carries none, else the request's bytes parsed
			cfl := f("CFList")
			raw := flow.SliceOf(flow.Param(0, req, "CFList"), nil, nil)
			var um *flow.Site
			for _, s := range flow.Calls(t, flow.Named("(*lorawan.CFList).UnmarshalBinary")) {
				s := s
				um = &s
			}
			if um == nil {
				c.Run.Unknown(rule, base+"/CFList", p, "CFList parsed from the request with CFList.UnmarshalBinary", cfl.String())
			} else {
				checkTerm(c, rule, base+"/CFList-source", ipos(c, um.Instr), "bytes parsed into the CFList", um.Args[1], raw, flow.Param(0, req, "CFList"))
				empty := flow.Bin("==", flow.Call("len", raw), flow.ConstInt(0))
				okU := flow.Bin("==", e.Term(um.Value()), flow.Nil())
				present := cfl.Specialise(empty, false).Specialise(okU, true)
				absent := cfl.Specialise(empty, true)
				checkTerm(c, rule, base+"/CFList-present", p, "CFList when the request carries one (the parsed object)", present, flow.Addr(flow.After("(*lorawan.CFList).UnmarshalBinary", &flow.Term{Op: "zero"})))
				checkTerm(c, rule, base+"/CFList-absent", p, "CFList when the request carries none", absent, flow.Nil())
			}
			// frame: MHDR JoinAccept, the literal as MACPayload; answer.PHYPayload = MarshalBinary(after Encrypt(after SetMIC(frame)))
			ans := "joinAnsPayload"
			if name == "rejoinTasks" {
				ans = "rejoinAnsPaylaod"
			}
			ai := 0
			for _, r := range flow.Returns(t) {
				if !flow.IsNilConst(r.Results[0]) {
					continue
				}
				ai++
				rk := fmt.Sprintf("%s/answer#%d", base, ai)
				phy := e.SelectAddr(t.Params[0], []string{ans, "PHYPayload"}, r)
				wantPHY := "answer.PHYPayload = MarshalBinary(frame after SetDownlinkJoinMIC, then EncryptJoinAcceptPayload)"
				// the MarshalBinary call inside the stored value and the history of the frame it received
				var mb *flow.Term
				phy.Has(func(x *flow.Term) bool {
					if mb == nil && x.Op == "call" && x.Val == "(lorawan.PHYPayload).MarshalBinary" && len(x.Args) == 1 {
						mb = x
					}
					return false
				})
				switch {
				case phy.IsUnknown():
					c.Run.Unknown(rule, rk+"/PHYPayload", ipos(c, r), wantPHY, short(phy.String()))
				case mb == nil && termDepth(phy) <= 2:
					c.Run.Bad(rule, rk+"/PHYPayload", ipos(c, r), wantPHY, short(phy.String())+": not the marshalled frame")
				case mb == nil:
					c.Run.Unknown(rule, rk+"/PHYPayload", ipos(c, r), wantPHY, "built differently: "+short(phy.String()))
				default:
					var hist []string
					frame := mb.Args[0]
					for frame.Op == "after" && len(frame.Args) == 1 {
						hist = append(hist, frame.Val)
						frame = frame.Args[0]
					}
					const encN, micN = "(*lorawan.PHYPayload).EncryptJoinAcceptPayload", "(*lorawan.PHYPayload).SetDownlinkJoinMIC"
					ie, im, other := -1, -1, ""
					for i, h := range hist {
						switch h {
						case encN:
							if ie < 0 {
								ie = i
							}
						case micN:
							if im < 0 {
								im = i
							}
						default:
							other = h
						}
					}
					switch {
					case other != "":
						c.Run.Unknown(rule, rk+"/PHYPayload", ipos(c, r), wantPHY, "the frame also passes through "+other)
					case ie >= 0 && im >= 0 && ie < im: // hist lists the latest call first
						c.Run.OK(rule, rk+"/PHYPayload", ipos(c, r), wantPHY, short(phy.String()), true)
					default:
						c.Run.Bad(rule, rk+"/PHYPayload", ipos(c, r), wantPHY, "the marshalled frame's history is ["+strings.Join(hist, " <- ")+"] (latest first): the device cannot decrypt and verify it")
					}
					if other == "" {
						mt := recField(frame, "MHDR", "MType")
						checkTerm(c, rule, rk+"/MType", ipos(c, r), "MHDR.MType (JoinAccept)", mt, flow.ConstInt(1))
						mp := recField(frame, "MACPayload")
						if mp != nil && mp.Op == "addr" && len(mp.Args) == 1 && mp.Args[0].Op == "rec" {
							c.Run.OK(rule, rk+"/MACPayload", ipos(c, r), "MACPayload is the JoinAcceptPayload literal", short(mp.String()), true)
						} else {
							c.Run.Unknown(rule, rk+"/MACPayload", ipos(c, r), "MACPayload is the JoinAcceptPayload literal", fmt.Sprint(mp))
						}
					}
				}
				rc := e.SelectAddr(t.Params[0], []string{ans, "BasePayloadResult", "Result", "ResultCode"}, r)
				checkTerm(c, rule, rk+"/ResultCode", ipos(c, r), "ResultCode of a completed answer", rc, flow.ConstString("Success"))
			}
		}
	}
	// the wrappers hand the pipeline's answer on unchanged apart from the base payload
	_ = sort.Strings
}

// recField selects nested fields of a rec(...) term.
func recField(t *flow.Term, path ...string) *flow.Term {
	for _, f := range path {
		if t == nil || t.Op != "rec" {
			return &flow.Term{Op: "unknown", Val: "not a record"}
		}
		var next *flow.Term
		for _, a := range t.Args {
			if a.Op == "fld" && a.Val == f {
				next = a.Args[0]
			}
		}
		if next == nil {
			return &flow.Term{Op: "zero"}
		}
		t = next
	}
	return t
}

// ---------------------------------------------------------------------------
// pipeline-level resolution of context fields

// c16Resolver rewrites $0.<field>… leaves of a term evaluated in task ti into the value the latest earlier
// task of the same list stored there (evaluated at that task's successful returns), recursively; fields filled
// by the handler literal or by nobody stay as they are. Comparing resolved forms keeps the argument rules
// stable when a value is cached in (or renamed to) another context field by an earlier task.
type c16Resolver struct {
	L    *c16List
	accs map[int][]flow.Access
}

func newC16Resolver(L *c16List) *c16Resolver {
	return &c16Resolver{L: L, accs: map[int][]flow.Access{}}
}

func (r *c16Resolver) taskIndex(fn *ssa.Function) int { return r.L.tl.Index(fn) }

func (r *c16Resolver) accesses(j int) []flow.Access {
	if a, ok := r.accs[j]; ok {
		return a
	}
	a, _ := flow.ParamAccesses(r.L.tl.Tasks[j], 0, flow.InModule)
	r.accs[j] = a
	return a
}

func ctxPath(t *flow.Term) ([]string, bool) {
	var path []string
	for t.Op == "field" && len(t.Args) == 1 {
		path = append([]string{t.Val}, path...)
		t = t.Args[0]
	}
	if t.Op == "param" && t.Val == "0" && len(path) > 0 {
		return path, true
	}
	return nil, false
}

func (r *c16Resolver) resolve(t *flow.Term, ti, depth int) *flow.Term {
	if t == nil || depth > 6 || ti <= 0 {
		return t
	}
	if path, ok := ctxPath(t); ok {
		for j := ti - 1; j >= 0; j-- {
			writes := false
			for _, a := range r.accesses(j) {
				if a.Kind != "read" && len(a.Path) > 0 && a.Path[0] == path[0] {
					writes = true
				}
			}
			if !writes {
				continue
			}
			task := r.L.tl.Tasks[j]
			e := flow.For(task)
			var val *flow.Term
			for _, ret := range flow.Returns(task) {
				if !flow.IsNilConst(ret.Results[0]) {
					continue
				}
				v := e.SelectAddr(task.Params[0], path, ret)
				if val == nil {
					val = v
				} else if !val.Equal(v) {
					return t // differs between successful returns: leave unresolved
				}
			}
			if val == nil || val.IsUnknown() {
				return t
			}
			if val.Equal(t) {
				// the task leaves this path as it found it (wrote a sibling): keep looking earlier
				continue
			}
			return r.resolve(val, j, depth+1)
		}
		return t
	}
	if len(t.Args) == 0 {
		return t
	}
	n := &flow.Term{Op: t.Op, Val: t.Val, Type: t.Type, Src: t.Src}
	changed := false
	for _, a := range t.Args {
		b := r.resolve(a, ti, depth)
		if b != a {
			changed = true
		}
		n.Args = append(n.Args, b)
	}
	if !changed {
		return t
	}
	return n
}

// checkCtxTerm is checkTerm for terms over the request context of task ti: equal as written, or equal after
// resolving context fields through the earlier tasks of the list.
func checkCtxTerm(c *Ctx, rs *c16Resolver, ti int, rule, key, pos, what string, got *flow.Term, wants ...*flow.Term) bool {
	for _, w := range wants {
		if got.Equal(w) {
			return checkTerm(c, rule, key, pos, what, got, wants...)
		}
	}
	rg := rs.resolve(got, ti, 0)
	var rw []*flow.Term
	for _, w := range wants {
		x := rs.resolve(w, ti, 0)
		if rg.Equal(x) {
			c.Run.OK(rule, key, pos, what+" = "+w.String(), short(got.String())+" (same value through the earlier tasks: "+short(rg.String())+")", true)
			return true
		}
		rw = append(rw, x)
	}
	return checkTerm(c, rule, key, pos, what, rg, rw...)
}

// c16Writer: the handler method that writes an answer payload — (w http.ResponseWriter, status int, payload
// interface{}) — by signature; its name (returnPayload on the pinned tree) is not part of any API.
func c16Writer(c *Ctx) string {
	const deflt = "(*" + jsPkg + "handler).returnPayload"
	sp := c.Prog.SSAPkg(jsRel)
	if sp == nil {
		return deflt
	}
	tn, ok := sp.Members["handler"].(*ssa.Type)
	if !ok {
		return deflt
	}
	ms := c.Prog.SSA.MethodSets.MethodSet(types.NewPointer(tn.Type()))
	found := ""
	for i := 0; i < ms.Len(); i++ {
		fn := c.Prog.SSA.MethodValue(ms.At(i))
		if fn == nil || fn.Pkg != sp {
			continue
		}
		ps := fn.Signature.Params()
		if ps.Len() != 3 || fn.Signature.Results().Len() != 0 {
			continue
		}
		_, isIface := ps.At(2).Type().Underlying().(*types.Interface)
		b, isInt := ps.At(1).Type().Underlying().(*types.Basic)
		if !isIface || !isInt || b.Info()&types.IsInteger == 0 || !strings.HasSuffix(ps.At(0).Type().String(), "http.ResponseWriter") {
			continue
		}
		if found != "" {
			return deflt // ambiguous: keep the pinned name
		}
		found = flow.FuncName(fn)
	}
	if found == "" {
		return deflt
	}
	return found
}

// ssaNonNil: the value is an address or a freshly built object (never nil).
func ssaNonNil(v ssa.Value, depth int) bool {
	if depth > 3 {
		return false
	}
	switch x := v.(type) {
	case *ssa.Alloc, *ssa.MakeInterface, *ssa.FieldAddr, *ssa.IndexAddr, *ssa.MakeSlice, *ssa.MakeMap, *ssa.MakeClosure, *ssa.Function, *ssa.Global:
		return true
	case *ssa.ChangeType:
		return ssaNonNil(x.X, depth+1)
	case *ssa.Phi:
		for _, e := range x.Edges {
			if !ssaNonNil(e, depth+1) {
				return false
			}
		}
		return len(x.Edges) > 0
	}
	return false
}
