package props

import (
	"fmt"
	"lwverif/internal/absint"
	"os"
)

// forParts runs body on the input-space part `dom`, partitioning further whenever the interpreter raises a
// SplitRequest (trace partitioning). body returns the error of in.Try; other errors are passed to onErr.
func forParts(in *absint.Interp, dom absint.Node, maxDepth int, body func(dom absint.Node, tag string) error, onErr func(tag string, err error)) {
	type part struct {
		dom absint.Node
		tag string
	}
	work := []part{{dom, ""}}
	for len(work) > 0 {
		pt := work[0]
		work = work[1:]
		if pt.dom == absint.False {
			continue
		}
		err := body(pt.dom, pt.tag)
		if err == nil {
			continue
		}
		if sr, ok := err.(absint.SplitRequest); ok && os.Getenv("LW_SPLITDEBUG") != "" {
			fmt.Fprintf(os.Stderr, "split %q: %s; cond implied by part: %v, refuted by part: %v, cond==part: %v\n", pt.tag, sr.Why, in.D.M.Implies(pt.dom, sr.Cond), in.D.M.And(pt.dom, sr.Cond) == absint.False, sr.Cond == pt.dom)
		}
		if sr, ok := err.(absint.SplitRequest); ok && len(pt.tag) < maxDepth {
			work = append(work, part{in.D.M.And(pt.dom, sr.Cond), pt.tag + "+"}, part{in.D.M.And(pt.dom, in.D.M.Not(sr.Cond)), pt.tag + "-"})
			continue
		}
		onErr(pt.tag, err)
	}
}
