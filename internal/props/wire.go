package props

import (
	"fmt"
	"go/token"
	"go/types"
	"strconv"
	"strings"

	"lwverif/internal/absint"
)

// ---------------------------------------------------------------------------
// wire-layout oracle model (tables in wirespec_*.go are transcribed from the specifications)

type fkind int

const (
	kUint     fkind = iota // unsigned integer, Width bits starting at (Byte,Bit), little-endian across bytes
	kBool                  // one bit
	kEnum01                // Go integer enum restricted to its declared domain [0,2^Width); Width wire bits
	kBoolArr               // [N]bool, bit i at position start+i
	kBytes                 // [N]byte in wire order
	kBytesRev              // [N]byte, wire order reversed (EUI64, DevAddr, NetID, keys: little-endian on the wire)
	kInt6                  // int8 carried as 6-bit two's complement
	kFreq100               // uint32 Hz carried as 24-bit LE in 100 Hz units
	kFreqNC                // NewChannelReq frequency: 100 Hz units below 2.4 GHz, 200 Hz units from 2.4 GHz
	kGPSTime               // time.Duration carried as 32-bit seconds + 8-bit 1/256 s
	kInt32                 // signed 32-bit LE
	kBoolOr                // one wire bit carrying the OR of several bool fields (Path "A|B"); decoding sets each of them to the bit
)

type wf struct {
	Path  string
	Kind  fkind
	Byte  int
	Bit   int
	Width int   // bits (kUint), elements (kBoolArr, kBytes*)
	Max   int64 // spec maximum; 0 = 2^Width-1
	// RangeUnarmed: the accept range differs between LoRaWAN revisions; accept=spec is not compared.
	RangeUnarmed bool
	// Core: values valid in every revision (used for "spec value is accepted" when the range is unarmed).
	Core []int64
}

type ws struct {
	Pkg, Type string
	Size      int
	Fields    []wf
	RFU       [][2]int // (byte,bit) reserved in every revision: encoder emits 0, decoder ignores
	RFUSoft   [][2]int // reserved but revision dependent: encoder emits 0; decoder input assumed 0 (not armed)
	Dir       string   // MAC commands: "up"/"down"
	CID       int
	NoExact   bool // decoder uses a lower-bound length test (application-layer stream convention)
	Note      string
}

func (s ws) name() string {
	if s.Pkg == "" {
		return s.Type
	}
	return s.Pkg[strings.LastIndex(s.Pkg, "/")+1:] + "." + s.Type
}

func U(path string, byt, bit, width int) wf {
	return wf{Path: path, Kind: kUint, Byte: byt, Bit: bit, Width: width}
}
func UM(path string, byt, bit, width int, max int64) wf {
	return wf{Path: path, Kind: kUint, Byte: byt, Bit: bit, Width: width, Max: max}
}
func B(path string, byt, bit int) wf {
	return wf{Path: path, Kind: kBool, Byte: byt, Bit: bit, Width: 1}
}

// BOR: the wire bit is the OR of the bool fields named in paths ("ClassB|FPending": one position of FCtrl read as
// ClassB on uplinks and as FPending on downlinks; the library keeps both fields and sets both when decoding).
func BOR(paths string, byt, bit int) wf {
	return wf{Path: paths, Kind: kBoolOr, Byte: byt, Bit: bit, Width: 1}
}
func E01(path string, byt, bit int) wf {
	return wf{Path: path, Kind: kEnum01, Byte: byt, Bit: bit, Width: 1}
}
func EN(path string, byt, bit, width int) wf {
	return wf{Path: path, Kind: kEnum01, Byte: byt, Bit: bit, Width: width}
}
func BA(path string, byt, bit, n int) wf {
	return wf{Path: path, Kind: kBoolArr, Byte: byt, Bit: bit, Width: n}
}
func BY(path string, byt, n int) wf  { return wf{Path: path, Kind: kBytes, Byte: byt, Width: n} }
func BYR(path string, byt, n int) wf { return wf{Path: path, Kind: kBytesRev, Byte: byt, Width: n} }
func I6(path string, byt int) wf     { return wf{Path: path, Kind: kInt6, Byte: byt, Width: 6} }
func F100(path string, byt int) wf   { return wf{Path: path, Kind: kFreq100, Byte: byt, Width: 24} }
func FNC(path string, byt int) wf    { return wf{Path: path, Kind: kFreqNC, Byte: byt, Width: 24} }
func GPS(path string, byt int) wf    { return wf{Path: path, Kind: kGPSTime, Byte: byt, Width: 40} }
func I32(path string, byt int) wf    { return wf{Path: path, Kind: kInt32, Byte: byt, Width: 32} }
func unarmed(f wf, core ...int64) wf { f.RangeUnarmed = true; f.Core = core; return f }
func rfu(byt int, bits ...int) [][2]int {
	var out [][2]int
	for _, b := range bits {
		out = append(out, [2]int{byt, b})
	}
	return out
}
func rfuRange(byt, lo, hi int) [][2]int {
	var out [][2]int
	for b := lo; b <= hi; b++ {
		out = append(out, [2]int{byt, b})
	}
	return out
}
func cat(a ...[][2]int) [][2]int {
	var out [][2]int
	for _, x := range a {
		out = append(out, x...)
	}
	return out
}

func (f wf) max() int64 {
	if f.Max != 0 {
		return f.Max
	}
	return (int64(1) << uint(f.Width)) - 1
}

func (f wf) scaled() bool { return f.Kind == kFreq100 || f.Kind == kFreqNC || f.Kind == kGPSTime }

// ---------------------------------------------------------------------------
// navigation in abstract values

func leaf(in *absint.Interp, v absint.Value, path string) absint.Value {
	cur := v
	for _, part := range strings.Split(path, ".") {
		if part == "" {
			continue
		}
		name, idx := part, -1
		if i := strings.Index(part, "["); i >= 0 {
			name = part[:i]
			idx, _ = strconv.Atoi(strings.TrimSuffix(part[i+1:], "]"))
		}
		if p, ok := cur.(*absint.Ptr); ok {
			cur = p.To.V
		}
		if name != "" {
			st, ok := cur.(*absint.Struct)
			if !ok {
				panic(absint.Unsupported{Why: fmt.Sprintf("path %s: %T is not a struct", path, cur)})
			}
			c := st.F[name]
			if c == nil {
				panic(absint.Unsupported{Why: fmt.Sprintf("path %s: no field %s", path, name)})
			}
			cur = c.V
		}
		if idx >= 0 {
			arr, ok := cur.(*absint.Array)
			if !ok || idx >= len(arr.E) {
				panic(absint.Unsupported{Why: fmt.Sprintf("path %s: not an array", path)})
			}
			cur = arr.E[idx].V
		}
	}
	return cur
}

func setLeaf(in *absint.Interp, v absint.Value, path string, nv absint.Value) {
	parts := strings.Split(path, ".")
	cur := v
	for i, part := range parts {
		if p, ok := cur.(*absint.Ptr); ok {
			cur = p.To.V
		}
		name, idx := part, -1
		if j := strings.Index(part, "["); j >= 0 {
			name = part[:j]
			idx, _ = strconv.Atoi(strings.TrimSuffix(part[j+1:], "]"))
		}
		st, ok := cur.(*absint.Struct)
		if !ok || st.F[name] == nil {
			panic(absint.Unsupported{Why: fmt.Sprintf("path %s: no field %s", path, name)})
		}
		last := i == len(parts)-1
		if idx < 0 {
			if last {
				st.F[name].V = nv
				return
			}
			cur = st.F[name].V
			continue
		}
		arr, ok := st.F[name].V.(*absint.Array)
		if !ok || idx >= len(arr.E) {
			panic(absint.Unsupported{Why: fmt.Sprintf("path %s: not an array", path)})
		}
		if last {
			arr.E[idx].V = nv
			return
		}
		cur = arr.E[idx].V
	}
}

func asBits(v absint.Value, what string) *absint.Bits {
	b, ok := v.(*absint.Bits)
	if !ok {
		panic(absint.Unsupported{Why: fmt.Sprintf("%s is %T, not an integer", what, v)})
	}
	return b
}

// wireBits flattens a byte slice value into bit functions: index 8*byte+bit.
func wireBits(s *absint.Slice) []absint.Node {
	var out []absint.Node
	for i := 0; i < s.Len(); i++ {
		out = append(out, asBits(s.At(i).V, "wire byte").Bits()...)
	}
	return out
}

// ---------------------------------------------------------------------------
// the codec harness

type codecRun struct {
	c    *Ctx
	in   *absint.Interp
	spec ws
	T    types.Type
	key  string
	pos  string
}

func typePos(c *Ctx, T types.Type) string {
	if n, ok := T.(*types.Named); ok {
		return c.Prog.Rel(n.Obj().Pos())
	}
	return ""
}

// unmarshalArgs adapts to the two decoder signatures: (data) and (uplink, data).
func unmarshalArgs(in *absint.Interp, T types.Type, data absint.Value, uplink bool) []absint.Value {
	obj, _, _ := types.LookupFieldOrMethod(types.NewPointer(T), true, nil, "UnmarshalBinary")
	if fn, ok := obj.(*types.Func); ok && fn.Type().(*types.Signature).Params().Len() == 2 {
		up := absint.False
		if uplink {
			up = absint.True
		}
		return []absint.Value{in.D.Bool(up), data}
	}
	return []absint.Value{data}
}

// specDomain builds a condition over the free field symbols.
//
//	representable=false: "every field lies in its armed specification range" (unarmed fields restricted to their
//	                     revision-independent core values);
//	representable=true:  "every field fits what the wire can carry" (width / unit / two's-complement range).
func specDomain(in *absint.Interp, val absint.Value, fields []wf, representable bool) absint.Node {
	d := in.D
	s := absint.True
	for _, f := range fields {
		switch f.Kind {
		case kUint:
			b := asBits(leaf(in, val, f.Path), f.Path)
			if f.RangeUnarmed && !representable {
				if len(f.Core) > 0 {
					c := absint.False
					for _, k := range f.Core {
						c = d.M.Or(c, d.Cmp(token.EQL, b, d.Const(k, b.W, b.Signed)))
					}
					s = d.M.And(s, c)
				}
				continue
			}
			max := f.max()
			if f.RangeUnarmed {
				max = (int64(1) << uint(f.Width)) - 1
			}
			s = d.M.And(s, d.Cmp(token.LEQ, b, d.Const(max, b.W, b.Signed)))
		case kEnum01:
			b := asBits(leaf(in, val, f.Path), f.Path)
			s = d.M.And(s, d.Cmp(token.LEQ, b, d.Const((int64(1)<<uint(f.Width))-1, b.W, b.Signed)))
			s = d.M.And(s, d.Cmp(token.GEQ, b, d.Const(0, b.W, b.Signed)))
		case kInt6:
			b := asBits(leaf(in, val, f.Path), f.Path)
			s = d.M.And(s, d.Cmp(token.GEQ, b, d.Const(-32, b.W, true)))
			s = d.M.And(s, d.Cmp(token.LEQ, b, d.Const(31, b.W, true)))
		case kFreq100, kFreqNC:
			b := asBits(leaf(in, val, f.Path), f.Path)
			if !b.Materialised() {
				continue // parametrised input: in range by construction
			}
			lim := d.Const(1<<24, 32, false)
			unit := func(k int64) absint.Node {
				return d.M.And(d.Cmp(token.EQL, d.DivModConst(b, k, true), d.Const(0, 32, false)), d.Cmp(token.LSS, d.DivModConst(b, k, false), lim))
			}
			sub := unit(100)
			if f.Kind == kFreqNC && representable {
				hi := d.Cmp(token.GEQ, b, d.Const(2400000000, 32, false))
				sub = d.M.Or(d.M.And(d.M.Not(hi), sub), d.M.And(hi, unit(200)))
			}
			s = d.M.And(s, sub)
		}
	}
	return s
}

// expectedWire builds, from the oracle, the bit functions the encoder must produce (nil = not compared).
func expectedWire(in *absint.Interp, spec ws, val absint.Value, params map[string]*absint.Bits) []absint.Node {
	n := spec.Size * 8
	exp := make([]absint.Node, n)
	set := make([]bool, n)
	put := func(pos int, nd absint.Node) {
		if pos < n {
			exp[pos] = nd
			set[pos] = true
		}
	}
	for _, f := range spec.Fields {
		base := f.Byte*8 + f.Bit
		switch f.Kind {
		case kUint, kBool, kEnum01, kInt6, kInt32:
			b := asBits(leaf(in, val, f.Path), f.Path).Bits()
			for i := 0; i < f.Width; i++ {
				if i < len(b) {
					put(base+i, b[i])
				} else {
					put(base+i, absint.False)
				}
			}
		case kBoolOr:
			or := absint.False
			for _, lp := range fieldLeaves(f) {
				or = in.D.M.Or(or, asBits(leaf(in, val, lp), lp).Bits()[0])
			}
			put(base, or)
		case kBoolArr:
			for i := 0; i < f.Width; i++ {
				put(base+i, asBits(leaf(in, val, fmt.Sprintf("%s[%d]", f.Path, i)), f.Path).Bits()[0])
			}
		case kBytes, kBytesRev:
			for i := 0; i < f.Width; i++ {
				src := i
				if f.Kind == kBytesRev {
					src = f.Width - 1 - i
				}
				b := asBits(leaf(in, val, fmt.Sprintf("%s[%d]", f.Path, src)), f.Path).Bits()
				for j := 0; j < 8; j++ {
					put(base+8*i+j, b[j])
				}
			}
		case kFreq100, kFreqNC:
			if q := params[f.Path]; q != nil {
				qb := q.Bits()
				for i := 0; i < 24; i++ {
					put(base+i, qb[i])
				}
			}
		case kGPSTime:
			if s := params[f.Path+"#sec"]; s != nil {
				sb, fb := s.Bits(), params[f.Path+"#frac"].Bits()
				for i := 0; i < 32; i++ {
					put(base+i, sb[i])
				}
				for i := 0; i < 8; i++ {
					put(base+32+i, fb[i])
				}
			}
		}
	}
	for _, r := range append(append([][2]int{}, spec.RFU...), spec.RFUSoft...) {
		put(r[0]*8+r[1], absint.False)
	}
	for i := range exp {
		if !set[i] {
			exp[i] = -1
		}
	}
	return exp
}

func sameValue(in *absint.Interp, a, b absint.Value, cond absint.Node) (bool, string) {
	x, ok1 := a.(*absint.Bits)
	y, ok2 := b.(*absint.Bits)
	if !ok1 || !ok2 {
		return false, fmt.Sprintf("%T vs %T", a, b)
	}
	if (!x.Materialised() || !y.Materialised()) && x.Lin != nil && y.Lin != nil {
		if absint.LinEqual(x.Lin, y.Lin) {
			return true, "equal linear forms"
		}
		if tx, ty, ok := absint.LinDiffPair(x.Lin, y.Lin); ok {
			n := len(tx.Vec)
			if len(ty.Vec) > n {
				n = len(ty.Vec)
			}
			xv := absint.MakeBits(n, tx.Signed, tx.Vec)
			yv := absint.MakeBits(n, ty.Signed, ty.Vec)
			okv, why := sameValue(in, xv, yv, cond)
			return okv, fmt.Sprintf("linear forms agree except for one %d-weighted term: %s", tx.Coeff, why)
		}
	}
	xb, yb := x.Bits(), y.Bits()
	if len(xb) != len(yb) {
		return false, fmt.Sprintf("width %d vs %d", len(xb), len(yb))
	}
	yb = unifyOpaque(in, xb, yb, cond)
	for i := range xb {
		diff := in.D.M.And(cond, in.D.M.Xor(xb[i], yb[i]))
		if diff != absint.False {
			return false, fmt.Sprintf("bit %d differs: got %s, want %s; e.g. %s%s", i, in.D.Describe(in.D.M.Simplify(xb[i], cond)), in.D.Describe(in.D.M.Simplify(yb[i], cond)), in.D.Witness(diff), explainOpaque(in, xb, yb, cond))
		}
	}
	return true, "bitwise identical under the accept condition"
}

// leaves enumerates the scalar leaves of a field per its kind (path, value).
func fieldLeaves(f wf) []string {
	switch f.Kind {
	case kBoolOr:
		return strings.Split(f.Path, "|")
	case kBoolArr, kBytes, kBytesRev:
		var out []string
		for i := 0; i < f.Width; i++ {
			out = append(out, fmt.Sprintf("%s[%d]", f.Path, i))
		}
		return out
	}
	return []string{f.Path}
}

// unifyOpaque rewrites `want` so that every uninterpreted-function result it mentions that is, under cond,
// applied to the same kind and the same argument bytes as one mentioned by `got` uses got's variables
// (congruence: equal arguments give equal results). Naming of opaque results is by raw BDD ids, so two terms
// that agree only under the path condition would otherwise look different.
func unifyOpaque(in *absint.Interp, got, want []absint.Node, cond absint.Node) []absint.Node {
	if in.OpaqueDesc == nil {
		return want
	}
	gi, wi := in.OpaqueIDsIn(got), in.OpaqueIDsIn(want)
	sub := map[int]absint.Node{}
	for w := range wi {
		if gi[w] {
			continue
		}
		wt := in.OpaqueDesc[w]
		for g := range gi {
			if wi[g] {
				continue
			}
			gt := in.OpaqueDesc[g]
			if gt.Kind != wt.Kind || len(gt.Inputs) != len(wt.Inputs) {
				continue
			}
			same := true
			for k := range gt.Inputs {
				if len(gt.Inputs[k]) != len(wt.Inputs[k]) {
					same = false
					break
				}
				for j := range gt.Inputs[k] {
					ok, _ := sameValueRaw(in, gt.Inputs[k][j], wt.Inputs[k][j], cond)
					if !ok {
						same = false
						break
					}
				}
				if !same {
					break
				}
			}
			if same {
				for v, n := range in.OpaqueSubst(w, g, 16) {
					sub[v] = n
				}
				break
			}
		}
	}
	if len(sub) == 0 {
		return want
	}
	out := make([]absint.Node, len(want))
	for i, n := range want {
		out[i] = in.D.M.Compose(n, sub)
	}
	return out
}

// sameValueRaw compares two abstract bytes bitwise under cond without opaque unification (used by it).
func sameValueRaw(in *absint.Interp, a, b absint.Value, cond absint.Node) (bool, string) {
	x, ok1 := a.(*absint.Bits)
	y, ok2 := b.(*absint.Bits)
	if !ok1 || !ok2 {
		return false, ""
	}
	xb, yb := x.Bits(), y.Bits()
	if len(xb) != len(yb) {
		return false, ""
	}
	for i := range xb {
		if in.D.M.And(cond, in.D.M.Xor(xb[i], yb[i])) != absint.False {
			return false, ""
		}
	}
	return true, ""
}

// explainOpaque: when both sides are built from one uninterpreted term of the same kind each, say which argument
// byte of the two terms differs (makes crypto mismatches diagnosable: "block byte 12: got 0, want fCnt[16..23]").
func explainOpaque(in *absint.Interp, got, want []absint.Node, cond absint.Node) string {
	if in.OpaqueDesc == nil {
		return ""
	}
	gi, wi := in.OpaqueIDsIn(got), in.OpaqueIDsIn(want)
	for g := range gi {
		if wi[g] {
			continue
		}
		for w := range wi {
			if gi[w] {
				continue
			}
			gt, wt := in.OpaqueDesc[g], in.OpaqueDesc[w]
			if gt.Kind != wt.Kind || len(gt.Inputs) != len(wt.Inputs) {
				continue
			}
			names := []string{"key", "block/message"}
			for k := range gt.Inputs {
				nm := fmt.Sprint("argument ", k)
				if k < len(names) {
					nm = names[k]
				}
				if len(gt.Inputs[k]) != len(wt.Inputs[k]) {
					return fmt.Sprintf(" [%s terms differ: %s has %d bytes, expected %d]", gt.Kind, nm, len(gt.Inputs[k]), len(wt.Inputs[k]))
				}
				for j := range gt.Inputs[k] {
					if ok, _ := sameValueRaw(in, gt.Inputs[k][j], wt.Inputs[k][j], cond); !ok {
						return fmt.Sprintf(" [%s terms differ at %s byte %d: got %s, expected %s]", gt.Kind, nm, j, in.Show(gt.Inputs[k][j]), in.Show(wt.Inputs[k][j]))
					}
				}
			}
		}
	}
	return ""
}
