package props

import (
	"encoding/json"
	"fmt"
	"go/ast"
	"go/constant"
	"go/token"
	"go/types"
	"golang.org/x/tools/go/ssa"
	"sort"
	"strconv"
	"strings"

	"lwverif/internal/load"
	"lwverif/internal/tables"
)

func init() { Register("C12", checkC12) }

func paramNames(fd *ast.FuncDecl) []string {
	var out []string
	for _, f := range fd.Type.Params.List {
		if len(f.Names) == 0 {
			out = append(out, "_")
		}
		for _, n := range f.Names {
			out = append(out, n.Name)
		}
	}
	return out
}

func checkC12(c *Ctx) {
	r := c.Run
	r.Exhaustive = true
	r.Explanation = "Decides the table and accessor clauses of C12 from source: every RX1 data-rate cell of every band configuration (literal tables read by conditional constant propagation over the constructors) is a defined downlink DR, rows are non-increasing with steps of at most one defined downlink DR over the region's positive offsets, cells equal max(DR-offset,0) or the transcribed row where the oracle defines them; the computed AS923 function and the RX1 channel-index accessors are specialised (constant-propagated on the AST, never compiled or executed) at every point of the finite index domain established by their own guards / by the evaluated channel tables and compared with the regional rule; ping-slot constants and the hopping expression's components (endianness, period, modulus, table) are matched against the oracle; and (rule R7, SSA guard analysis) every slice/array index by a signed int parameter in a Band method is dominated by a lower and an upper bound test. It does NOT decide lookup-by-frequency behaviour beyond its call structure, nor DevAddr/beacon-time numerics."
	r.Trusted = []string{"go/types constant evaluation", "internal/tables evaluator", "spec/regional.json transcription", "go/ssa dominator tree (R7)"}
	r.Assumptions = []string{"band values are obtained through band.GetConfig only", "a map lookup with a missing key yields ok=false (Go semantics) so map-keyed rows need no bound test"}
	r.Rule("R1.closure", "every RX1 DR cell is a defined downlink data-rate of that configuration")
	r.Rule("R2.shape", "over the region's positive offsets a row never increases and moves down by at most one defined downlink DR per offset")
	r.Rule("R3.formula", "cell = max(DR-offset,0) (formula bands) or = transcribed row (US915/AU915)")
	r.Rule("R4.as923", "AS923 computed RX1 DR = min(5,max(floor,DR-eff[offset])) on the guard-established domain; both arguments bounded on both sides")
	r.Rule("R5.rx1chan", "RX1 channel index accessor = identity or index mod N (N = number of downlink channels) for every uplink channel index; frequency accessor composes uplink-index -> rx1 index -> downlink table")
	r.Rule("R6.ping", "ping-slot frequency = regional constant, or (DevAddr big-endian + beaconTime/128s) mod 8 into the 8-entry table")
	r.Rule("R7.signedindex", "slice/array index by a signed int parameter in a Band method has dominating lower and upper guards")

	bands, err := c.Bands()
	if err != nil {
		r.Unknown("R0.load", "band.GetConfig", "", "band configurations evaluable", err.Error())
		return
	}
	for _, p := range bands.Problems {
		r.Unknown("R0.load", p, "", "constructor inside the evaluable subset", p)
	}
	reg, err := c.regional()
	if err != nil {
		r.Unknown("R0.load", "spec/regional.json", "", "oracle readable", err.Error())
		return
	}
	P := c.Prog
	for _, cfg := range bands.Configs {
		id := cfg.Short()
		r.Saw("configurations", cfg.ID())
		fam, ok := reg.Bands[family(cfg.Canon())]
		if !ok {
			r.Unknown("R0.load", id, "", "band present in spec/regional.json", "no oracle entry")
			continue
		}
		drs, err := cfg.DataRates()
		if err != nil {
			r.Unknown("R1.closure", id+"/dataRates", P.Rel(cfg.CtorDecl.Pos()), "dataRates literal", err.Error())
			continue
		}
		_, _, down := definedSets(drs)
		var downList []int
		for k := range down {
			downList = append(downList, k)
		}
		sort.Ints(downList)
		rank := map[int]int{}
		for i, d := range downList {
			rank[d] = i
		}
		rx1, rx1pos, err := cfg.RX1Table()
		if err != nil {
			r.Unknown("R1.closure", id+"/rx1", P.Rel(cfg.CtorDecl.Pos()), "rx1 table literal", err.Error())
			continue
		}
		owner := cfg.MethodOwner["GetRX1DataRateIndex"]
		if owner == "band" {
			// table-driven
			rows := make([]int, 0, len(rx1))
			for k := range rx1 {
				rows = append(rows, k)
			}
			sort.Ints(rows)
			r.Check(len(rows) > 0, "R1.closure", id+"/rx1/rows", P.Rel(cfg.CtorDecl.Pos()), "table-driven band has RX1 rows", fmt.Sprint(len(rows)), false)
			for _, k := range rows {
				row := rx1[k]
				for j, v := range row {
					r.Check(down[v], "R1.closure", fmt.Sprintf("%s/rx1/row%d/col%d", id, k, j), P.Rel(rx1pos[k]), "defined downlink DR "+fmt.Sprint(downList), fmt.Sprintf("DR%d", v), true)
				}
				n := fam.RX1DR.PosOffsets
				if n > len(row) {
					n = len(row)
				}
				for j := 1; j < n; j++ {
					a, b := row[j-1], row[j]
					ra, oka := rank[a]
					rb, okb := rank[b]
					if !oka || !okb {
						continue // closure already reported
					}
					r.Check(rb <= ra && ra-rb <= 1, "R2.shape", fmt.Sprintf("%s/rx1/row%d/col%d->%d", id, k, j-1, j), P.Rel(rx1pos[k]),
						"non-increasing, at most one defined downlink DR per offset step", fmt.Sprintf("DR%d -> DR%d (row %v)", a, b, row), a != b)
				}
			}
			switch fam.RX1DR.Kind {
			case "formula":
				for dr := fam.RX1DR.DRLo; dr <= fam.RX1DR.DRHi; dr++ {
					row, ok := rx1[dr]
					if !ok {
						r.Bad("R3.formula", fmt.Sprintf("%s/rx1/row%d", id, dr), P.Rel(cfg.CtorDecl.Pos()), "row present for uplink DR"+strconv.Itoa(dr), "missing")
						continue
					}
					for off := 0; off <= fam.RX1DR.OffHi; off++ {
						want := dr - off
						if want < 0 {
							want = 0
						}
						if off >= len(row) {
							r.Bad("R3.formula", fmt.Sprintf("%s/rx1/row%d/col%d", id, dr, off), P.Rel(rx1pos[dr]), fmt.Sprintf("DR%d", want), "row too short")
							continue
						}
						r.Check(row[off] == want, "R3.formula", fmt.Sprintf("%s/rx1/row%d/col%d", id, dr, off), P.Rel(rx1pos[dr]), fmt.Sprintf("max(%d-%d,0) = DR%d", dr, off, want), fmt.Sprintf("DR%d", row[off]), true)
					}
				}
			case "table":
				for ks, want := range fam.RX1DR.Rows {
					k, _ := strconv.Atoi(ks)
					got, ok := rx1[k]
					r.Check(ok && fmt.Sprint(got) == fmt.Sprint(want), "R3.formula", fmt.Sprintf("%s/rx1/row%d", id, k), P.Rel(rx1pos[k]), fmt.Sprint(want), fmt.Sprint(got), true)
				}
			}
		} else {
			c12AS923(c, bands, cfg, fam, down)
		}
		c12RX1Channel(c, bands, cfg, fam)
		c12Ping(c, bands, cfg, fam)
	}
	signedIndexRule(c, "R7.signedindex", "band", func(recv, meth string) bool {
		return strings.HasPrefix(meth, "GetRX1") || meth == "GetPingSlotFrequency" || meth == "GetDefaults"
	})
	c12LockStep(c)
	ruleFreshBands(c, "R9.fresh-tables")
}

// c12LockStep (R8): the RX1 channel of an uplink channel is found by index in the downlink table, so the two tables
// must grow together: in every function outside the constructors that appends to the uplink table, each return that
// the uplink append dominates is also dominated by an append to the downlink table.
func c12LockStep(c *Ctx) {
	r := c.Run
	P := c.Prog
	const rule = "R8.lockstep"
	r.Rule(rule, "outside the constructors an append to uplinkChannels is always accompanied by an append to downlinkChannels before the function returns (RX1 channels are found by index)")
	n := 0
	for _, f := range c15BandFunctions(c) {
		top := f
		for top.Parent() != nil {
			top = top.Parent()
		}
		if c15CtorRe.MatchString(top.Name()) || top.Name() == "init" {
			continue
		}
		var up, down []*ssa.Store
		for _, b := range f.Blocks {
			for _, ins := range b.Instrs {
				st, ok := ins.(*ssa.Store)
				if !ok {
					continue
				}
				fa, ok := st.Addr.(*ssa.FieldAddr)
				if !ok || !c15IsChannelSlice(st.Val.Type()) {
					continue
				}
				switch c15ChannelFieldName(fa) {
				case "uplinkChannels":
					up = append(up, st)
				case "downlinkChannels":
					down = append(down, st)
				}
			}
		}
		for i, u := range up {
			n++
			key := fmt.Sprintf("band.%s/uplink-append#%d", f.Name(), i+1)
			bad := ""
			for _, b := range f.Blocks {
				ret, ok := b.Instrs[len(b.Instrs)-1].(*ssa.Return)
				if !ok || !u.Block().Dominates(b) {
					continue
				}
				covered := false
				for _, d := range down {
					if d.Block().Dominates(b) {
						covered = true
					}
				}
				if !covered && bad == "" {
					bad = "return at " + P.Rel(ret.Pos()) + " follows the uplink append without a downlink append"
				}
			}
			r.Check(bad == "", rule, key, P.Rel(u.Pos()), "every return after the uplink append is also after a downlink append", bad, true)
		}
	}
	if n == 0 {
		r.Unknown(rule, "band", "", "a function that appends to uplinkChannels (AddChannel)", "none found")
	}
}

// guardDomain parses leading guards of the form `if p < a || p > b { return …, <non-nil> }` and returns the
// accepted interval per parameter.
func guardDomain(c *Ctx, fd *ast.FuncDecl, info *types.Info) map[string][2]*int {
	dom := map[string][2]*int{}
	for _, s := range fd.Body.List {
		ifs, ok := s.(*ast.IfStmt)
		if !ok || ifs.Init != nil || ifs.Else != nil {
			continue
		}
		// body must end in a return whose last result is not nil
		if len(ifs.Body.List) == 0 {
			continue
		}
		ret, ok := ifs.Body.List[len(ifs.Body.List)-1].(*ast.ReturnStmt)
		if !ok || len(ret.Results) == 0 {
			continue
		}
		if id, ok := ret.Results[len(ret.Results)-1].(*ast.Ident); ok && id.Name == "nil" {
			continue
		}
		var walk func(e ast.Expr) bool
		walk = func(e ast.Expr) bool {
			be, ok := e.(*ast.BinaryExpr)
			if !ok {
				return false
			}
			if be.Op == token.LOR {
				return walk(be.X) && walk(be.Y)
			}
			id, ok := be.X.(*ast.Ident)
			tv := info.Types[be.Y]
			if !ok || tv.Value == nil {
				return false
			}
			k, ok := constant.Int64Val(tv.Value)
			if !ok {
				return false
			}
			d := dom[id.Name]
			v := int(k)
			switch be.Op {
			case token.LSS: // p < k rejected -> p >= k
				d[0] = &v
			case token.LEQ:
				v++
				d[0] = &v
			case token.GTR: // p > k rejected -> p <= k
				d[1] = &v
			case token.GEQ:
				v--
				d[1] = &v
			default:
				return false
			}
			dom[id.Name] = d
			return true
		}
		walk(ifs.Cond)
	}
	return dom
}

func c12AS923(c *Ctx, bands *tables.Bands, cfg *tables.BandConfig, fam regBand, down map[int]bool) {
	r := c.Run
	P := c.Prog
	id := cfg.Short()
	fd := cfg.Methods["GetRX1DataRateIndex"]
	pos := P.Rel(fd.Pos())
	if fam.RX1DR.Kind != "computed" {
		r.Bad("R4.as923", id+"/GetRX1DataRateIndex", pos, "table-driven RX1 DR for this band (oracle kind "+fam.RX1DR.Kind+")", "band overrides GetRX1DataRateIndex")
		return
	}
	names := paramNames(fd)
	if len(names) != 2 {
		r.Unknown("R4.as923", id+"/GetRX1DataRateIndex", pos, "two parameters", fmt.Sprint(names))
		return
	}
	dom := guardDomain(c, fd, c.Prog.Pkg("band").TypesInfo)
	for _, n := range names {
		d := dom[n]
		r.Check(d[0] != nil && d[1] != nil, "R4.as923", id+"/GetRX1DataRateIndex/guard("+n+")", pos, "parameter rejected below and above a constant before use", fmt.Sprintf("lower=%v upper=%v", d[0] != nil, d[1] != nil), true)
		if d[0] == nil || d[1] == nil {
			return
		}
	}
	drD, offD := dom[names[0]], dom[names[1]]
	r.Check(*drD[0] == fam.RX1DR.DRLo && *drD[1] == fam.RX1DR.DRHi, "R4.as923", id+"/GetRX1DataRateIndex/domain(dr)", pos, fmt.Sprintf("[%d,%d]", fam.RX1DR.DRLo, fam.RX1DR.DRHi), fmt.Sprintf("[%d,%d]", *drD[0], *drD[1]), true)
	r.Check(*offD[0] == 0 && *offD[1] == len(fam.RX1DR.EffOffsets)-1, "R4.as923", id+"/GetRX1DataRateIndex/domain(offset)", pos, fmt.Sprintf("[0,%d]", len(fam.RX1DR.EffOffsets)-1), fmt.Sprintf("[%d,%d]", *offD[0], *offD[1]), true)
	floor := fam.RX1DR.FloorNoDw
	if cfg.Dwell400 {
		floor = fam.RX1DR.FloorDw400
	}
	for dr := *drD[0]; dr <= *drD[1]; dr++ {
		for off := *offD[0]; off <= *offD[1]; off++ {
			res, _, ok := bands.EvalMethod(cfg, "GetRX1DataRateIndex", map[string]tables.Value{names[0]: tables.Int{V: int64(dr)}, names[1]: tables.Int{V: int64(off)}})
			key := fmt.Sprintf("%s/GetRX1DataRateIndex(dr=%d,off=%d)", id, dr, off)
			if !ok || len(res) != 2 {
				r.Unknown("R4.as923", key, pos, "function inside the evaluable subset", fmt.Sprint(bands.Ev.Diag))
				continue
			}
			if off >= len(fam.RX1DR.EffOffsets) || off < 0 {
				continue
			}
			want := dr - fam.RX1DR.EffOffsets[off]
			if want < floor {
				want = floor
			}
			if want > fam.RX1DR.Cap {
				want = fam.RX1DR.Cap
			}
			got, okg := res[0].(tables.Int)
			_, errNil := res[1].(tables.Nil)
			r.Check(okg && errNil && int(got.V) == want && down[want], "R4.as923", key, pos, fmt.Sprintf("DR%d = min(%d,max(%d,%d-(%d))), nil", want, fam.RX1DR.Cap, floor, dr, fam.RX1DR.EffOffsets[off]), fmt.Sprintf("%s, %s", tables.Show(res[0]), tables.Show(res[1])), true)
		}
	}
}

func c12RX1Channel(c *Ctx, bands *tables.Bands, cfg *tables.BandConfig, fam regBand) {
	r := c.Run
	P := c.Prog
	id := cfg.Short()
	fd := cfg.Methods["GetRX1ChannelIndexForUplinkChannelIndex"]
	if fd == nil {
		r.Unknown("R5.rx1chan", id+"/GetRX1ChannelIndexForUplinkChannelIndex", "", "method present", "missing")
		return
	}
	pos := P.Rel(fd.Pos())
	up, err := cfg.Channels("uplinkChannels")
	dn, err2 := cfg.Channels("downlinkChannels")
	if err != nil || err2 != nil {
		r.Unknown("R5.rx1chan", id+"/channels", pos, "channel tables evaluable", fmt.Sprint(err, err2))
		return
	}
	mod := fam.rx1ChannelMod()
	if mod != 0 {
		r.Check(mod == len(dn), "R5.rx1chan", id+"/modulus=len(downlinkChannels)", pos, fmt.Sprintf("%d downlink channels", mod), fmt.Sprint(len(dn)), true)
	}
	names := paramNames(fd)
	if len(names) != 1 || names[0] == "_" {
		r.Unknown("R5.rx1chan", id+"/GetRX1ChannelIndexForUplinkChannelIndex", pos, "one named parameter", fmt.Sprint(names))
		return
	}
	bad := 0
	for i := range up {
		res, _, ok := bands.EvalMethod(cfg, "GetRX1ChannelIndexForUplinkChannelIndex", map[string]tables.Value{names[0]: tables.Int{V: int64(i)}})
		key := fmt.Sprintf("%s/GetRX1ChannelIndexForUplinkChannelIndex(%d)", id, i)
		if !ok || len(res) != 2 {
			r.Unknown("R5.rx1chan", key, pos, "accessor inside the evaluable subset", fmt.Sprint(bands.Ev.Diag))
			bad++
			continue
		}
		want := i
		if mod != 0 {
			want = i % mod
		}
		got, okg := res[0].(tables.Int)
		_, errNil := res[1].(tables.Nil)
		r.Check(okg && errNil && int(got.V) == want && want < len(dn), "R5.rx1chan", key, pos, fmt.Sprintf("%d, nil (existing downlink channel)", want), fmt.Sprintf("%s, %s", tables.Show(res[0]), tables.Show(res[1])), mod != 0)
	}
	// frequency accessor
	ff := cfg.Methods["GetRX1FrequencyForUplinkFrequency"]
	if ff == nil {
		r.Unknown("R5.rx1chan", id+"/GetRX1FrequencyForUplinkFrequency", "", "method present", "missing")
		return
	}
	fpos := P.Rel(ff.Pos())
	if mod == 0 {
		pn := paramNames(ff)
		if len(pn) != 1 || pn[0] == "_" {
			r.Unknown("R5.rx1chan", id+"/GetRX1FrequencyForUplinkFrequency", fpos, "one named parameter", fmt.Sprint(pn))
			return
		}
		// identity for every default uplink frequency
		for i, ch := range up {
			res, _, ok := bands.EvalMethod(cfg, "GetRX1FrequencyForUplinkFrequency", map[string]tables.Value{pn[0]: tables.Int{V: int64(ch.Freq)}})
			key := fmt.Sprintf("%s/GetRX1FrequencyForUplinkFrequency(ch%d)", id, i)
			if !ok || len(res) != 2 {
				r.Unknown("R5.rx1chan", key, fpos, "accessor inside the evaluable subset", fmt.Sprint(bands.Ev.Diag))
				continue
			}
			got, okg := res[0].(tables.Int)
			_, errNil := res[1].(tables.Nil)
			r.Check(okg && errNil && int(got.V) == dn[i].Freq, "R5.rx1chan", key, fpos, fmt.Sprintf("%d (downlink channel %d), nil", dn[i].Freq, i), fmt.Sprintf("%s, %s", tables.Show(res[0]), tables.Show(res[1])), false)
		}
		return
	}
	// composed form: structural dataflow check on the AST
	c12FreqComposition(c, cfg, ff)
}

// c12FreqComposition checks that in a %-band the frequency accessor is
// downlinkChannels[ GetRX1ChannelIndexForUplinkChannelIndex( GetUplinkChannelIndex(f, true) ) ].Frequency.
func c12FreqComposition(c *Ctx, cfg *tables.BandConfig, ff *ast.FuncDecl) {
	r := c.Run
	P := c.Prog
	info := c.Prog.Pkg("band").TypesInfo
	id := cfg.Short()
	fpos := P.Rel(ff.Pos())
	def := map[types.Object]*ast.CallExpr{}
	ast.Inspect(ff.Body, func(n ast.Node) bool {
		as, ok := n.(*ast.AssignStmt)
		if !ok || len(as.Rhs) != 1 {
			return true
		}
		call, ok := as.Rhs[0].(*ast.CallExpr)
		if !ok {
			return true
		}
		if lid, ok := as.Lhs[0].(*ast.Ident); ok {
			o := info.Defs[lid]
			if o == nil {
				o = info.Uses[lid]
			}
			if o != nil {
				if _, dup := def[o]; dup {
					def[o] = nil // reassigned: ambiguous
				} else {
					def[o] = call
				}
			}
		}
		return true
	})
	calleeName := func(call *ast.CallExpr) string {
		if sel, ok := call.Fun.(*ast.SelectorExpr); ok {
			return sel.Sel.Name
		}
		return ""
	}
	var final *ast.ReturnStmt
	for _, s := range ff.Body.List {
		if rs, ok := s.(*ast.ReturnStmt); ok {
			final = rs
		}
	}
	key := id + "/GetRX1FrequencyForUplinkFrequency/composition"
	if final == nil || len(final.Results) != 2 {
		r.Unknown("R5.rx1chan", key, fpos, "final return with two results", "not found")
		return
	}
	// result[0] = <recv>.downlinkChannels[idx].Frequency
	sel, ok := final.Results[0].(*ast.SelectorExpr)
	if !ok || sel.Sel.Name != "Frequency" {
		r.Unknown("R5.rx1chan", key, fpos, "return X.downlinkChannels[i].Frequency", types.ExprString(final.Results[0]))
		return
	}
	ix, ok := sel.X.(*ast.IndexExpr)
	if !ok {
		r.Unknown("R5.rx1chan", key, fpos, "indexed channel table", types.ExprString(sel.X))
		return
	}
	tsel, ok := ix.X.(*ast.SelectorExpr)
	tableOK := ok && tsel.Sel.Name == "downlinkChannels"
	r.Check(tableOK, "R5.rx1chan", key+"/table", P.Rel(ix.Pos()), "indexes downlinkChannels", types.ExprString(ix.X), true)
	iid, ok := ix.Index.(*ast.Ident)
	if !ok {
		r.Unknown("R5.rx1chan", key, fpos, "index is a local variable", types.ExprString(ix.Index))
		return
	}
	c1 := def[info.Uses[iid]]
	good1 := c1 != nil && calleeName(c1) == "GetRX1ChannelIndexForUplinkChannelIndex" && len(c1.Args) == 1
	r.Check(good1, "R5.rx1chan", key+"/rx1index", P.Rel(ix.Pos()), "index := GetRX1ChannelIndexForUplinkChannelIndex(uplinkIndex)", fmt.Sprint(c1 != nil && good1), true)
	if !good1 {
		return
	}
	aid, ok := c1.Args[0].(*ast.Ident)
	if !ok {
		r.Unknown("R5.rx1chan", key, fpos, "argument is a local variable", types.ExprString(c1.Args[0]))
		return
	}
	c2 := def[info.Uses[aid]]
	good2 := c2 != nil && calleeName(c2) == "GetUplinkChannelIndex" && len(c2.Args) == 2
	if good2 {
		// first arg is the frequency parameter, second the constant true (default channel)
		fid, ok := c2.Args[0].(*ast.Ident)
		pn := paramNames(ff)
		good2 = ok && len(pn) == 1 && fid.Name == pn[0]
		tv := info.Types[c2.Args[1]]
		good2 = good2 && tv.Value != nil && tv.Value.Kind() == constant.Bool && constant.BoolVal(tv.Value)
	}
	r.Check(good2, "R5.rx1chan", key+"/uplinkindex", P.Rel(ff.Pos()), "uplinkIndex := GetUplinkChannelIndex(frequency, true)", fmt.Sprint(good2), true)
}

func c12Ping(c *Ctx, bands *tables.Bands, cfg *tables.BandConfig, fam regBand) {
	r := c.Run
	P := c.Prog
	id := cfg.Short()
	fd := cfg.Methods["GetPingSlotFrequency"]
	if fd == nil {
		r.Unknown("R6.ping", id+"/GetPingSlotFrequency", "", "method present", "missing")
		return
	}
	pos := P.Rel(fd.Pos())
	pg := fam.ping()
	off := 0
	if fam.Uplink.OffsetBy != nil {
		off = fam.Uplink.OffsetBy[cfg.Canon()]
	}
	if pg.Fixed != nil {
		res, _, ok := bands.EvalMethod(cfg, "GetPingSlotFrequency", nil)
		if !ok || len(res) != 2 {
			r.Unknown("R6.ping", id+"/GetPingSlotFrequency", pos, "constant result", fmt.Sprint(bands.Ev.Diag))
			return
		}
		got, okg := res[0].(tables.Int)
		_, errNil := res[1].(tables.Nil)
		r.Check(okg && errNil && int(got.V) == *pg.Fixed+off, "R6.ping", id+"/GetPingSlotFrequency", pos, fmt.Sprintf("%d Hz, nil", *pg.Fixed+off), fmt.Sprintf("%s, %s", tables.Show(res[0]), tables.Show(res[1])), true)
		return
	}
	if pg.Hop == nil {
		r.Unknown("R6.ping", id+"/GetPingSlotFrequency", pos, "oracle entry", "neither fixed nor hop")
		return
	}
	info := c.Prog.Pkg("band").TypesInfo
	key := id + "/GetPingSlotFrequency/hop"
	// locate the single % expression: in the method itself or in a helper of package band that it calls
	findRems := func(body *ast.BlockStmt) []*ast.BinaryExpr {
		var out []*ast.BinaryExpr
		ast.Inspect(body, func(n ast.Node) bool {
			if be, ok := n.(*ast.BinaryExpr); ok && be.Op == token.REM {
				out = append(out, be)
			}
			return true
		})
		return out
	}
	hopFn := fd
	var helperCall *ast.CallExpr
	rems := findRems(fd.Body)
	if len(rems) == 0 {
		ast.Inspect(fd.Body, func(n ast.Node) bool {
			call, ok := n.(*ast.CallExpr)
			if !ok || helperCall != nil {
				return true
			}
			if fn := calleeFunc(info, call); fn != nil && fn.Pkg() == c.Prog.Pkg("band").Types {
				for _, cand := range load.AllFuncDecls(c.Prog.Pkg("band")) {
					if info.Defs[cand.Name] == fn {
						if rr := findRems(cand.Body); len(rr) == 1 {
							hopFn, helperCall, rems = cand, call, rr
						}
					}
				}
			}
			return true
		})
	}
	if len(rems) != 1 {
		r.Unknown("R6.ping", key, pos, "exactly one modulo expression (in the method or a helper it calls)", fmt.Sprint(len(rems)))
		return
	}
	rem := rems[0]
	mv := info.Types[rem.Y].Value
	if mv == nil && helperCall != nil {
		// modulus passed as a helper parameter: take the constant argument at the call site
		if mid, ok := unparen(stripConv(info, rem.Y)).(*ast.Ident); ok && hopFn.Type.Params != nil {
			idx := 0
			for _, f := range hopFn.Type.Params.List {
				for _, nm := range f.Names {
					if info.Defs[nm] == info.Uses[mid] && idx < len(helperCall.Args) {
						mv = info.Types[helperCall.Args[idx]].Value
					}
					idx++
				}
			}
		}
	}
	if mv == nil {
		r.Unknown("R6.ping", key, pos, "constant modulus", types.ExprString(rem.Y))
		return
	}
	m, _ := constant.Int64Val(mv)
	r.Check(int(m) == pg.Hop.Mod, "R6.ping", key+"/modulus", P.Rel(rem.Pos()), fmt.Sprint(pg.Hop.Mod), fmt.Sprint(m), true)
	sum, ok := unparen(rem.X).(*ast.BinaryExpr)
	if !ok || sum.Op != token.ADD {
		r.Unknown("R6.ping", key, pos, "(a + b) % m", types.ExprString(rem.X))
		return
	}
	// operands: int(binary.BigEndian.Uint32(devAddr[:])) and int(beaconTime / C)
	var sawAddr, sawTime bool
	if t := info.TypeOf(sum); t != nil {
		// The sum is exact modulo m when it is formed in an unsigned type whose width the power-of-two modulus
		// divides (wrap-around is invisible modulo m), or in a signed type of at least 64 bits (no wrap for a
		// 32-bit address plus a beacon count). Judged for both word sizes the library builds for.
		okAll, got := true, t.String()
		for _, arch := range []string{"amd64", "386"} {
			sz := types.SizesFor("gc", arch).Sizeof(t) * 8
			bt, _ := t.Underlying().(*types.Basic)
			unsigned := bt != nil && bt.Info()&types.IsUnsigned != 0
			pow2 := m > 0 && m&(m-1) == 0
			if !((unsigned && pow2 && sz >= 32) || (!unsigned && sz >= 64)) {
				okAll = false
				got = fmt.Sprintf("%s (%d bits on %s)", t.String(), sz, arch)
			}
		}
		r.Check(okAll, "R6.ping", key+"/width", P.Rel(sum.Pos()), "DevAddr + beacon periods formed without a sign wrap: unsigned >= 32 bits with a power-of-two modulus, or signed >= 64 bits, on every supported word size (a 32-bit signed sum is negative for DevAddr >= 0x80000000 and indexes the table out of range)", got, true)
	}
	for _, op := range []ast.Expr{sum.X, sum.Y} {
		inner := stripConv(info, op)
		// a local defined once by := stands for its defining expression
		if lid, ok := inner.(*ast.Ident); ok {
			var defs []ast.Expr
			ast.Inspect(hopFn.Body, func(n ast.Node) bool {
				if as, ok := n.(*ast.AssignStmt); ok && len(as.Lhs) == 1 && len(as.Rhs) == 1 {
					if l, ok := as.Lhs[0].(*ast.Ident); ok && (info.Defs[l] == info.Uses[lid] || info.Uses[l] == info.Uses[lid]) && info.Uses[lid] != nil {
						defs = append(defs, as.Rhs[0])
					}
				}
				return true
			})
			if len(defs) == 1 {
				inner = stripConv(info, defs[0])
			}
		}
		switch x := inner.(type) {
		case *ast.CallExpr:
			// endian decode of the DevAddr parameter
			fn := calleeFunc(info, x)
			if fn == nil || fn.Pkg() == nil || fn.Pkg().Path() != "encoding/binary" {
				r.Unknown("R6.ping", key, pos, "encoding/binary decode of DevAddr", types.ExprString(x))
				return
			}
			recv := ""
			if sig, ok := fn.Type().(*types.Signature); ok && sig.Recv() != nil {
				recv = sig.Recv().Type().String()
			}
			r.Check(fn.Name() == "Uint32" && recv == "encoding/binary.bigEndian", "R6.ping", key+"/devaddr", P.Rel(x.Pos()), "binary.BigEndian.Uint32(DevAddr[:]) — DevAddr arrays are stored most-significant byte first", recv+"."+fn.Name(), true)
			// argument must be the full slice of the DevAddr parameter
			argOK := false
			if len(x.Args) == 1 {
				if se, ok := x.Args[0].(*ast.SliceExpr); ok && se.Low == nil && se.High == nil {
					if pid, ok := se.X.(*ast.Ident); ok {
						if v, ok := info.Uses[pid].(*types.Var); ok && v.Type().String() == "github.com/brocaar/lorawan.DevAddr" {
							argOK = true
						}
					}
				}
			}
			r.Check(argOK, "R6.ping", key+"/devaddr-arg", P.Rel(x.Pos()), "whole DevAddr parameter", types.ExprString(x.Args[0]), true)
			sawAddr = true
		case *ast.BinaryExpr:
			if x.Op != token.QUO {
				r.Unknown("R6.ping", key, pos, "beaconTime / period", types.ExprString(x))
				return
			}
			dv := info.Types[x.Y].Value
			pid, okp := x.X.(*ast.Ident)
			good := dv != nil && okp
			if good {
				d, _ := constant.Int64Val(dv)
				v, isVar := info.Uses[pid].(*types.Var)
				good = d == 128_000_000_000 && isVar && v.Type().String() == "time.Duration"
			}
			r.Check(good, "R6.ping", key+"/period", P.Rel(x.Pos()), "beaconTime (time.Duration parameter) / 128 s", types.ExprString(x), true)
			sawTime = true
		default:
			r.Unknown("R6.ping", key, pos, "recognised operand", types.ExprString(op))
			return
		}
	}
	r.Check(sawAddr && sawTime, "R6.ping", key+"/operands", pos, "DevAddr term + beacon-period term", fmt.Sprintf("addr=%v time=%v", sawAddr, sawTime), true)
	// the table indexed by the result
	var tableDesc string
	tableOK := false
	var hopVar types.Object
	ast.Inspect(hopFn.Body, func(n ast.Node) bool {
		if as, ok := n.(*ast.AssignStmt); ok && len(as.Rhs) == 1 && unparen(as.Rhs[0]) == ast.Expr(rem) {
			if lid, ok := as.Lhs[0].(*ast.Ident); ok {
				hopVar = info.Defs[lid]
			}
		}
		return true
	})
	if helperCall != nil {
		// the helper must return the hop value; in the method the index is the helper's result
		retOK := false
		ast.Inspect(hopFn.Body, func(n ast.Node) bool {
			if rs, ok := n.(*ast.ReturnStmt); ok && len(rs.Results) >= 1 {
				e := stripConv(info, rs.Results[0])
				if e == ast.Expr(rem) {
					retOK = true
				}
				if rid, ok := e.(*ast.Ident); ok && hopVar != nil && info.Uses[rid] == hopVar {
					retOK = true
				}
			}
			return true
		})
		r.Check(retOK, "R6.ping", key+"/helper-returns-hop", P.Rel(hopFn.Pos()), "helper returns the hop value", fmt.Sprint(retOK), true)
		hopVar = nil
		ast.Inspect(fd.Body, func(n ast.Node) bool {
			if as, ok := n.(*ast.AssignStmt); ok && len(as.Rhs) == 1 && unparen(as.Rhs[0]) == ast.Expr(helperCall) {
				if lid, ok := as.Lhs[0].(*ast.Ident); ok {
					hopVar = info.Defs[lid]
				}
			}
			return true
		})
	}
	var final *ast.ReturnStmt
	for _, s := range fd.Body.List {
		if rs, ok := s.(*ast.ReturnStmt); ok {
			final = rs
		}
	}
	if final == nil || len(final.Results) != 2 {
		r.Unknown("R6.ping", key, pos, "final return", "not found")
		return
	}
	res0 := final.Results[0]
	if sel, ok := res0.(*ast.SelectorExpr); ok && sel.Sel.Name == "Frequency" {
		res0 = sel.X
		tableDesc = ".Frequency of "
	}
	ix, ok := res0.(*ast.IndexExpr)
	if !ok {
		r.Unknown("R6.ping", key, pos, "indexed table", types.ExprString(final.Results[0]))
		return
	}
	iid, ok := ix.Index.(*ast.Ident)
	idxOK := ok && hopVar != nil && info.Uses[iid] == hopVar
	if helperCall != nil && unparen(ix.Index) == ast.Expr(helperCall) {
		idxOK = true
	}
	r.Check(idxOK, "R6.ping", key+"/index", P.Rel(ix.Pos()), "table indexed by the hop expression", types.ExprString(ix.Index), true)
	var wantTab string
	var wantList []int
	if json.Unmarshal(pg.Hop.Table, &wantTab) == nil && wantTab == "downlink" {
		tsel, ok := ix.X.(*ast.SelectorExpr)
		tableOK = ok && tsel.Sel.Name == "downlinkChannels" && tableDesc != ""
		dn, err := cfg.Channels("downlinkChannels")
		tableOK = tableOK && err == nil && len(dn) == pg.Hop.Mod
		r.Check(tableOK, "R6.ping", key+"/table", P.Rel(ix.Pos()), fmt.Sprintf("downlinkChannels (%d entries).Frequency", pg.Hop.Mod), tableDesc+types.ExprString(ix.X), true)
	} else if json.Unmarshal(pg.Hop.Table, &wantList) == nil {
		v := bands.Ev.Eval(ix.X, tables.NewEnv(nil))
		sl, ok := v.(*tables.Slice)
		good := ok && len(sl.Elems) == len(wantList) && tableDesc == ""
		if good {
			for i, e := range sl.Elems {
				if n, ok := tables.AsInt(e); !ok || n != wantList[i] {
					good = false
				}
			}
		}
		r.Check(good, "R6.ping", key+"/table", P.Rel(ix.Pos()), fmt.Sprint(wantList), tables.Show(v), true)
	}
}

func minInt(a, b int) int {
	if a < b {
		return a
	}
	return b
}

func unparen(e ast.Expr) ast.Expr {
	for {
		p, ok := e.(*ast.ParenExpr)
		if !ok {
			return e
		}
		e = p.X
	}
}

// stripConv removes parentheses and type conversions.
func stripConv(info *types.Info, e ast.Expr) ast.Expr {
	for {
		e = unparen(e)
		call, ok := e.(*ast.CallExpr)
		if !ok || len(call.Args) != 1 {
			return e
		}
		if tv, ok := info.Types[call.Fun]; ok && tv.IsType() {
			e = call.Args[0]
			continue
		}
		return e
	}
}

func calleeFunc(info *types.Info, call *ast.CallExpr) *types.Func {
	switch f := unparen(call.Fun).(type) {
	case *ast.Ident:
		fn, _ := info.Uses[f].(*types.Func)
		return fn
	case *ast.SelectorExpr:
		fn, _ := info.Uses[f.Sel].(*types.Func)
		return fn
	}
	return nil
}
