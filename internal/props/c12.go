package props

import (
	"fmt"
	"go/ast"
	"go/constant"
	"go/token"
	"go/types"
	"golang.org/x/tools/go/ssa"
	"sort"
	"strconv"
	"strings"

	"lwverif/internal/tables"
)

func init() { Register("C12", checkC12) }

func paramNames(fd *ast.FuncDecl) []string {
	var out []string
	for _, f := range fd.Type.Params.List {
		if len(f.Names) == 0 {
			out = append(out, "_")
		}
		for _, n := range f.Names {
			out = append(out, n.Name)
		}
	}
	return out
}

func checkC12(c *Ctx) {
	r := c.Run
	r.Exhaustive = true
	r.Explanation = "Decides the table and accessor clauses of C12 from source: every RX1 data-rate cell of every band configuration (literal tables read by conditional constant propagation over the constructors) is a defined downlink DR, rows are non-increasing with steps of at most one defined downlink DR over the region's positive offsets, cells equal max(DR-offset,0) or the transcribed row where the oracle defines them; the computed AS923 function and the RX1 channel-index accessors are specialised (constant-propagated on the AST, never compiled or executed) at every point of the finite index domain established by their own guards / by the evaluated channel tables and compared with the regional rule; ping-slot constants and the hopping expression's components (endianness, period, modulus, table) are matched against the oracle; and (rule R7, SSA guard analysis) every slice/array index by a signed int parameter in a Band method is dominated by a lower and an upper bound test. It does NOT decide lookup-by-frequency behaviour beyond its call structure, nor DevAddr/beacon-time numerics."
	r.Trusted = []string{"go/types constant evaluation", "internal/tables evaluator", "spec/regional.json transcription", "go/ssa dominator tree (R7)"}
	r.Assumptions = []string{"band values are obtained through band.GetConfig only", "a map lookup with a missing key yields ok=false (Go semantics) so map-keyed rows need no bound test"}
	r.Rule("R1.closure", "every RX1 DR cell is a defined downlink data-rate of that configuration")
	r.Rule("R2.shape", "over the region's positive offsets a row never increases and moves down by at most one defined downlink DR per offset")
	r.Rule("R3.formula", "cell = max(DR-offset,0) (formula bands) or = transcribed row (US915/AU915)")
	r.Rule("R10.rx1-total", "GetRX1DataRateIndex evaluated at every point of uplink DR -2..17 x offset -2..9 of every configuration: never indexes out of range (an error, not a panic, outside what the region defines) and returns only defined downlink data rates")
	r.Rule("R4.as923", "AS923 computed RX1 DR = min(5,max(floor,DR-eff[offset])) on the guard-established domain; both arguments bounded on both sides")
	r.Rule("R5.rx1chan", "RX1 channel index accessor = identity or index mod N (N = number of downlink channels) for every uplink channel index; in the same-frequency regions the frequency accessor is the identity on every default channel")
	r.Rule("R6.ping", "fixed ping-slot regions: the accessor evaluates to the regional constant (hopping regions: R6.ping-e1)")
	r.Rule("R7.signedindex", "slice/array index by a signed int parameter in a Band method has dominating lower and upper guards")

	bands, err := c.Bands()
	if err != nil {
		r.Unknown("R0.load", "band.GetConfig", "", "band configurations evaluable", err.Error())
		return
	}
	for _, p := range bands.Problems {
		r.Unknown("R0.load", p, "", "constructor inside the evaluable subset", p)
	}
	reg, err := c.regional()
	if err != nil {
		r.Unknown("R0.load", "spec/regional.json", "", "oracle readable", err.Error())
		return
	}
	P := c.Prog
	for _, cfg := range bands.Configs {
		id := cfg.Short()
		r.Saw("configurations", cfg.ID())
		fam, ok := reg.Bands[family(cfg.Canon())]
		if !ok {
			r.Unknown("R0.load", id, "", "band present in spec/regional.json", "no oracle entry")
			continue
		}
		drs, err := cfg.DataRates()
		if err != nil {
			r.Unknown("R1.closure", id+"/dataRates", P.Rel(cfg.CtorDecl.Pos()), "dataRates literal", err.Error())
			continue
		}
		_, _, down := definedSets(drs)
		var downList []int
		for k := range down {
			downList = append(downList, k)
		}
		sort.Ints(downList)
		rank := map[int]int{}
		for i, d := range downList {
			rank[d] = i
		}
		rx1, rx1pos, err := cfg.RX1Table()
		if err != nil {
			r.Unknown("R1.closure", id+"/rx1", P.Rel(cfg.CtorDecl.Pos()), "rx1 table literal", err.Error())
			continue
		}
		c12RX1Total(c, bands, cfg, down)
		owner := cfg.MethodOwner["GetRX1DataRateIndex"]
		if owner == "band" {
			// table-driven
			rows := make([]int, 0, len(rx1))
			for k := range rx1 {
				rows = append(rows, k)
			}
			sort.Ints(rows)
			r.Check(len(rows) > 0, "R1.closure", id+"/rx1/rows", P.Rel(cfg.CtorDecl.Pos()), "table-driven band has RX1 rows", fmt.Sprint(len(rows)), false)
			for _, k := range rows {
				row := rx1[k]
				for j, v := range row {
					r.Check(down[v], "R1.closure", fmt.Sprintf("%s/rx1/row%d/col%d", id, k, j), P.Rel(rx1pos[k]), "defined downlink DR "+fmt.Sprint(downList), fmt.Sprintf("DR%d", v), true)
				}
				n := fam.RX1DR.PosOffsets
				if n > len(row) {
					n = len(row)
				}
				for j := 1; j < n; j++ {
					a, b := row[j-1], row[j]
					ra, oka := rank[a]
					rb, okb := rank[b]
					if !oka || !okb {
						continue // closure already reported
					}
					r.Check(rb <= ra && ra-rb <= 1, "R2.shape", fmt.Sprintf("%s/rx1/row%d/col%d->%d", id, k, j-1, j), P.Rel(rx1pos[k]),
						"non-increasing, at most one defined downlink DR per offset step", fmt.Sprintf("DR%d -> DR%d (row %v)", a, b, row), a != b)
				}
			}
			switch fam.RX1DR.Kind {
			case "formula":
				for dr := fam.RX1DR.DRLo; dr <= fam.RX1DR.DRHi; dr++ {
					row, ok := rx1[dr]
					if !ok {
						r.Bad("R3.formula", fmt.Sprintf("%s/rx1/row%d", id, dr), P.Rel(cfg.CtorDecl.Pos()), "row present for uplink DR"+strconv.Itoa(dr), "missing")
						continue
					}
					for off := 0; off <= fam.RX1DR.OffHi; off++ {
						want := dr - off
						if want < 0 {
							want = 0
						}
						if off >= len(row) {
							r.Bad("R3.formula", fmt.Sprintf("%s/rx1/row%d/col%d", id, dr, off), P.Rel(rx1pos[dr]), fmt.Sprintf("DR%d", want), "row too short")
							continue
						}
						r.Check(row[off] == want, "R3.formula", fmt.Sprintf("%s/rx1/row%d/col%d", id, dr, off), P.Rel(rx1pos[dr]), fmt.Sprintf("max(%d-%d,0) = DR%d", dr, off, want), fmt.Sprintf("DR%d", row[off]), true)
					}
				}
			case "table":
				for ks, want := range fam.RX1DR.Rows {
					k, _ := strconv.Atoi(ks)
					got, ok := rx1[k]
					r.Check(ok && fmt.Sprint(got) == fmt.Sprint(want), "R3.formula", fmt.Sprintf("%s/rx1/row%d", id, k), P.Rel(rx1pos[k]), fmt.Sprint(want), fmt.Sprint(got), true)
				}
			}
		} else {
			c12AS923(c, bands, cfg, fam, down)
		}
		c12RX1Channel(c, bands, cfg, fam)
		c12Ping(c, bands, cfg, fam)
	}
	// the accessors it looks at are evaluated point by point (R10 on a margin grid, R5 on every channel index) and
	// interpreted on symbolic arguments (R5.rx1freq-e1, R6.ping-e1), where an out-of-range index is a refutation; the
	// dominating-guard reading is a second opinion whose "not recognised" is a note
	c.Run.Advisory("R7.signedindex", "R10.rx1-total", "R5.rx1chan", "R5.rx1freq-e1", "R6.ping-e1")
	signedIndexRule(c, "R7.signedindex", "band", func(recv, meth string) bool {
		return strings.HasPrefix(meth, "GetRX1") || meth == "GetPingSlotFrequency" || meth == "GetDefaults"
	})
	c12LockStep(c)
	ruleFreshBands(c, "R9.fresh-tables")
	c12PingE1(c, bands)
	c12RX1FreqE1(c, bands)
}

// c12LockStep (R8): the RX1 channel of an uplink channel is found by index in the downlink table, so the two tables
// must grow together: in every function outside the constructors that appends to the uplink table, each return that
// the uplink append dominates is also dominated by an append to the downlink table.
func c12LockStep(c *Ctx) {
	r := c.Run
	P := c.Prog
	const rule = "R8.lockstep"
	r.Rule(rule, "outside the constructors an append to uplinkChannels is always accompanied by an append to downlinkChannels before the function returns (RX1 channels are found by index)")
	n := 0
	for _, f := range c15BandFunctions(c) {
		top := f
		for top.Parent() != nil {
			top = top.Parent()
		}
		if c15CtorRe.MatchString(top.Name()) || top.Name() == "init" {
			continue
		}
		var up, down []*ssa.Store
		for _, b := range f.Blocks {
			for _, ins := range b.Instrs {
				st, ok := ins.(*ssa.Store)
				if !ok {
					continue
				}
				fa, ok := st.Addr.(*ssa.FieldAddr)
				if !ok || !c15IsChannelSlice(st.Val.Type()) {
					continue
				}
				switch c15ChannelFieldName(fa) {
				case "uplinkChannels":
					up = append(up, st)
				case "downlinkChannels":
					down = append(down, st)
				}
			}
		}
		for i, u := range up {
			n++
			key := fmt.Sprintf("band.%s/uplink-append#%d", f.Name(), i+1)
			bad := ""
			for _, b := range f.Blocks {
				ret, ok := b.Instrs[len(b.Instrs)-1].(*ssa.Return)
				if !ok || !u.Block().Dominates(b) {
					continue
				}
				covered := false
				for _, d := range down {
					if d.Block().Dominates(b) {
						covered = true
					}
				}
				if !covered && bad == "" {
					bad = "return at " + P.Rel(ret.Pos()) + " follows the uplink append without a downlink append"
				}
			}
			r.Check(bad == "", rule, key, P.Rel(u.Pos()), "every return after the uplink append is also after a downlink append", bad, true)
		}
	}
	if n == 0 {
		r.Unknown(rule, "band", "", "a function that appends to uplinkChannels (AddChannel)", "none found")
	}
}

// guardDomain parses leading guards of the form `if p < a || p > b { return …, <non-nil> }` and returns the
// accepted interval per parameter.
func guardDomain(c *Ctx, fd *ast.FuncDecl, info *types.Info) map[string][2]*int {
	dom := map[string][2]*int{}
	for _, s := range fd.Body.List {
		ifs, ok := s.(*ast.IfStmt)
		if !ok || ifs.Init != nil || ifs.Else != nil {
			continue
		}
		// body must end in a return whose last result is not nil
		if len(ifs.Body.List) == 0 {
			continue
		}
		ret, ok := ifs.Body.List[len(ifs.Body.List)-1].(*ast.ReturnStmt)
		if !ok || len(ret.Results) == 0 {
			continue
		}
		if id, ok := ret.Results[len(ret.Results)-1].(*ast.Ident); ok && id.Name == "nil" {
			continue
		}
		var walk func(e ast.Expr) bool
		walk = func(e ast.Expr) bool {
			be, ok := e.(*ast.BinaryExpr)
			if !ok {
				return false
			}
			if be.Op == token.LOR {
				return walk(be.X) && walk(be.Y)
			}
			id, ok := be.X.(*ast.Ident)
			tv := info.Types[be.Y]
			if !ok || tv.Value == nil {
				return false
			}
			k, ok := constant.Int64Val(tv.Value)
			if !ok {
				return false
			}
			d := dom[id.Name]
			v := int(k)
			switch be.Op {
			case token.LSS: // p < k rejected -> p >= k
				d[0] = &v
			case token.LEQ:
				v++
				d[0] = &v
			case token.GTR: // p > k rejected -> p <= k
				d[1] = &v
			case token.GEQ:
				v--
				d[1] = &v
			default:
				return false
			}
			dom[id.Name] = d
			return true
		}
		walk(ifs.Cond)
	}
	return dom
}

func c12AS923(c *Ctx, bands *tables.Bands, cfg *tables.BandConfig, fam regBand, down map[int]bool) {
	r := c.Run
	P := c.Prog
	id := cfg.Short()
	fd := cfg.Methods["GetRX1DataRateIndex"]
	pos := P.Rel(fd.Pos())
	if fam.RX1DR.Kind != "computed" {
		r.Bad("R4.as923", id+"/GetRX1DataRateIndex", pos, "table-driven RX1 DR for this band (oracle kind "+fam.RX1DR.Kind+")", "band overrides GetRX1DataRateIndex")
		return
	}
	names := paramNames(fd)
	if len(names) != 2 {
		r.Unknown("R4.as923", id+"/GetRX1DataRateIndex", pos, "two parameters", fmt.Sprint(names))
		return
	}
	// The accepted domain. The guard matcher reads `if p < a || p > b { return …, err }` statements; where the guards
	// are written another way (a tagless switch, a helper) the domain is not read off the syntax but decided pointwise
	// by evaluation: every point of the specified domain must yield the specified data rate, every point of a margin
	// around it must be rejected with an error.
	dom := guardDomain(c, fd, c.Prog.Pkg("band").TypesInfo)
	recognised := true
	for _, n := range names {
		if d := dom[n]; d[0] == nil || d[1] == nil {
			recognised = false
		}
	}
	drLo, drHi, offLo, offHi := fam.RX1DR.DRLo, fam.RX1DR.DRHi, 0, len(fam.RX1DR.EffOffsets)-1
	if recognised {
		for _, n := range names {
			r.OK("R4.as923", id+"/GetRX1DataRateIndex/guard("+n+")", pos, "parameter rejected below and above a constant before use", "lower=true upper=true", true)
		}
		drD, offD := dom[names[0]], dom[names[1]]
		r.Check(*drD[0] == drLo && *drD[1] == drHi, "R4.as923", id+"/GetRX1DataRateIndex/domain(dr)", pos, fmt.Sprintf("[%d,%d]", drLo, drHi), fmt.Sprintf("[%d,%d]", *drD[0], *drD[1]), true)
		r.Check(*offD[0] == offLo && *offD[1] == offHi, "R4.as923", id+"/GetRX1DataRateIndex/domain(offset)", pos, fmt.Sprintf("[0,%d]", offHi), fmt.Sprintf("[%d,%d]", *offD[0], *offD[1]), true)
	}
	floor := fam.RX1DR.FloorNoDw
	if cfg.Dwell400 {
		floor = fam.RX1DR.FloorDw400
	}
	for dr := drLo - 2; dr <= drHi+2; dr++ {
		for off := offLo - 2; off <= offHi+2; off++ {
			inRange := dr >= drLo && dr <= drHi && off >= offLo && off <= offHi
			if !inRange && recognised {
				continue // the recognised guards already decide the margin
			}
			res, _, ok := bands.EvalMethod(cfg, "GetRX1DataRateIndex", map[string]tables.Value{names[0]: tables.Int{V: int64(dr)}, names[1]: tables.Int{V: int64(off)}})
			key := fmt.Sprintf("%s/GetRX1DataRateIndex(dr=%d,off=%d)", id, dr, off)
			if !ok || len(res) != 2 {
				r.Unknown("R4.as923", key, pos, "function inside the evaluable subset", fmt.Sprint(bands.Ev.Diag))
				continue
			}
			_, errNil := res[1].(tables.Nil)
			if !inRange {
				r.Check(!errNil, "R4.as923", key+"/rejected", pos, "an error (outside the specified domain)", fmt.Sprintf("%s, %s", tables.Show(res[0]), tables.Show(res[1])), true)
				continue
			}
			want := dr - fam.RX1DR.EffOffsets[off]
			if want < floor {
				want = floor
			}
			if want > fam.RX1DR.Cap {
				want = fam.RX1DR.Cap
			}
			got, okg := res[0].(tables.Int)
			r.Check(okg && errNil && int(got.V) == want && down[want], "R4.as923", key, pos, fmt.Sprintf("DR%d = min(%d,max(%d,%d-(%d))), nil", want, fam.RX1DR.Cap, floor, dr, fam.RX1DR.EffOffsets[off]), fmt.Sprintf("%s, %s", tables.Show(res[0]), tables.Show(res[1])), true)
		}
	}
}

// c12RX1Total (R10): GetRX1DataRateIndex evaluated (E2, on the configuration's tables) at every point of uplink DR
// -2..17 x offset -2..9: the evaluation never indexes a table out of range (an error, not a panic, for what the region
// does not define), and every result returned with a nil error is a defined downlink data rate. Which data rate a
// defined cell holds is R1/R3/R4.
func c12RX1Total(c *Ctx, bands *tables.Bands, cfg *tables.BandConfig, down map[int]bool) {
	r := c.Run
	const rule = "R10.rx1-total"
	fd := cfg.Methods["GetRX1DataRateIndex"]
	id := cfg.Short()
	if fd == nil {
		r.Unknown(rule, id+"/GetRX1DataRateIndex", "", "method present", "missing")
		return
	}
	names := paramNames(fd)
	if len(names) != 2 {
		r.Unknown(rule, id+"/GetRX1DataRateIndex", c.Prog.Rel(fd.Pos()), "two parameters", fmt.Sprint(names))
		return
	}
	pos := c.Prog.Rel(fd.Pos())
	n := 0
	for dr := -2; dr <= 17; dr++ {
		for off := -2; off <= 9; off++ {
			res, _, ok := bands.EvalMethod(cfg, "GetRX1DataRateIndex", map[string]tables.Value{names[0]: tables.Int{V: int64(dr)}, names[1]: tables.Int{V: int64(off)}})
			key := fmt.Sprintf("%s/GetRX1DataRateIndex(dr=%d,off=%d)", id, dr, off)
			if !ok || len(res) != 2 {
				diag := fmt.Sprint(bands.Ev.Diag)
				if i := strings.Index(diag, "PANIC: "); i >= 0 {
					r.Bad(rule, key, pos, "an error or a data rate, never a panic", clipText(diag[i:], 160))
				} else {
					r.Unknown(rule, key, pos, "function inside the evaluable subset", diag)
				}
				return
			}
			n++
			if _, errNil := res[1].(tables.Nil); errNil {
				got, okg := res[0].(tables.Int)
				if !okg || !down[int(got.V)] {
					r.Bad(rule, key, pos, "a defined downlink data rate", tables.Show(res[0]))
					return
				}
			}
		}
	}
	r.OK(rule, id+"/GetRX1DataRateIndex", pos, "no panic and only defined downlink data rates at every point of DR -2..17 x offset -2..9", fmt.Sprintf("%d points evaluated", n), true)
}

func c12RX1Channel(c *Ctx, bands *tables.Bands, cfg *tables.BandConfig, fam regBand) {
	r := c.Run
	P := c.Prog
	id := cfg.Short()
	fd := cfg.Methods["GetRX1ChannelIndexForUplinkChannelIndex"]
	if fd == nil {
		r.Unknown("R5.rx1chan", id+"/GetRX1ChannelIndexForUplinkChannelIndex", "", "method present", "missing")
		return
	}
	pos := P.Rel(fd.Pos())
	up, err := cfg.Channels("uplinkChannels")
	dn, err2 := cfg.Channels("downlinkChannels")
	if err != nil || err2 != nil {
		r.Unknown("R5.rx1chan", id+"/channels", pos, "channel tables evaluable", fmt.Sprint(err, err2))
		return
	}
	mod := fam.rx1ChannelMod()
	if mod != 0 {
		r.Check(mod == len(dn), "R5.rx1chan", id+"/modulus=len(downlinkChannels)", pos, fmt.Sprintf("%d downlink channels", mod), fmt.Sprint(len(dn)), true)
	}
	names := paramNames(fd)
	if len(names) != 1 || names[0] == "_" {
		r.Unknown("R5.rx1chan", id+"/GetRX1ChannelIndexForUplinkChannelIndex", pos, "one named parameter", fmt.Sprint(names))
		return
	}
	bad := 0
	for i := range up {
		res, _, ok := bands.EvalMethod(cfg, "GetRX1ChannelIndexForUplinkChannelIndex", map[string]tables.Value{names[0]: tables.Int{V: int64(i)}})
		key := fmt.Sprintf("%s/GetRX1ChannelIndexForUplinkChannelIndex(%d)", id, i)
		if !ok || len(res) != 2 {
			r.Unknown("R5.rx1chan", key, pos, "accessor inside the evaluable subset", fmt.Sprint(bands.Ev.Diag))
			bad++
			continue
		}
		want := i
		if mod != 0 {
			want = i % mod
		}
		got, okg := res[0].(tables.Int)
		_, errNil := res[1].(tables.Nil)
		r.Check(okg && errNil && int(got.V) == want && want < len(dn), "R5.rx1chan", key, pos, fmt.Sprintf("%d, nil (existing downlink channel)", want), fmt.Sprintf("%s, %s", tables.Show(res[0]), tables.Show(res[1])), mod != 0)
	}
	// frequency accessor
	ff := cfg.Methods["GetRX1FrequencyForUplinkFrequency"]
	if ff == nil {
		r.Unknown("R5.rx1chan", id+"/GetRX1FrequencyForUplinkFrequency", "", "method present", "missing")
		return
	}
	fpos := P.Rel(ff.Pos())
	if mod == 0 {
		pn := paramNames(ff)
		if len(pn) != 1 || pn[0] == "_" {
			r.Unknown("R5.rx1chan", id+"/GetRX1FrequencyForUplinkFrequency", fpos, "one named parameter", fmt.Sprint(pn))
			return
		}
		// identity for every default uplink frequency
		for i, ch := range up {
			res, _, ok := bands.EvalMethod(cfg, "GetRX1FrequencyForUplinkFrequency", map[string]tables.Value{pn[0]: tables.Int{V: int64(ch.Freq)}})
			key := fmt.Sprintf("%s/GetRX1FrequencyForUplinkFrequency(ch%d)", id, i)
			if !ok || len(res) != 2 {
				r.Unknown("R5.rx1chan", key, fpos, "accessor inside the evaluable subset", fmt.Sprint(bands.Ev.Diag))
				continue
			}
			got, okg := res[0].(tables.Int)
			_, errNil := res[1].(tables.Nil)
			r.Check(okg && errNil && int(got.V) == dn[i].Freq, "R5.rx1chan", key, fpos, fmt.Sprintf("%d (downlink channel %d), nil", dn[i].Freq, i), fmt.Sprintf("%s, %s", tables.Show(res[0]), tables.Show(res[1])), false)
		}
		return
	}
	// composed form (uplink frequency -> uplink index -> index mod N -> downlink frequency): decided for every uplink
	// frequency at once on the real band object by R5.rx1freq-e1 (c12_e1.go)
}

func c12Ping(c *Ctx, bands *tables.Bands, cfg *tables.BandConfig, fam regBand) {
	r := c.Run
	P := c.Prog
	id := cfg.Short()
	fd := cfg.Methods["GetPingSlotFrequency"]
	if fd == nil {
		r.Unknown("R6.ping", id+"/GetPingSlotFrequency", "", "method present", "missing")
		return
	}
	pos := P.Rel(fd.Pos())
	pg := fam.ping()
	off := 0
	if fam.Uplink.OffsetBy != nil {
		off = fam.Uplink.OffsetBy[cfg.Canon()]
	}
	if pg.Fixed != nil {
		res, _, ok := bands.EvalMethod(cfg, "GetPingSlotFrequency", nil)
		if !ok || len(res) != 2 {
			r.Unknown("R6.ping", id+"/GetPingSlotFrequency", pos, "constant result", fmt.Sprint(bands.Ev.Diag))
			return
		}
		got, okg := res[0].(tables.Int)
		_, errNil := res[1].(tables.Nil)
		r.Check(okg && errNil && int(got.V) == *pg.Fixed+off, "R6.ping", id+"/GetPingSlotFrequency", pos, fmt.Sprintf("%d Hz, nil", *pg.Fixed+off), fmt.Sprintf("%s, %s", tables.Show(res[0]), tables.Show(res[1])), true)
		return
	}
	if pg.Hop == nil {
		r.Unknown("R6.ping", id+"/GetPingSlotFrequency", pos, "oracle entry", "neither fixed nor hop")
		return
	}
	// hopping regions: decided for every DevAddr and beacon time on the real band object by R6.ping-e1 (c12_e1.go);
	// the earlier syntactic recogniser of the hop expression is retired (it refuted correct code that computes the
	// frequency inside a helper)
	r.Saw("hopping ping-slot regions (decided by R6.ping-e1)", id)
}

func minInt(a, b int) int {
	if a < b {
		return a
	}
	return b
}

func unparen(e ast.Expr) ast.Expr {
	for {
		p, ok := e.(*ast.ParenExpr)
		if !ok {
			return e
		}
		e = p.X
	}
}

// stripConv removes parentheses and type conversions.
func stripConv(info *types.Info, e ast.Expr) ast.Expr {
	for {
		e = unparen(e)
		call, ok := e.(*ast.CallExpr)
		if !ok || len(call.Args) != 1 {
			return e
		}
		if tv, ok := info.Types[call.Fun]; ok && tv.IsType() {
			e = call.Args[0]
			continue
		}
		return e
	}
}

func calleeFunc(info *types.Info, call *ast.CallExpr) *types.Func {
	switch f := unparen(call.Fun).(type) {
	case *ast.Ident:
		fn, _ := info.Uses[f].(*types.Func)
		return fn
	case *ast.SelectorExpr:
		fn, _ := info.Uses[f.Sel].(*types.Func)
		return fn
	}
	return nil
}
