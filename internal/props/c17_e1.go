package props

import (
	"fmt"
	"go/types"

	"lwverif/internal/absint"
)

// c17HexBytesE1 (rule C17-R7.hexbytes): backend.HEXBytes decided by the bit-level engine for byte strings of 0..20
// bytes with symbolic content (hex.EncodeToString / DecodeString as mutually inverse uninterpreted functions, see
// c11_text.go): UnmarshalText(MarshalText(v)) = v, also with a leading 0x; String() is the text of MarshalText; a text
// with an odd number of characters is rejected whatever its characters are; no text makes the decoder panic.
// Independent of how the three methods share helpers.
func c17HexBytesE1(c *Ctx) {
	r := c.Run
	const rule = "R7.hexbytes"
	r.Rule(rule, "backend.HEXBytes (E1, 0..20 symbolic bytes): UnmarshalText(MarshalText(v)) = v with and without 0x, String() = MarshalText, odd-length texts rejected, no panic")
	const rel = "backend"
	maxN := 20
	if c.Tier == "thorough" {
		maxN = 64
	}
	for n := 0; n <= maxN; n++ {
		in := absint.NewInterp(c.Prog)
		NT := in.NamedType(rel, "HEXBytes")
		if NT == nil {
			r.Unknown(rule, "backend.HEXBytes", "", "type exists", "missing")
			return
		}
		body := in.SymBytes("v", n)
		val := &absint.Slice{Back: body.Back, Hi: n, Cap: n, Elem: types.Typ[types.Uint8]}
		var mt, st []absint.Value
		key := fmt.Sprintf("HEXBytes/len%d", n)
		if err := in.Try(func() {
			mt = in.CallMethod(&absint.Cell{V: val}, NT, "MarshalText")
			st = in.CallMethod(&absint.Cell{V: val}, NT, "String")
		}); err != nil {
			r.Unknown(rule, key+"/encode", "", "MarshalText/String inside the interpreter's subset", err.Error())
			continue
		}
		if ev, _ := mt[1].(*absint.ErrVal); ev == nil || ev.NonNil != absint.False {
			r.Bad(rule, key+"/encode", "", "MarshalText never fails", in.Show(mt[1]))
			continue
		}
		txt, ok := mt[0].(*absint.Slice)
		if !ok || txt.Len() != 2*n {
			r.Bad(rule, key+"/encode", "", fmt.Sprintf("%d characters", 2*n), in.Show(mt[0]))
			continue
		}
		// String() has the same characters
		sv, _ := st[0].(*absint.StrVal)
		sameStr := sv != nil
		if sameStr {
			chars := sv.Chars
			if sv.Known {
				chars = nil
				for i := 0; i < len(sv.S); i++ {
					chars = append(chars, in.D.Const(int64(sv.S[i]), 8, false))
				}
			}
			if len(chars) != txt.Len() {
				sameStr = false
			}
			for i := 0; sameStr && i < len(chars); i++ {
				if ok, _ := sameValue(in, chars[i], txt.At(i).V, absint.True); !ok {
					sameStr = false
				}
			}
		}
		r.Check(sameStr, rule, key+"/string", "", "String() is the text MarshalText produces", fmt.Sprintf("equal: %v (%s)", sameStr, short(in.Show(st[0]))), n > 0)
		for _, prefix := range []string{"", "0x"} {
			k := fmt.Sprintf("%s/roundtrip/prefix%q", key, prefix)
			bk := &absint.Backing{}
			for i := 0; i < len(prefix); i++ {
				bk.E = append(bk.E, &absint.Cell{V: in.D.Const(int64(prefix[i]), 8, false)})
			}
			for i := 0; i < txt.Len(); i++ {
				bk.E = append(bk.E, &absint.Cell{V: txt.At(i).V})
			}
			text := &absint.Slice{Back: bk, Hi: len(bk.E), Cap: len(bk.E), Elem: types.Typ[types.Uint8]}
			recv := &absint.Cell{}
			forParts(in, absint.True, 4, func(dp absint.Node, pt string) error {
				var ut []absint.Value
				e := in.Try(func() {
					in.SetLive(dp)
					recv.V = in.Zero(NT)
					ut = in.CallMethod(recv, NT, "UnmarshalText", text)
				})
				if e != nil {
					if pe, isP := e.(absint.Panic); isP {
						r.Bad(rule, k+pt, "", "decoding the encoder's text returns a value or an error", "panics: "+pe.Why)
						return nil
					}
					return e
				}
				ev, _ := ut[0].(*absint.ErrVal)
				if ev == nil || in.D.M.And(dp, ev.NonNil) != absint.False {
					r.Bad(rule, k+pt, "", "the encoder's own text is accepted", in.Show(ut[0]))
					return nil
				}
				got, isS := recv.V.(*absint.Slice)
				if !isS || got.Len() != n {
					r.Bad(rule, k+pt, "", fmt.Sprintf("%d bytes decoded", n), in.Show(recv.V))
					return nil
				}
				good, why := true, "every byte equal for all values"
				for i := 0; i < n && good; i++ {
					if ok, w := sameValue(in, got.At(i).V, val.At(i).V, dp); !ok {
						good, why = false, fmt.Sprintf("byte %d: %s", i, w)
					}
				}
				r.Check(good, rule, k+pt, "", "UnmarshalText(MarshalText(v)) = v", why, n > 0)
				return nil
			}, func(pt string, e error) {
				r.Unknown(rule, k+pt, "", "UnmarshalText inside the interpreter's subset", e.Error())
			})
		}
	}
	// odd-length texts (arbitrary characters) are rejected; even-length arbitrary texts never panic
	for L := 0; L <= 9; L++ {
		for _, prefix := range []string{"", "0x"} {
			in := absint.NewInterp(c.Prog)
			NT := in.NamedType(rel, "HEXBytes")
			body := in.SymBytes("c", L)
			bk := &absint.Backing{}
			for i := 0; i < len(prefix); i++ {
				bk.E = append(bk.E, &absint.Cell{V: in.D.Const(int64(prefix[i]), 8, false)})
			}
			for i := 0; i < L; i++ {
				bk.E = append(bk.E, &absint.Cell{V: body.At(i).V})
			}
			text := &absint.Slice{Back: bk, Hi: len(bk.E), Cap: len(bk.E), Elem: types.Typ[types.Uint8]}
			key := fmt.Sprintf("HEXBytes/text%d/prefix%q", L, prefix)
			okAll, why, undec := true, "", ""
			forParts(in, absint.True, 4, func(dp absint.Node, pt string) error {
				var ut []absint.Value
				recv := &absint.Cell{V: in.Zero(NT)}
				e := in.Try(func() {
					in.SetLive(dp)
					ut = in.CallMethod(recv, NT, "UnmarshalText", text)
				})
				if e != nil {
					if pe, isP := e.(absint.Panic); isP {
						okAll, why = false, "panics: "+pe.Why
						return nil
					}
					return e
				}
				ev, _ := ut[0].(*absint.ErrVal)
				if ev == nil {
					okAll, why = false, "no error value"
					return nil
				}
				// a text of L characters that does not itself start with 0x has L hex characters: odd L is an error.
				// (with prefix "" a symbolic text may start with 0x, then L-2 characters remain: same parity)
				if L%2 == 1 {
					if acc := in.D.M.And(dp, in.D.M.Not(ev.NonNil)); acc != absint.False {
						okAll, why = false, "accepted, e.g. "+in.D.Witness(acc)
					}
				}
				return nil
			}, func(pt string, e error) { undec = e.Error() })
			if undec != "" {
				r.Unknown(rule, key, "", "UnmarshalText inside the interpreter's subset", undec)
				continue
			}
			want := "no panic for any characters"
			if L%2 == 1 {
				want = "rejected for any characters (odd number of hex digits)"
			}
			r.Check(okAll, rule, key, "", want, why, true)
		}
	}
}

// c17EnvelopeE1 (rule C17-R8.envelope): NewKeyEnvelope / KeyEnvelope.Unwrap decided by the bit-level engine with
// keywrap.Wrap / Unwrap as mutually inverse uninterpreted functions of (KEK, key) and aes.NewCipher accepting exactly
// 16/24/32-byte keys. For a symbolic 16-byte key and symbolic KEK bytes, per configuration (label empty / set;
// KEK of 0, 5, 16, 24, 32 bytes):
//   - label empty or KEK empty: the envelope carries the key itself and no label;
//   - label set and KEK of a valid AES size: AESKey is Wrap(KEK, key), the label is kept, and Unwrap(KEK) of that
//     envelope yields the key without error;
//   - label set and KEK of another size: an error, no envelope;
//   - Unwrap of 24 arbitrary bytes fails exactly when the integrity bit of the uninterpreted Unwrap is set.
//
// Independent of how the two functions are split into helpers.
func c17EnvelopeE1(c *Ctx) {
	r := c.Run
	const rule = "R8.envelope"
	r.Rule(rule, "NewKeyEnvelope/Unwrap (E1; Wrap/Unwrap uninterpreted inverse pair): clear key and no label iff label empty or KEK empty; else AESKey = Wrap(KEK, key) with the label and Unwrap(KEK) returns the key; invalid KEK sizes are errors; Unwrap fails exactly on the integrity bit")
	const rel = "backend"
	for _, label := range []string{"", "kek-label"} {
		for _, kl := range []int{0, 5, 16, 24, 32} {
			key := fmt.Sprintf("NewKeyEnvelope/label%q/kek%d", label, kl)
			in := absint.NewInterp(c.Prog)
			d := in.D
			KT := in.NamedType("", "AES128Key")
			ET := in.NamedType(rel, "KeyEnvelope")
			if KT == nil || ET == nil {
				r.Unknown(rule, key, "", "types exist", "AES128Key or KeyEnvelope missing")
				return
			}
			var k absint.Value
			kek := in.SymBytes("kek", kl)
			var res []absint.Value
			if err := in.Try(func() {
				k = in.Sym("key", KT, false)
				res = in.CallFunc(rel, "NewKeyEnvelope", &absint.StrVal{Known: true, S: label}, kek, absint.Copy(k))
			}); err != nil {
				if pe, isP := err.(absint.Panic); isP {
					r.Bad(rule, key, "", "an envelope or an error", "panics: "+pe.Why)
				} else {
					r.Unknown(rule, key, "", "NewKeyEnvelope inside the interpreter's subset", err.Error())
				}
				continue
			}
			ev, _ := res[1].(*absint.ErrVal)
			if ev == nil {
				r.Unknown(rule, key, "", "an error result", in.Show(res[1]))
				continue
			}
			clear := label == "" || kl == 0
			validKEK := kl == 16 || kl == 24 || kl == 32
			if !clear && !validKEK {
				r.Check(ev.NonNil == absint.True, rule, key, "", "a KEK that is not an AES key is an error", in.Show(res[1]), true)
				continue
			}
			if ev.NonNil != absint.False {
				r.Bad(rule, key, "", "no error", in.Show(res[1]))
				continue
			}
			env := derefStruct(res[0])
			if env == nil {
				r.Unknown(rule, key, "", "a *KeyEnvelope", in.Show(res[0]))
				continue
			}
			aesKey, _ := env.F["AESKey"].V.(*absint.Slice)
			lbl, _ := env.F["KEKLabel"].V.(*absint.StrVal)
			karr, _ := k.(*absint.Array)
			if aesKey == nil || lbl == nil || karr == nil {
				r.Unknown(rule, key, "", "AESKey bytes and a label string", in.Show(res[0]))
				continue
			}
			if clear {
				good := aesKey.Len() == 16 && lbl.Known && lbl.S == ""
				why := fmt.Sprintf("%d bytes, label %q", aesKey.Len(), lbl.S)
				for i := 0; good && i < 16; i++ {
					if ok, w := sameValue(in, aesKey.At(i).V, karr.E[i].V, absint.True); !ok {
						good, why = false, fmt.Sprintf("byte %d: %s", i, w)
					}
				}
				r.Check(good, rule, key, "", "AESKey = the key itself, no label", why, true)
				continue
			}
			// wrapped: 24 bytes, all of one KWrap term over (kek, key)
			good, why := aesKey.Len() == 24 && lbl.Known && lbl.S == label, fmt.Sprintf("%d bytes, label %q", aesKey.Len(), lbl.S)
			if good {
				id0, _, ok0 := in.OpaqueOf(aesKey.At(0).V)
				t, okT := in.OpaqueDesc[id0]
				if !ok0 || !okT || t.Kind != "KWrap" {
					good, why = false, "AESKey is not the output of keywrap.Wrap: "+short(in.Show(aesKey))
				} else {
					for i := 0; i < 24 && good; i++ {
						if id, kk, okI := in.OpaqueOf(aesKey.At(i).V); !okI || id != id0 || kk != i {
							good, why = false, fmt.Sprintf("byte %d is not byte %d of the wrap output", i, i)
						}
					}
					if good && (len(t.Inputs) != 2 || len(t.Inputs[0]) != kl || len(t.Inputs[1]) != 16) {
						good, why = false, "wrap inputs have unexpected sizes"
					}
					for i := 0; good && i < kl; i++ {
						if ok, w := sameValue(in, t.Inputs[0][i], kek.At(i).V, absint.True); !ok {
							good, why = false, fmt.Sprintf("KEK byte %d: %s", i, w)
						}
					}
					for i := 0; good && i < 16; i++ {
						if ok, w := sameValue(in, t.Inputs[1][i], karr.E[i].V, absint.True); !ok {
							good, why = false, fmt.Sprintf("wrapped key byte %d: %s", i, w)
						}
					}
				}
			}
			r.Check(good, rule, key, "", "AESKey = keywrap.Wrap(aes.NewCipher(kek), key), label kept", why, true)
			if !good {
				continue
			}
			// round trip
			var un []absint.Value
			if err := in.Try(func() {
				un = in.CallMethod(&absint.Cell{V: env}, ET, "Unwrap", kek)
			}); err != nil {
				if pe, isP := err.(absint.Panic); isP {
					r.Bad(rule, key+"/unwrap", "", "the key", "panics: "+pe.Why)
				} else {
					r.Unknown(rule, key+"/unwrap", "", "Unwrap inside the interpreter's subset", err.Error())
				}
				continue
			}
			uev, _ := un[1].(*absint.ErrVal)
			uarr, _ := un[0].(*absint.Array)
			good, why = uev != nil && uev.NonNil == absint.False && uarr != nil, in.Show(un[1])
			for i := 0; good && i < 16; i++ {
				if ok, w := sameValue(in, uarr.E[i].V, karr.E[i].V, absint.True); !ok {
					good, why = false, fmt.Sprintf("byte %d: %s", i, w)
				}
			}
			r.Check(good, rule, key+"/unwrap", "", "Unwrap(kek) of the envelope returns the key, no error", why, true)
			_ = d
		}
	}
	// Unwrap of arbitrary bytes: error exactly on the integrity bit; wrong KEK size: error; short text: no panic claim
	// is not made (the library slices the first 8 bytes: that is the library's contract, reported as a note)
	for _, kl := range []int{5, 16} {
		key := fmt.Sprintf("Unwrap/arbitrary24/kek%d", kl)
		in := absint.NewInterp(c.Prog)
		ET := in.NamedType(rel, "KeyEnvelope")
		ct := in.SymBytes("ct", 24)
		kek := in.SymBytes("kek", kl)
		env := in.Zero(ET).(*absint.Struct)
		env.F["AESKey"].V = &absint.Slice{Back: ct.Back, Hi: 24, Cap: 24, Elem: types.Typ[types.Uint8]}
		var un []absint.Value
		if err := in.Try(func() { un = in.CallMethod(&absint.Cell{V: env}, ET, "Unwrap", kek) }); err != nil {
			if pe, isP := err.(absint.Panic); isP {
				r.Bad(rule, key, "", "a key or an error", "panics: "+pe.Why)
			} else {
				r.Unknown(rule, key, "", "Unwrap inside the interpreter's subset", err.Error())
			}
			continue
		}
		uev, _ := un[1].(*absint.ErrVal)
		if uev == nil {
			r.Unknown(rule, key, "", "an error result", in.Show(un[1]))
			continue
		}
		if kl != 16 {
			r.Check(uev.NonNil == absint.True, rule, key, "", "a KEK that is not an AES key is an error", in.Show(un[1]), true)
			continue
		}
		// the error condition is exactly the uninterpreted integrity bit
		okBit := false
		why := in.Show(un[1])
		var kv, cv []absint.Value
		for i := 0; i < kl; i++ {
			kv = append(kv, kek.At(i).V)
		}
		for i := 0; i < 24; i++ {
			cv = append(cv, ct.At(i).V)
		}
		same := in.OpaqueBytes("KUnwrap", [][]absint.Value{kv, cv}, 17, "RFC 3394 unwrap / integrity bit")
		if bit, isB := same[16].(*absint.Bits); isB {
			okBit = bit.Bits()[0] == uev.NonNil
		}
		r.Check(okBit, rule, key, "", "fails exactly when keywrap.Unwrap's integrity check fails", why, true)
	}
}

func derefStruct(v absint.Value) *absint.Struct {
	for i := 0; i < 3; i++ {
		switch x := v.(type) {
		case *absint.Struct:
			return x
		case *absint.Ptr:
			if x.To == nil {
				return nil
			}
			v = x.To.V
		default:
			return nil
		}
	}
	return nil
}
