package props

import (
	"fmt"
	"go/types"
	"sort"

	"lwverif/internal/absint"
)

// c07Sequences (rule C07-R10.sequence): the concatenation clause decided on the MAC-command stream decoder. For each
// direction, every ordered pair (A, B) of the specification's commands — the 29 payload types with fully symbolic
// fields inside their specified ranges, and the commands that carry no payload in that direction — is encoded with
// MACCommand.MarshalBinary, concatenated, and decoded with decodeDataPayloadToMACCommands (engine E1: the registry is
// evaluated, the advance per command is a constant per pair); proved for all field values at once: exactly two
// commands come back, with the same CIDs and equal payload fields.
func c07Sequences(c *Ctx, rule string) {
	r := c.Run
	r.Rule(rule, "for every ordered pair of MAC commands of one direction, decoding the concatenation of their encodings yields exactly that pair, for all payload field values")
	cids := map[int]bool{}
	bySpec := map[string]*ws{}
	for i := range macSpecs {
		s := &macSpecs[i]
		cids[s.CID] = true
		bySpec[fmt.Sprintf("%s/%d", s.Dir, s.CID)] = s
	}
	// two unregistered proprietary CIDs: without a registered size they carry no payload and may stand anywhere
	cids[0x80], cids[0x85] = true, true
	var all []int
	for k := range cids {
		all = append(all, k)
	}
	sort.Ints(all)
	for _, up := range []bool{true, false} {
		dir := "down"
		if up {
			dir = "up"
		}
		for _, a := range all {
			for _, b := range all {
				c07Pair(c, rule, dir, up, a, bySpec[fmt.Sprintf("%s/%d", dir, a)], b, bySpec[fmt.Sprintf("%s/%d", dir, b)])
			}
		}
	}
}

func c07Pair(c *Ctx, rule, dir string, up bool, cidA int, spA *ws, cidB int, spB *ws) {
	r := c.Run
	name := func(cid int, sp *ws) string {
		if sp == nil {
			return fmt.Sprintf("cid%#02x", cid)
		}
		return sp.Type
	}
	key := fmt.Sprintf("%s/%s+%s", dir, name(cidA, spA), name(cidB, spB))
	in := absint.NewInterp(c.Prog)
	d := in.D
	MT := in.NamedType("", "MACCommand")
	DP := in.NamedType("", "DataPayload")
	PI := in.NamedType("", "Payload")
	dom := absint.True
	mk := func(root, sfx string, cid int, sp *ws) *absint.Struct {
		st := in.Zero(MT).(*absint.Struct)
		st.F["CID"].V = d.Const(int64(cid), 8, false)
		if sp != nil {
			PT := in.NamedType("", sp.Type)
			pv, _, pd := newSymStructNamed(in, root, sfx, PT, *sp, true, -1)
			dom = d.M.And(dom, pd)
			dom = d.M.And(dom, specDomain(in, pv, sp.Fields, false))
			st.F["Payload"].V = &absint.Iface{Dyn: &absint.Ptr{To: &absint.Cell{V: pv}, T: PT}, DynT: types.NewPointer(PT)}
		}
		return st
	}
	var va, vb *absint.Struct
	var ea, eb, dec []absint.Value
	err := in.Try(func() {
		va, vb = mk("a", "#a", cidA, spA), mk("b", "#b", cidB, spB)
		in.SetLive(dom)
		ea = in.CallMethod(&absint.Cell{V: absint.Copy(va)}, MT, "MarshalBinary")
		eb = in.CallMethod(&absint.Cell{V: absint.Copy(vb)}, MT, "MarshalBinary")
	})
	if err != nil {
		r.Unknown(rule, key, "", "encoders inside the interpreter's subset", err.Error())
		return
	}
	for _, e := range [][]absint.Value{ea, eb} {
		if ev, _ := e[1].(*absint.ErrVal); ev == nil || d.M.And(dom, ev.NonNil) != absint.False {
			r.Bad(rule, key+"/encode", "", "in-range commands are accepted", in.Show(e[1]))
			return
		}
	}
	sa, okA := ea[0].(*absint.Slice)
	sb, okB := eb[0].(*absint.Slice)
	if !okA || !okB {
		r.Unknown(rule, key, "", "encoders return bytes", "")
		return
	}
	bk := &absint.Backing{}
	for i := 0; i < sa.Len(); i++ {
		bk.E = append(bk.E, &absint.Cell{V: sa.At(i).V})
	}
	for i := 0; i < sb.Len(); i++ {
		bk.E = append(bk.E, &absint.Cell{V: sb.At(i).V})
	}
	n := len(bk.E)
	upN := absint.False
	if up {
		upN = absint.True
	}
	err = in.Try(func() {
		dpl := in.Zero(DP).(*absint.Struct)
		dpl.F["Bytes"].V = &absint.Slice{Back: bk, Hi: n, Cap: n, Elem: types.Typ[types.Uint8]}
		item := &absint.Iface{Dyn: &absint.Ptr{To: &absint.Cell{V: dpl}, T: DP}, DynT: types.NewPointer(DP)}
		list := &absint.Slice{Back: &absint.Backing{E: []*absint.Cell{{V: item}}}, Hi: 1, Cap: 1, Elem: PI}
		in.SetLive(dom)
		dec = in.CallFunc("", "decodeDataPayloadToMACCommands", d.Bool(upN), list)
	})
	if err != nil {
		if pe, ok := err.(absint.Panic); ok {
			r.Bad(rule, key, "", "decoding the encoded pair returns commands or an error", pe.Why)
			return
		}
		r.Unknown(rule, key, "", "stream decoder inside the interpreter's subset", err.Error())
		return
	}
	if de, _ := dec[1].(*absint.ErrVal); de != nil && d.M.And(dom, de.NonNil) != absint.False {
		r.Bad(rule, key, "", "the encoded pair decodes without error", "rejected: "+witnessOr(in, d.M.And(dom, de.NonNil), ""))
		return
	}
	out, ok := dec[0].(*absint.Slice)
	if !ok || out.Len() != 2 {
		k := -1
		if ok {
			k = out.Len()
		}
		r.Bad(rule, key, "", "two commands", fmt.Sprintf("%d commands decoded", k))
		return
	}
	good, why := true, "both commands decode to the same CIDs and payload values for every field value"
	func() {
		defer func() {
			if rec := recover(); rec != nil {
				good, why = false, fmt.Sprint(rec)
			}
		}()
		for i, want := range []*absint.Struct{va, vb} {
			got := out.At(i).V
			if ifc, isI := got.(*absint.Iface); isI {
				if p, isP := ifc.Dyn.(*absint.Ptr); isP {
					got = p.To.V
				}
			}
			deepCompare(in, fmt.Sprintf("[%d]", i), got, want, dom, func(p string, ok bool, w string) {
				if !ok && good {
					good, why = false, p+": "+w
				}
			})
		}
	}()
	r.Check(good, rule, key, "", "decode(encode(A) | encode(B)) = {A, B}", why, true)
}
