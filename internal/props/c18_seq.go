package props

import (
	"fmt"
	"go/types"
	"sort"
	"strings"

	"lwverif/internal/absint"
)

// c18Sequences (rule C18-R7.sequence): the concatenation clause decided on the stream decoder itself. For each
// application-layer package and direction the registry is read through GetCommandPayload (constants 0..63), every
// ordered pair (A, B) of commands of that direction — payload types in their first gate variant, and the commands
// without payload — is built with fully symbolic payload fields (within the specified widths), encoded with
// Commands.MarshalBinary and decoded with Commands.UnmarshalBinary, both interpreted by the bit-level engine (the
// registry maps and constructor function values are evaluated, the decoder's data-dependent advance is a constant per
// pair); proved for all field values at once: two commands come back, with the same CIDs and equal payload leaves.
func c18Sequences(c *Ctx) {
	r := c.Run
	const rule = "R7.sequence"
	r.Rule(rule, "for every ordered pair of commands of one package and direction, Commands.UnmarshalBinary(Commands{A,B}.MarshalBinary()) = {A,B} for all payload field values (the stream decoder advances by exactly the size of each command)")
	bySpec := map[string]aspec{}
	pkgs := map[string]bool{}
	for _, s := range appSpecs {
		bySpec[s.Pkg+"."+s.Type] = s
		pkgs[s.Pkg] = true
	}
	var pkList []string
	for p := range pkgs {
		pkList = append(pkList, p)
	}
	sort.Strings(pkList)
	type cmd struct {
		cid  int
		spec *aspec // nil: no payload
	}
	for _, pk := range pkList {
		short := pk[strings.LastIndex(pk, "/")+1:]
		for _, up := range []bool{true, false} {
			dir := "down"
			if up {
				dir = "up"
			}
			// registry through the accessor
			probe := absint.NewInterp(c.Prog)
			var cmds []cmd
			ok := true
			for cid := 0; cid < 64 && ok; cid++ {
				upN := absint.False
				if up {
					upN = absint.True
				}
				var out []absint.Value
				if err := probe.Try(func() {
					out = probe.CallFunc(pk, "GetCommandPayload", probe.D.Bool(upN), probe.D.Const(int64(cid), 8, false))
				}); err != nil {
					r.Unknown(rule, short+"/"+dir+"/registry", "", "GetCommandPayload inside the interpreter's subset", err.Error())
					ok = false
					break
				}
				ev, _ := out[1].(*absint.ErrVal)
				if ev == nil || ev.NonNil != absint.False {
					continue
				}
				iface, _ := out[0].(*absint.Iface)
				if iface == nil || iface.DynT == nil {
					continue
				}
				tn := strings.TrimPrefix(types.TypeString(iface.DynT, func(*types.Package) string { return "" }), "*")
				if sp, found := bySpec[pk+"."+tn]; found {
					spc := sp
					cmds = append(cmds, cmd{cid, &spc})
				} else {
					r.Unknown(rule, fmt.Sprintf("%s/%s/cid%#02x", short, dir, cid), "", "registered payload type has a specification entry", tn)
				}
			}
			if !ok {
				continue
			}
			// commands without payload: the CIDs of the opposite direction's payload commands (requests/answers pair up)
			probe2 := absint.NewInterp(c.Prog)
			have := map[int]bool{}
			for _, k := range cmds {
				have[k.cid] = true
			}
			for cid := 0; cid < 64; cid++ {
				upN := absint.True
				if up {
					upN = absint.False
				}
				var out []absint.Value
				if err := probe2.Try(func() {
					out = probe2.CallFunc(pk, "GetCommandPayload", probe2.D.Bool(upN), probe2.D.Const(int64(cid), 8, false))
				}); err != nil {
					break
				}
				if ev, _ := out[1].(*absint.ErrVal); ev != nil && ev.NonNil == absint.False && !have[cid] {
					cmds = append(cmds, cmd{cid, nil})
				}
			}
			sort.Slice(cmds, func(i, j int) bool { return cmds[i].cid < cmds[j].cid })
			r.Saw("command sets (package/direction: count)", fmt.Sprintf("%s/%s: %d", short, dir, len(cmds)))
			for _, a := range cmds {
				if a.spec != nil && a.spec.Variants[0].NoStream {
					continue // a payload that takes the rest of the buffer by definition (data fragment) can only be last
				}
				for _, b := range cmds {
					c18Pair(c, rule, pk, short, dir, up, a.cid, a.spec, b.cid, b.spec)
				}
			}
		}
	}
}

func c18Pair(c *Ctx, rule, pk, short, dir string, up bool, cidA int, spA *aspec, cidB int, spB *aspec) {
	r := c.Run
	name := func(cid int, sp *aspec) string {
		if sp == nil {
			return fmt.Sprintf("cid%#02x", cid)
		}
		return sp.Type
	}
	key := fmt.Sprintf("%s/%s/%s+%s", short, dir, name(cidA, spA), name(cidB, spB))
	in := absint.NewInterp(c.Prog)
	d := in.D
	CT := in.NamedType(pk, "Command")
	CsT := in.NamedType(pk, "Commands")
	if CT == nil || CsT == nil {
		r.Unknown(rule, key, "", "types Command and Commands exist", "missing")
		return
	}
	dom := absint.True
	mk := func(tag string, cid int, sp *aspec) absint.Value {
		st := in.Zero(CT).(*absint.Struct)
		w, sg := 8, false
		if b, ok := st.F["CID"].V.(*absint.Bits); ok {
			w, sg = b.W, b.Signed
		}
		st.F["CID"].V = d.Const(int64(cid), w, sg)
		if sp != nil {
			PT := in.NamedType(pk, sp.Type)
			v := sp.Variants[0]
			pv := symDeep(in, tag, PT, prefixVariant(v, tag), prefixSpec(*sp, tag), &dom)
			st.F["Payload"].V = &absint.Iface{Dyn: &absint.Ptr{To: &absint.Cell{V: pv}, T: PT}, DynT: types.NewPointer(PT)}
		}
		return st
	}
	var val *absint.Slice
	var enc, dec []absint.Value
	var recv *absint.Cell
	err := in.Try(func() {
		a := mk("A", cidA, spA)
		b := mk("B", cidB, spB)
		bk := &absint.Backing{E: []*absint.Cell{{V: a}, {V: b}}}
		val = &absint.Slice{Back: bk, Hi: 2, Cap: 2, Elem: CT}
		in.SetLive(dom)
		enc = in.CallMethod(&absint.Cell{V: &absint.Slice{Back: &absint.Backing{E: []*absint.Cell{{V: absint.Copy(a)}, {V: absint.Copy(b)}}}, Hi: 2, Cap: 2, Elem: CT}}, CsT, "MarshalBinary")
	})
	if err != nil {
		r.Unknown(rule, key, "", "encoder inside the interpreter's subset", err.Error())
		return
	}
	ev, _ := enc[1].(*absint.ErrVal)
	if ev == nil || d.M.And(dom, ev.NonNil) != absint.False {
		r.Bad(rule, key+"/encode", "", "in-range commands are accepted", in.Show(enc[1]))
		return
	}
	upN := absint.False
	if up {
		upN = absint.True
	}
	err = in.Try(func() {
		recv = &absint.Cell{V: in.Zero(CsT)}
		dec = in.CallMethod(recv, CsT, "UnmarshalBinary", d.Bool(upN), enc[0])
	})
	if err != nil {
		if pe, ok := err.(absint.Panic); ok {
			r.Bad(rule, key, "", "decoding the encoded pair returns a value or an error", pe.Why)
			return
		}
		r.Unknown(rule, key, "", "stream decoder inside the interpreter's subset", err.Error())
		return
	}
	if de, _ := dec[0].(*absint.ErrVal); de != nil && d.M.And(dom, de.NonNil) != absint.False {
		r.Bad(rule, key, "", "the encoded pair decodes without error", "rejected: "+witnessOr(in, d.M.And(dom, de.NonNil), ""))
		return
	}
	out, ok := recv.V.(*absint.Slice)
	if !ok || out.Len() != 2 {
		n := -1
		if ok {
			n = out.Len()
		}
		r.Bad(rule, key, "", "two commands", fmt.Sprintf("%d commands decoded", n))
		return
	}
	good, why := true, "both commands decode to the same CIDs and payload values for every field value"
	func() {
		defer func() {
			if rec := recover(); rec != nil {
				good, why = false, fmt.Sprint(rec)
			}
		}()
		for i := 0; i < 2 && good; i++ {
			deepCompare(in, fmt.Sprintf("[%d]", i), out.At(i).V, val.At(i).V, dom, func(p string, ok bool, w string) {
				if !ok && good {
					good, why = false, p+": "+w
				}
			})
		}
	}()
	r.Check(good, rule, key, "", "decode(encode({A,B})) = {A,B}", why, true)
}

// prefixVariant / prefixSpec re-root a variant's leaf paths under a tag so that two payloads of one pair get distinct
// symbol names.
func prefixVariant(v avariant, tag string) avariant {
	pre := func(m map[string]int64) map[string]int64 {
		o := map[string]int64{}
		for k, x := range m {
			o[tag+"."+k] = x
		}
		return o
	}
	o := v
	o.Fix = pre(v.Fix)
	o.Lens = map[string]int{}
	for k, x := range v.Lens {
		o.Lens[tag+"."+k] = x
	}
	o.Where = map[string][2]int64{}
	for k, x := range v.Where {
		o.Where[tag+"."+k] = x
	}
	o.Dyn = map[string]string{}
	for k, x := range v.Dyn {
		o.Dyn[tag+"."+k] = x
	}
	o.NonNil = nil
	for _, k := range v.NonNil {
		o.NonNil = append(o.NonNil, tag+"."+k)
	}
	return o
}

func prefixSpec(s aspec, tag string) aspec {
	o := s
	o.Widths = map[string]int{}
	for k, x := range s.Widths {
		o.Widths[tag+"."+k] = x
	}
	o.Freq100 = nil
	for _, k := range s.Freq100 {
		o.Freq100 = append(o.Freq100, tag+"."+k)
	}
	return o
}
