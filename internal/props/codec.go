package props

import (
	"fmt"
	"go/token"
	"go/types"

	"lwverif/internal/absint"
)

// codecFact is one decided clause about one codec.
type codecFact struct {
	Clause string // enc.size enc.accept<=spec enc.spec<=accept enc.layout inv dec.total dec.layout dec.short dec.long undecided
	Key    string
	OK     bool
	Undec  bool
	Want   string
	Got    string
	Pos    string
	NT     bool
}

type codecResult struct {
	Spec  ws
	Facts []codecFact
	Funcs []string
	Nodes int
}

func (r *codecResult) add(clause, key string, ok bool, want, got, pos string) {
	r.Facts = append(r.Facts, codecFact{Clause: clause, Key: r.Spec.name() + "/" + key, OK: ok, Want: want, Got: got, Pos: pos, NT: true})
}
func (r *codecResult) undecided(clause, key, why, pos string) {
	r.Facts = append(r.Facts, codecFact{Clause: clause, Key: r.Spec.name() + "/" + key, Undec: true, Want: "inside the interpreter's subset", Got: why, Pos: pos, NT: true})
}

// newSymStruct builds the symbolic input: free symbols for every leaf; scaled fields replaced by their
// specification parametrisation when param is set.
func newSymStruct(in *absint.Interp, T types.Type, spec ws, param bool, region int) (absint.Value, map[string]*absint.Bits, absint.Node) {
	return newSymStructNamed(in, "p", "", T, spec, param, region)
}

// newSymStructNamed is newSymStruct with a symbol-name root and a suffix for the parameter symbols, so that several
// values can live in one interpreter.
func newSymStructNamed(in *absint.Interp, root, sfx string, T types.Type, spec ws, param bool, region int) (absint.Value, map[string]*absint.Bits, absint.Node) {
	d := in.D
	val := symLoose(in, root, T)
	params := map[string]*absint.Bits{}
	dom := absint.True
	if !param {
		return val, params, dom
	}
	for _, f := range spec.Fields {
		switch f.Kind {
		case kFreq100:
			q := d.Sym("q("+f.Path+")"+sfx, 24, false, false)
			params[f.Path] = q
			setLeaf(in, val, f.Path, d.MulConst(d.Resize(q, 32, false), 100))
		case kFreqNC:
			q := d.Sym("q("+f.Path+")"+sfx, 24, false, false)
			params[f.Path] = q
			q32 := d.Resize(q, 32, false)
			if region == -1 {
				// framing runs: below the range where the 100 Hz and 200 Hz encodings overlap on the wire
				dom = d.M.And(dom, d.Cmp(token.LSS, q32, d.Const(12000000, 32, false)))
				setLeaf(in, val, f.Path, d.MulConst(q32, 100))
			} else if region == 0 {
				dom = d.M.And(dom, d.Cmp(token.LSS, q32, d.Const(24000000, 32, false)))
				setLeaf(in, val, f.Path, d.MulConst(q32, 100))
			} else {
				dom = d.M.And(dom, d.Cmp(token.GEQ, q32, d.Const(12000000, 32, false)))
				setLeaf(in, val, f.Path, d.MulConst(q32, 200))
			}
		case kGPSTime:
			s := d.Sym("sec("+f.Path+")"+sfx, 32, false, false)
			fr := d.Sym("frac("+f.Path+")"+sfx, 8, false, false)
			rem := d.Sym("rem("+f.Path+")"+sfx, 22, false, false) // sub-resolution remainder in ns
			params[f.Path+"#sec"] = s
			params[f.Path+"#frac"] = fr
			half := d.Const(3906250/2, 22, false)
			dom = d.M.And(dom, d.Cmp(token.LSS, rem, d.Const(3906250, 22, false)))
			if region == -1 {
				rem = d.Const(0, 22, false) // framing runs: a value at wire resolution
			} else if region == 0 {
				dom = d.M.And(dom, d.Cmp(token.LSS, rem, half))
			} else {
				dom = d.M.And(dom, d.Cmp(token.GEQ, rem, half))
			}
			saved := d.Cond
			d.Cond = dom
			fl := d.AddSub(token.ADD, d.MulConst(d.Resize(s, 64, true), 1000000000), d.MulConst(d.Resize(fr, 64, true), 3906250))
			params[f.Path+"#floor"] = fl
			setLeaf(in, val, f.Path, d.AddSub(token.ADD, fl, d.Resize(rem, 64, true)))
			d.Cond = saved
		}
	}
	return val, params, dom
}

// symLoose is Interp.Sym for fixed-layout values, except that reference-typed fields of a struct (the FOpts list of a
// frame header) start as their zero value: the fixed layout is the one without the variable part.
func symLoose(in *absint.Interp, path string, t types.Type) absint.Value {
	if u, ok := t.Underlying().(*types.Struct); ok {
		st := &absint.Struct{T: t, F: map[string]*absint.Cell{}}
		for i := 0; i < u.NumFields(); i++ {
			f := u.Field(i)
			var v absint.Value
			switch f.Type().Underlying().(type) {
			case *types.Slice, *types.Pointer, *types.Interface, *types.Map:
				v = in.Zero(f.Type())
			default:
				v = symLoose(in, path+"."+f.Name(), f.Type())
			}
			st.F[f.Name()] = &absint.Cell{V: v}
			st.Order = append(st.Order, f.Name())
		}
		return st
	}
	return in.Sym(path, t, true)
}

// expectedDecoded builds the value a field must have when decoding the given wire bits (per the oracle).
func expectedDecoded(in *absint.Interp, f wf, leafPath string, idx int, wire []absint.Node, goT types.Type) (absint.Value, bool) {
	d := in.D
	base := f.Byte*8 + f.Bit
	w, signed, ok := goWidth(goT)
	if !ok {
		return nil, false
	}
	vec := func(start, n int) []absint.Node {
		b := make([]absint.Node, w)
		for i := range b {
			if i < n && start+i < len(wire) {
				b[i] = wire[start+i]
			} else {
				b[i] = absint.False
			}
		}
		return b
	}
	switch f.Kind {
	case kUint, kBool, kEnum01, kBoolOr:
		return absint.MakeBits(w, signed, vec(base, f.Width)), true
	case kInt32:
		return absint.MakeBits(w, signed, vec(base, 32)), true
	case kBoolArr:
		return absint.MakeBits(1, false, []absint.Node{wire[base+idx]}), true
	case kBytes:
		return absint.MakeBits(8, false, vec(base+8*idx, 8)[:8]), true
	case kBytesRev:
		return absint.MakeBits(8, false, vec(base+8*(f.Width-1-idx), 8)[:8]), true
	case kInt6:
		b := vec(base, 6)
		for i := 6; i < w; i++ {
			b[i] = wire[base+5] // sign extension
		}
		return absint.MakeBits(w, signed, b), true
	case kFreq100:
		v := absint.MakeBits(32, false, vec(base, 24)[:32])
		return d.MulConst(v, 100), true
	case kGPSTime:
		s := d.Resize(absint.MakeBits(32, false, vec(base, 32)[:32]), 64, true)
		fr := d.Resize(absint.MakeBits(8, false, vec(base+32, 8)[:8]), 64, true)
		return d.AddSub(token.ADD, d.MulConst(s, 1000000000), d.MulConst(fr, 3906250)), true
	}
	return nil, false
}

func goWidth(t types.Type) (int, bool, bool) {
	b, ok := t.Underlying().(*types.Basic)
	if !ok {
		return 0, false, false
	}
	switch b.Kind() {
	case types.Bool:
		return 1, false, true
	case types.Uint8:
		return 8, false, true
	case types.Int8:
		return 8, true, true
	case types.Uint16:
		return 16, false, true
	case types.Int16:
		return 16, true, true
	case types.Uint32:
		return 32, false, true
	case types.Int32:
		return 32, true, true
	case types.Uint64, types.Uint:
		return 64, false, true
	case types.Int64, types.Int:
		return 64, true, true
	}
	return 0, false, false
}

// leafType resolves the Go type of a leaf path inside T.
func leafType(T types.Type, path string) types.Type {
	cur := T
	for _, part := range splitPath(path) {
		if part.name != "" {
			st, ok := cur.Underlying().(*types.Struct)
			if !ok {
				return nil
			}
			found := false
			for i := 0; i < st.NumFields(); i++ {
				if st.Field(i).Name() == part.name {
					cur = st.Field(i).Type()
					found = true
				}
			}
			if !found {
				return nil
			}
		}
		if part.idx >= 0 {
			arr, ok := cur.Underlying().(*types.Array)
			if !ok {
				return nil
			}
			cur = arr.Elem()
		}
	}
	return cur
}

type pathPart struct {
	name string
	idx  int
}

func splitPath(path string) []pathPart {
	var out []pathPart
	cur := ""
	flush := func() {
		if cur == "" {
			return
		}
		p := pathPart{name: cur, idx: -1}
		for i := 0; i < len(cur); i++ {
			if cur[i] == '[' {
				p.name = cur[:i]
				fmt.Sscanf(cur[i:], "[%d]", &p.idx)
				break
			}
		}
		out = append(out, p)
		cur = ""
	}
	for _, ch := range path {
		if ch == '.' {
			flush()
			continue
		}
		cur += string(ch)
	}
	flush()
	return out
}

// runCodec analyses one fixed-layout codec against its oracle entry.
func runCodec(c *Ctx, spec ws) *codecResult {
	res := &codecResult{Spec: spec}
	probe := absint.NewInterp(c.Prog)
	T := probe.NamedType(spec.Pkg, spec.Type)
	if T == nil {
		res.undecided("undecided", "type", "type not found in package "+spec.Pkg, "")
		return res
	}
	pos := typePos(c, T)
	for _, f := range spec.Fields {
		for _, lp := range fieldLeaves(f) {
			if leafType(T, lp) == nil {
				res.undecided("undecided", "field/"+lp, "oracle field not present in the Go struct", pos)
				return res
			}
		}
	}
	hasScaled := false
	hasNC := false
	for _, f := range spec.Fields {
		if f.scaled() {
			hasScaled = true
		}
		if f.Kind == kFreqNC {
			hasNC = true
		}
	}
	// ---------------- run 1: free symbols (accept set, layout and inverse of the routed fields)
	freeOK := true
	for _, f := range spec.Fields {
		if f.Kind == kGPSTime {
			freeOK = false // signed 64-bit division of a free value is outside the domain; parametrised run only
		}
	}
	if freeOK {
		runCodecPass(c, res, spec, T, pos, false, 0)
	}
	if hasScaled {
		runCodecPass(c, res, spec, T, pos, true, 0)
		if hasNC || !freeOK {
			runCodecPass(c, res, spec, T, pos, true, 1)
		}
	}
	runDecoderPass(c, res, spec, T, pos)
	return res
}

func runCodecPass(c *Ctx, res *codecResult, spec ws, T types.Type, pos string, param bool, region int) {
	in := absint.NewInterp(c.Prog)
	d := in.D
	tag := "free"
	if param {
		tag = fmt.Sprintf("param%d", region)
	}
	var val absint.Value
	var params map[string]*absint.Bits
	var dom absint.Node
	var enc []absint.Value
	err := in.Try(func() {
		val, params, dom = newSymStruct(in, T, spec, param, region)
		in.SetLive(dom)
		enc = in.CallMethod(&absint.Cell{V: absint.Copy(val)}, T, "MarshalBinary")
	})
	for fn := range in.Called {
		res.Funcs = append(res.Funcs, fn)
	}
	if err != nil {
		res.undecided("undecided", "enc/"+tag, err.Error(), pos)
		return
	}
	ev, ok := enc[1].(*absint.ErrVal)
	out, ok2 := enc[0].(*absint.Slice)
	if !ok || !ok2 {
		res.undecided("undecided", "enc/"+tag, fmt.Sprintf("unexpected result shapes %T %T", enc[0], enc[1]), pos)
		return
	}
	A := d.M.And(dom, d.M.Not(ev.NonNil))
	enumDom := absint.True
	for _, f := range spec.Fields {
		if f.Kind == kEnum01 {
			enumDom = d.M.And(enumDom, specDomain(in, val, []wf{f}, true))
		}
	}
	AD := d.M.And(A, enumDom)
	if !param {
		// accept set versus the specification range
		S := d.M.And(specDomain(in, val, spec.Fields, false), enumDom)
		rep := d.M.And(specDomain(in, val, spec.Fields, true), enumDom) // representable on the wire
		armed, allArmed := false, true
		for _, f := range spec.Fields {
			if (f.Kind == kUint && !f.RangeUnarmed && (f.Max != 0 || leafW(T, f.Path) > f.Width)) || f.Kind == kInt6 || f.Kind == kFreq100 || f.Kind == kFreqNC {
				armed = true
			}
			if f.RangeUnarmed || f.Kind == kFreqNC {
				allArmed = false
			}
		}
		w1 := d.M.And(AD, d.M.Not(rep))
		res.add("enc.accept<=spec", "accept-within-representable", w1 == absint.False, "every accepted value fits the field's wire width/range", witnessOr(in, w1, "holds for all values"), pos)
		if armed {
			w2 := d.M.And(d.M.And(S, dom), ev.NonNil)
			res.add("enc.spec<=accept", "spec-range-accepted", w2 == absint.False, "every value inside the specification range is accepted", witnessOr(in, w2, "holds for all values"), pos)
			if allArmed {
				w3 := d.M.And(AD, d.M.Not(S))
				res.add("enc.accept=spec", "accept-equals-spec-range", w3 == absint.False, "no value outside the specification range is accepted", witnessOr(in, w3, "holds for all values"), pos)
			}
		}
	} else if len(params) > 0 {
		// every specification-valid scaled value must be accepted
		w := d.M.And(d.M.And(dom, d.M.And(specDomain(in, val, spec.Fields, false), enumDom)), ev.NonNil)
		res.add("enc.spec<=accept", "scaled-spec-accepted/"+tag, w == absint.False, "every in-unit, in-range frequency/time is accepted", witnessOr(in, w, "holds for all values"), pos)
	}
	if AD == absint.False {
		res.add("enc.size", "accepts-something/"+tag, false, "encoder accepts some value", "accept set is empty", pos)
		return
	}
	in.SetLive(AD)
	if !param || len(params) > 0 {
		res.add("enc.size", "encoded-length/"+tag, out.Len() == spec.Size, fmt.Sprintf("%d bytes", spec.Size), fmt.Sprintf("%d bytes", out.Len()), pos)
	}
	if out.Len() != spec.Size {
		return
	}
	// layout vs oracle
	var wire []absint.Node
	if e2 := in.Try(func() { wire = wireBits(out) }); e2 != nil {
		res.undecided("undecided", "enc.layout/"+tag, e2.Error(), pos)
		return
	}
	exp := expectedWire(in, spec, val, params)
	skip := map[int]bool{}
	if !param {
		for _, f := range spec.Fields {
			if f.scaled() {
				for i := 0; i < f.Width; i++ {
					skip[f.Byte*8+f.Bit+i] = true
				}
			}
		}
	}
	for i, e := range exp {
		if skip[i] {
			continue
		}
		key := fmt.Sprintf("enc.layout/%s/byte%d.bit%d", tag, i/8, i%8)
		if e < 0 {
			if !param {
				res.add("enc.layout", key, false, "oracle covers every wire bit", "bit not described by the oracle entry (oracle gap)", pos)
			}
			continue
		}
		diff := d.M.And(AD, d.M.Xor(wire[i], e))
		res.add("enc.layout", key, diff == absint.False, "wire bit = "+d.Describe(d.M.Simplify(e, AD)), describeOr(in, wire[i], AD, diff), pos)
	}
	// inverse: decode the encoder's abstract output
	recv := &absint.Cell{V: in.Zero(T)}
	var dec []absint.Value
	err = in.Try(func() {
		dec = in.CallMethod(recv, T, "UnmarshalBinary", unmarshalArgs(in, T, out, spec.Dir == "up")...)
	})
	for fn := range in.Called {
		res.Funcs = append(res.Funcs, fn)
	}
	if err != nil {
		res.undecided("undecided", "dec-of-enc/"+tag, err.Error(), pos)
		return
	}
	if de, ok := dec[0].(*absint.ErrVal); ok {
		w := d.M.And(AD, de.NonNil)
		res.add("inv", "decoder-accepts-encoder-output/"+tag, w == absint.False, "decoder accepts every encoder output", witnessOr(in, w, "always accepted"), pos)
		AD = d.M.And(AD, d.M.Not(de.NonNil))
		in.SetLive(AD)
	}
	for _, f := range spec.Fields {
		if f.scaled() != param {
			continue
		}
		for _, lp := range fieldLeaves(f) {
			var okv bool
			var why string
			target := leaf(in, val, lp)
			if fl := params[lp+"#floor"]; fl != nil {
				target = fl // round trip "to wire resolution": the sub-resolution remainder is dropped
			}
			if e3 := in.Try(func() { okv, why = sameValue(in, leaf(in, recv.V, lp), target, AD) }); e3 != nil {
				res.undecided("undecided", "inv/"+tag+"/"+lp, e3.Error(), pos)
				continue
			}
			res.add("inv", "inv/"+tag+"/"+lp, okv, "decode(encode(v))."+lp+" = v."+lp+" for every accepted v", why, pos)
		}
	}
	res.Nodes += d.M.Size()
}

func leafW(T types.Type, path string) int {
	lt := leafType(T, path)
	if lt == nil {
		return 0
	}
	w, _, _ := goWidth(lt)
	return w
}

func witnessOr(in *absint.Interp, w absint.Node, okText string) string {
	if w == absint.False {
		return okText
	}
	return "counterexample: " + in.D.Witness(w)
}

func describeOr(in *absint.Interp, got, cond, diff absint.Node) string {
	s := "wire bit = " + in.D.Describe(in.D.M.Simplify(got, cond))
	if diff != absint.False {
		s += "; differs e.g. for " + in.D.Witness(diff)
	}
	return s
}

// runDecoderPass decodes Size symbolic bytes and compares every field with the oracle's reading of the wire
// (reserved bits free unless soft), and checks the length discipline with Size-1 / Size+1 bytes.
func runDecoderPass(c *Ctx, res *codecResult, spec ws, T types.Type, pos string) {
	in := absint.NewInterp(c.Prog)
	d := in.D
	data := in.SymBytes("data", spec.Size)
	recv := &absint.Cell{V: in.Zero(T)}
	var dec []absint.Value
	err := in.Try(func() {
		dec = in.CallMethod(recv, T, "UnmarshalBinary", unmarshalArgs(in, T, data, spec.Dir == "up")...)
	})
	for fn := range in.Called {
		res.Funcs = append(res.Funcs, fn)
	}
	if err != nil {
		res.undecided("undecided", "dec", err.Error(), pos)
		return
	}
	care := absint.True
	var wire []absint.Node
	in.Try(func() { wire = wireBits(data) })
	for _, r := range spec.RFUSoft {
		care = d.M.And(care, d.M.Not(wire[r[0]*8+r[1]]))
	}
	if de, ok := dec[0].(*absint.ErrVal); ok {
		// a decoder may legitimately reject (e.g. gate/length combinations); for fixed layouts it must accept all bytes
		w := d.M.And(care, de.NonNil)
		res.add("dec.total", "dec/accepts-all-bytes", w == absint.False, fmt.Sprintf("any %d bytes decode without error", spec.Size), witnessOr(in, w, "always accepted"), pos)
		care = d.M.And(care, d.M.Not(de.NonNil))
	}
	in.SetLive(care)
	for _, f := range spec.Fields {
		if f.Kind == kFreqNC {
			continue // revision-specific 2.4 GHz reading; covered by the inverse rule only
		}
		for idx, lp := range fieldLeaves(f) {
			lt := leafType(T, lp)
			var okv bool
			var why string
			e3 := in.Try(func() {
				exp, ok := expectedDecoded(in, f, lp, idx, wire, lt)
				if !ok {
					panic(absint.Unsupported{Why: "no oracle reading for kind"})
				}
				okv, why = sameValue(in, leaf(in, recv.V, lp), exp, care)
			})
			if e3 != nil {
				res.undecided("undecided", "dec.layout/"+lp, e3.Error(), pos)
				continue
			}
			res.add("dec.layout", "dec.layout/"+lp, okv, "decoded "+lp+" = oracle reading of the wire bits (reserved bits ignored)", why, pos)
		}
	}
	res.Nodes += d.M.Size()
	// length discipline
	for _, delta := range []int{-1, 1} {
		n := spec.Size + delta
		if n < 0 {
			continue
		}
		in2 := absint.NewInterp(c.Prog)
		data2 := in2.SymBytes("data", n)
		recv2 := &absint.Cell{V: in2.Zero(T)}
		var dec2 []absint.Value
		err := in2.Try(func() {
			dec2 = in2.CallMethod(recv2, T, "UnmarshalBinary", unmarshalArgs(in2, T, data2, spec.Dir == "up")...)
		})
		clause := "dec.short"
		if delta > 0 {
			clause = "dec.long"
		}
		if err != nil {
			// running off the end of the buffer on a live path is itself the finding for short input
			res.add(clause, fmt.Sprintf("dec/len%+d", delta), false, fmt.Sprintf("%d bytes are rejected with an error", n), "decoder does not reject: "+err.Error(), pos)
			continue
		}
		de, _ := dec2[0].(*absint.ErrVal)
		rejected := de != nil && de.NonNil == absint.True
		res.add(clause, fmt.Sprintf("dec/len%+d", delta), rejected, fmt.Sprintf("%d bytes are rejected with an error", n), fmt.Sprintf("rejected=%v", rejected), pos)
	}
}
