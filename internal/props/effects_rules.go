package props

import (
	"fmt"
	"go/token"
	"go/types"
	"sort"
	"strings"

	"golang.org/x/tools/go/ssa"

	"lwverif/internal/effects"
	"lwverif/internal/load"
)

// Reusable rules on engine E4 for properties other than C10 (C09-R3, C07-R6, C16-R7).
// Each takes the rule id under which its obligations are reported; none registers a property.

// ---------------------------------------------------------------------------------------------
// C09-R3 NO-INPUT-WRITE

// decoderEntryRoots is the default root set of ruleNoInputWrite: every exported Unmarshal*, Scan,
// Decode*, Decrypt* function or method of the module plus GetMACPayloadAndSize.
func decoderEntryRoots(info *effectsInfo) []*ssa.Function {
	var out []*ssa.Function
	for _, f := range info.Funcs {
		if !isUserFunc(f) {
			continue
		}
		n := f.Name()
		if strings.HasPrefix(n, "Unmarshal") || n == "Scan" || strings.HasPrefix(n, "Decode") || strings.HasPrefix(n, "Decrypt") || n == "GetMACPayloadAndSize" {
			out = append(out, f)
		}
	}
	return out
}

// ruleNoInputWrite: no store, copy destination or in-place append through an input parameter of
// a decoder root or any of its callees; and — because decoded frames keep sub-slices of the
// buffer they were decoded from, or of slices the caller put into the frame — no write into a
// []byte backing array that is reachable from the receiver either (only fresh buffers and the
// receiver's own fields/arrays may be written).
func ruleNoInputWrite(c *Ctx, rule string, roots []*ssa.Function) {
	r := c.Run
	info := effectsFor(c.Prog)
	r.Rule(rule, "decoder entry points and their callees never write (store, copy destination, in-place append) through an input parameter, nor into a []byte held by the receiver (which may be a sub-slice of an earlier input buffer)")
	if roots == nil {
		roots = decoderEntryRoots(info)
	}
	if len(roots) == 0 {
		r.Unknown(rule, "roots", "", "decoder roots found", "none")
		return
	}
	for _, f := range roots {
		s := info.A.Sums[f]
		if s == nil {
			r.Unknown(rule, funcKey(f), c.Prog.Rel(f.Pos()), "function summarised", "not in the analysed module")
			continue
		}
		r.Saw("decoder roots checked for input writes", funcKey(f))
		for _, pi := range inputParams(f) {
			root := fmt.Sprintf("P%d", pi)
			key := funcKey(f) + "/" + f.Params[pi].Name()
			want := "no write through parameter " + f.Params[pi].Name()
			var bad, opq []string
			pos := ""
			collect := func(m map[string][]*effects.Effect, into *[]string) {
				for _, l := range sortedStr(m) {
					if effects.RootOf(l) != root {
						continue
					}
					for _, e := range m[l] {
						*into = append(*into, l+": "+e.Chain())
						if pos == "" {
							pos = posOf(c, e)
						}
					}
				}
			}
			collect(s.Writes, &bad)
			collect(s.Appends, &bad)
			collect(s.Opaque, &opq)
			switch {
			case len(bad) > 0:
				r.Bad(rule, key, pos, want, strings.Join(bad, "; "))
			case len(opq) > 0:
				r.Unknown(rule, key, pos, want, "passed to a callee without effect-table entry: "+strings.Join(opq, "; "))
			default:
				r.OK(rule, key, c.Prog.Rel(f.Pos()), want, "writes-through, in-place-append: none on "+root, true)
			}
		}
		if f.Signature.Recv() == nil {
			continue
		}
		key := funcKey(f) + "/receiver-held-bytes"
		want := "no write into a []byte backing array reachable from the receiver"
		var bad []string
		pos := ""
		for _, m := range []map[string][]*effects.Effect{s.Writes, s.Appends} {
			for _, l := range sortedStr(m) {
				if effects.ParamIndex(l) != 0 || !effects.IsDeep(l) {
					continue
				}
				for _, e := range m[l] {
					if e.Bytes && e.SliceMem {
						bad = append(bad, l+": "+e.Chain())
						if pos == "" {
							pos = posOf(c, e)
						}
					}
				}
			}
		}
		if len(bad) > 0 {
			r.Bad(rule, key, pos, want, strings.Join(bad, "; "))
		} else {
			r.OK(rule, key, c.Prog.Rel(f.Pos()), want, "byte writes land in fresh buffers or in the receiver's own fields only", isPtrRecv(f))
		}
	}
}

// ---------------------------------------------------------------------------------------------
// C07-R6 REGISTRY-WRITERS

func ruleRegistryWriters(c *Ctx, rule string) {
	r := c.Run
	info := effectsFor(c.Prog)
	r.Rule(rule, "the package-level maps GetMACPayloadAndSize reads (the MAC payload registries) are written after init by RegisterProprietaryMACCommand only (itself or helpers only it calls), and only with the registry's package-level mutex write-locked; which pair a registration changes is decided by R9 through the accessor")
	reg := c.Prog.SSAFunc("", "RegisterProprietaryMACCommand")
	get := c.Prog.SSAFunc("", "GetMACPayloadAndSize")
	if reg == nil || get == nil {
		r.Unknown(rule, "lorawan.RegisterProprietaryMACCommand", "", "anchor functions present", "RegisterProprietaryMACCommand or GetMACPayloadAndSize missing")
		return
	}
	// the registries: map-typed package-level variables of the module read from GetMACPayloadAndSize and its callees
	regs := map[string]bool{}
	seen := map[*ssa.Function]bool{}
	var walk func(f *ssa.Function)
	walk = func(f *ssa.Function) {
		if seen[f] || info.A.Sums[f] == nil {
			return
		}
		seen[f] = true
		if fa := info.A.Facts[f]; fa != nil {
			for _, a := range fa.Accesses {
				if g := globalByName(c, a.Global); g != nil {
					// a registry is a table: a map, or an array / slice indexed by direction and CID
					switch g.Type().(*types.Pointer).Elem().Underlying().(type) {
					case *types.Map, *types.Array, *types.Slice:
						regs[a.Global] = true
					}
				}
			}
		}
		for _, b := range f.Blocks {
			for _, ins := range b.Instrs {
				if ci, ok := ins.(ssa.CallInstruction); ok {
					for _, callee := range info.A.CalleesOf(ci) {
						walk(callee)
					}
				}
			}
		}
	}
	walk(get)
	names := sortedStr(regs)
	if len(names) == 0 {
		r.Unknown(rule, "registries", c.Prog.Rel(get.Pos()), "GetMACPayloadAndSize reads a package-level table", "none found among its accesses")
		return
	}
	// helpers only RegisterProprietaryMACCommand calls count as part of it
	cg := c.Prog.CallGraph()
	regOnly := func(f *ssa.Function) bool {
		for i := 0; i < 3 && f != reg; i++ {
			n := cg.Nodes[f]
			if n == nil || len(n.In) == 0 {
				return false
			}
			var up *ssa.Function
			for _, e := range n.In {
				if up != nil && e.Caller.Func != up {
					return false
				}
				up = e.Caller.Func
			}
			f = up
		}
		return f == reg
	}
	writers := globalWriters(info)
	locks := map[*ssa.Function]*effects.LockInfo{}
	anyWriter := false
	for _, name := range names {
		if len(writers[name]) > 0 {
			anyWriter = true
		}
	}
	for _, name := range names {
		r.Saw("MAC payload registries (maps read by GetMACPayloadAndSize)", name)
		ws := writers[name]
		if len(ws) == 0 {
			if anyWriter {
				// a table of the accessor that nothing writes after initialisation (the standard commands in a flat
				// array next to the registry of proprietary ones): there is no writer to check
				r.OK(rule, "writers/"+name, "", "written after init by RegisterProprietaryMACCommand only", "never written after initialisation", false)
				continue
			}
			r.Unknown(rule, "writers/"+name, "", "RegisterProprietaryMACCommand updates the registry", "no post-init write found (registration not recognised)")
			continue
		}
		for i, a := range ws {
			f := a.Instr.Parent()
			key := fmt.Sprintf("writers/%s/%s#%d", name, funcKey(f), i)
			pos := c.Prog.Rel(a.Instr.Pos())
			if !regOnly(f) {
				r.Bad(rule, key, pos, "post-init writer is RegisterProprietaryMACCommand", funcKey(f)+" also writes the registry: "+a.Desc)
				continue
			}
			// the lock: held for writing at the update; for a helper, at its only call site chain
			ins := a.Instr
			fn := f
			held := false
			var state, mutexName string
			for depth := 0; depth < 4; depth++ {
				li := locks[fn]
				if li == nil {
					li = effects.Locks(fn)
					locks[fn] = li
				}
				// whichever package-level mutex guards the registry (that every access holds one common mutex is C10-R7)
				state = "not held"
				hb := li.HeldBefore(ins)
				var mnames []string
				for m := range hb {
					mnames = append(mnames, m)
				}
				sort.Strings(mnames)
				for _, m := range mnames {
					if !strings.HasPrefix(m, "G:") {
						continue
					}
					if st := hb[m]; st.Held == effects.HeldWrite {
						held = true
						mutexName = strings.TrimPrefix(m, "G:")
					} else if st.Held.String() != "" && state == "not held" {
						state = strings.TrimPrefix(m, "G:") + " is " + st.Held.String()
					}
				}
				if held {
					break
				}
				if fn == reg {
					break
				}
				n := cg.Nodes[fn]
				if n == nil || len(n.In) != 1 || n.In[0].Site == nil {
					break
				}
				ins = n.In[0].Site
				fn = n.In[0].Caller.Func
			}
			if held {
				r.OK(rule, key, pos, "written by RegisterProprietaryMACCommand under the write lock of the registry's mutex", a.Desc+"; "+mutexName+".Lock held", true)
			} else {
				r.Bad(rule, key, pos, "update under the write lock of a package-level mutex", "no package-level mutex is write-locked at the update ("+state+")")
			}
		}
	}
	for _, lk := range effects.Locks(reg).Leaks {
		r.Bad(rule, "unlock/"+lk.Mutex, c.Prog.Rel(lk.Return.Pos()), "mutex released on every path", "a return leaves "+lk.Mutex+" locked")
	}
}

func globalByName(c *Ctx, name string) *ssa.Global {
	i := strings.LastIndex(name, ".")
	if i < 0 {
		return nil
	}
	pkg, v := name[:i], name[i+1:]
	for _, sp := range c.Prog.SSA.AllPackages() {
		if sp.Pkg.Name() == pkg || strings.HasSuffix(sp.Pkg.Path(), "/"+pkg) || sp.Pkg.Path() == pkg {
			if g, ok := sp.Members[v].(*ssa.Global); ok && strings.HasPrefix(sp.Pkg.Path(), load.ModPath) {
				return g
			}
		}
	}
	return nil
}

func isLoadOfGlobal(v ssa.Value, name string) bool {
	u, ok := v.(*ssa.UnOp)
	if !ok || u.Op != token.MUL {
		return false
	}
	g, ok := u.X.(*ssa.Global)
	return ok && g.Name() == name
}

func isBool(t types.Type) bool {
	b, ok := t.Underlying().(*types.Basic)
	return ok && b.Kind() == types.Bool
}

// paramThrough: the value is a parameter, possibly through conversions.
func paramThrough(v ssa.Value) *ssa.Parameter {
	return paramOf(v)
}

// ---------------------------------------------------------------------------------------------
// C16-R7 STATELESS

// ruleStateless: root (an http handler's ServeHTTP) and everything it calls write no field of
// the receiver and no package-level variable, so concurrent requests share only read-only state.
func ruleStateless(c *Ctx, rule string, root *ssa.Function) {
	r := c.Run
	r.Rule(rule, "the root function and its callees write no field of the receiver and no package-level variable (results depend on the arguments only, concurrent calls share read-only state)")
	if root == nil {
		r.Unknown(rule, "root", "", "handler function present", "missing")
		return
	}
	info := effectsFor(c.Prog)
	s := info.A.Sums[root]
	if s == nil {
		r.Unknown(rule, funcKey(root), c.Prog.Rel(root.Pos()), "function summarised", "not in the analysed module")
		return
	}
	var recv, globs, opq []string
	posR, posG := "", ""
	dup := map[string]bool{}
	pool := false
	for _, m := range []map[string][]*effects.Effect{s.Writes, s.Appends} {
		for _, l := range sortedStr(m) {
			for _, e := range m[l] {
				switch {
				case effects.ParamIndex(l) == 0 && root.Signature.Recv() != nil:
					if t := "receiver: " + e.Chain(); !dup[t] {
						dup[t] = true
						recv = append(recv, t)
					}
					if posR == "" {
						posR = posOf(c, e)
					}
				case effects.GlobalName(l) != "":
					if isPoolEffect(e) {
						pool = true
						continue
					}
					if t := effects.GlobalName(l) + ": " + e.Chain(); !dup[t] {
						dup[t] = true
						globs = append(globs, t)
					}
					if posG == "" {
						posG = posOf(c, e)
					}
				}
			}
		}
	}
	for _, l := range sortedStr(s.Opaque) {
		if effects.ParamIndex(l) == 0 || effects.GlobalName(l) != "" {
			for _, e := range s.Opaque[l] {
				opq = append(opq, l+": "+e.Chain())
			}
		}
	}
	n := reachableCount(info, root)
	key := funcKey(root)
	if pool {
		poolObligation(c, rule, key, info, root)
	}
	if len(recv) > 0 {
		r.Bad(rule, key+"/receiver", posR, "no write through the receiver", strings.Join(recv, "; "))
	} else {
		r.OK(rule, key+"/receiver", c.Prog.Rel(root.Pos()), "no write through the receiver", fmt.Sprintf("summary over %d reachable module functions has no write with root P0", n), true)
	}
	if len(globs) > 0 {
		r.Bad(rule, key+"/globals", posG, "no write to a package-level variable", strings.Join(globs, "; "))
	} else {
		r.OK(rule, key+"/globals", c.Prog.Rel(root.Pos()), "no write to a package-level variable", fmt.Sprintf("summary over %d reachable module functions has no write with a global root", n), true)
	}
	if len(opq) > 0 {
		r.Unknown(rule, key+"/opaque", c.Prog.Rel(root.Pos()), "every callee has a summary or effect-table entry", strings.Join(opq, "; "))
	}
}

// ruleStatelessGlobals is ruleStateless restricted to package-level state: for methods whose job is to fill their
// receiver (decoders) only the global clause applies.
func ruleStatelessGlobals(c *Ctx, rule string, root *ssa.Function) {
	r := c.Run
	r.Rule(rule, "the function and its callees write no package-level variable: the result depends on the arguments only")
	info := effectsFor(c.Prog)
	s := info.A.Sums[root]
	if s == nil {
		r.Unknown(rule, funcKey(root), c.Prog.Rel(root.Pos()), "function summarised", "not in the analysed module")
		return
	}
	var globs, opq []string
	pos := ""
	dup := map[string]bool{}
	pool := false
	for _, m := range []map[string][]*effects.Effect{s.Writes, s.Appends} {
		for _, l := range sortedStr(m) {
			for _, e := range m[l] {
				if g := effects.GlobalName(l); g != "" {
					if isPoolEffect(e) {
						pool = true
						continue
					}
					if t := g + ": " + e.Chain(); !dup[t] {
						dup[t] = true
						globs = append(globs, t)
					}
					if pos == "" {
						pos = posOf(c, e)
					}
				}
			}
		}
	}
	for _, l := range sortedStr(s.Opaque) {
		if effects.GlobalName(l) != "" {
			for _, e := range s.Opaque[l] {
				opq = append(opq, l+": "+e.Chain())
			}
		}
	}
	key := funcKey(root)
	if pool {
		poolObligation(c, rule, key, info, root)
	}
	if len(globs) > 0 {
		r.Bad(rule, key+"/globals", pos, "no write to a package-level variable", strings.Join(globs, "; "))
	} else {
		r.OK(rule, key+"/globals", c.Prog.Rel(root.Pos()), "no write to a package-level variable", fmt.Sprintf("summary over %d reachable module functions has no write with a global root", reachableCount(info, root)), true)
	}
	if len(opq) > 0 {
		r.Unknown(rule, key+"/opaque", c.Prog.Rel(root.Pos()), "every callee has a summary or effect-table entry", strings.Join(opq, "; "))
	}
}

// reachableCount counts module functions reachable from root through resolved calls.
func reachableCount(info *effectsInfo, root *ssa.Function) int {
	seen := map[*ssa.Function]bool{}
	var walk func(f *ssa.Function)
	walk = func(f *ssa.Function) {
		if seen[f] || info.A.Sums[f] == nil {
			return
		}
		seen[f] = true
		for _, b := range f.Blocks {
			for _, ins := range b.Instrs {
				if ci, ok := ins.(ssa.CallInstruction); ok {
					for _, callee := range info.A.CalleesOf(ci) {
						walk(callee)
					}
				}
				if mc, ok := ins.(*ssa.MakeClosure); ok {
					if fn, ok := mc.Fn.(*ssa.Function); ok {
						walk(fn)
					}
				}
			}
		}
	}
	walk(root)
	return len(seen)
}

// statelessRoots applies ruleStatelessGlobals to the named functions/methods of the root package: cryptographic
// routines are functions of their arguments (and receiver) only — a package-level scratch buffer, pool or cache makes a
// later call depend on an earlier one.
func statelessRoots(c *Ctx, rule string, names ...string) {
	for _, n := range names {
		fn := c.Prog.SSAFunc("", n)
		if fn == nil {
			c.Run.Unknown(rule, "lorawan."+n, "", "anchor function exists", "missing")
			continue
		}
		ruleStatelessGlobals(c, rule, fn)
	}
}

// ---------------------------------------------------------------------------------------------
// sync.Pool: scratch memory that survives from one call to the next

// isPoolEffect: the write is the pool's own bookkeeping (Get / Put on a sync.Pool).
func isPoolEffect(e *effects.Effect) bool {
	return strings.HasPrefix(e.Kind, "ext:(*sync.Pool).")
}

// poolObligation: a function that takes scratch memory from a sync.Pool depends on nothing but its arguments only if
// what the previous user left in that memory cannot be observed. Decided for the plain idiom: directly after
// `p := pool.Get().(*T)` — in the same block, before p is used for anything else — the whole object is overwritten
// with a value that does not depend on it (`*p = T{}`). Anything else (partial initialisation, a buffer that is cleared
// by a loop, a slice re-sliced up to its capacity) is left undecided: the rule neither accepts nor refutes it.
func poolObligation(c *Ctx, rule, key string, info *effectsInfo, root *ssa.Function) {
	r := c.Run
	gets := reachablePoolGets(info, root)
	var unproven []string
	pos := ""
	for _, g := range gets {
		if !poolResetProven(g) {
			unproven = append(unproven, funcKey(g.Parent())+": "+c.Prog.Rel(g.Pos()))
			if pos == "" {
				pos = c.Prog.Rel(g.Pos())
			}
		}
	}
	want := "memory taken from a sync.Pool is completely overwritten before it is used"
	if len(unproven) == 0 {
		r.OK(rule, key+"/pooled-scratch", c.Prog.Rel(root.Pos()), want, fmt.Sprintf("%d Get site(s), each followed at once by a whole-object store", len(gets)), true)
		return
	}
	r.Unknown(rule, key+"/pooled-scratch", pos, want, "not in the form `p := pool.Get().(*T); *p = T{}`: "+strings.Join(unproven, "; "))
}

func reachablePoolGets(info *effectsInfo, root *ssa.Function) []*ssa.Call {
	var out []*ssa.Call
	seen := map[*ssa.Function]bool{}
	var walk func(f *ssa.Function)
	walk = func(f *ssa.Function) {
		if seen[f] || info.A.Sums[f] == nil {
			return
		}
		seen[f] = true
		for _, b := range f.Blocks {
			for _, ins := range b.Instrs {
				ci, ok := ins.(ssa.CallInstruction)
				if !ok {
					continue
				}
				if call, isCall := ins.(*ssa.Call); isCall {
					if sc := call.Call.StaticCallee(); sc != nil && sc.String() == "(*sync.Pool).Get" {
						out = append(out, call)
					}
				}
				for _, callee := range info.A.CalleesOf(ci) {
					walk(callee)
				}
			}
		}
	}
	walk(root)
	return out
}

// poolResetProven: get is `pool.Get()`; its only use is a type assertion to a pointer p, and the first use of p (same
// block, nothing but the assertion in between that touches p) is the store of a constant or freshly built value to *p.
func poolResetProven(get *ssa.Call) bool {
	var ta *ssa.TypeAssert
	for _, ref := range *get.Referrers() {
		switch x := ref.(type) {
		case *ssa.TypeAssert:
			if ta != nil {
				return false
			}
			ta = x
		case *ssa.DebugRef:
		default:
			return false
		}
	}
	if ta == nil {
		return false
	}
	var p ssa.Value = ta
	if ta.CommaOk {
		p = nil
		for _, ref := range *ta.Referrers() {
			if ex, ok := ref.(*ssa.Extract); ok && ex.Index == 0 {
				p = ex
			}
		}
		if p == nil {
			return false
		}
	}
	if _, isPtr := p.Type().Underlying().(*types.Pointer); !isPtr {
		return false
	}
	uses := map[ssa.Instruction]bool{}
	for _, ref := range *p.Referrers() {
		if _, dbg := ref.(*ssa.DebugRef); !dbg {
			uses[ref] = true
		}
	}
	b := ta.Block()
	started := false
	for _, ins := range b.Instrs {
		if ins == ssa.Instruction(ta) {
			started = true
			continue
		}
		if !started || !uses[ins] {
			continue
		}
		// the first use of p
		if _, isDefer := ins.(*ssa.Defer); isDefer {
			continue // `defer pool.Put(p)` registers the return of the object; it runs after everything else
		}
		st, ok := ins.(*ssa.Store)
		if !ok || st.Addr != p {
			return false
		}
		switch v := st.Val.(type) {
		case *ssa.Const:
			return true
		case *ssa.UnOp:
			// a composite literal spilled to a local and loaded: its address must be a fresh local
			if al, ok := v.X.(*ssa.Alloc); ok && v.Op == token.MUL && !al.Heap {
				return true
			}
		}
		return false
	}
	return false
}
