package props

import (
	"fmt"
	"go/types"
	"strings"

	"golang.org/x/tools/go/ssa"

	"lwverif/internal/flow"
)

// Rules of engine E5 that belong to properties owned by other files (C02, C03, C04, C11). They are plain
// functions: the property file that owns the id calls them; nothing is registered here.

// ---------------------------------------------------------------------------
// C02-R4 WRAPPERS

// flowC02: Set{Up,Down}linkDataMIC store the computed MIC into p.MIC on the success path and report a
// failure; Validate* pass every parameter through unchanged and in order to calculate* and return the
// comparison of all four MIC bytes; ValidateUplinkDataMICF fixes version 1.1, uses the one key for both
// roles and compares bytes 2..3 only.
func flowC02(c *Ctx) {
	const rule = "R4.wrapper-flow"
	c.Run.Rule(rule, "Set*DataMIC store calculate*'s result in p.MIC; Validate* pass all parameters through in order and compare all four MIC bytes (MICF: bytes 2-3, version 1.1)")
	type w struct {
		name, calc string
		set        bool
	}
	for _, x := range []w{
		{"PHYPayload.SetUplinkDataMIC", "(*lorawan.PHYPayload).calculateUplinkDataMIC", true},
		{"PHYPayload.SetDownlinkDataMIC", "(*lorawan.PHYPayload).calculateDownlinkDataMIC", true},
		{"PHYPayload.ValidateUplinkDataMIC", "(*lorawan.PHYPayload).calculateUplinkDataMIC", false},
		{"PHYPayload.ValidateDownlinkDataMIC", "(*lorawan.PHYPayload).calculateDownlinkDataMIC", false},
	} {
		fn := flowFn(c, rule, "", x.name)
		if fn == nil {
			continue
		}
		micWrapper(c, rule, fn, x.calc, x.set, nil)
	}
	if fn := flowFn(c, rule, "", "PHYPayload.ValidateUplinkDataMICF"); fn != nil {
		// (p, LoRaWAN1_1, 0, 0, 0, key, key)
		want := []*flow.Term{flow.Param(0), flow.ConstInt(1), flow.ConstInt(0), flow.ConstInt(0), flow.ConstInt(0), flow.Param(1), flow.Param(1)}
		micWrapper(c, rule, fn, "(*lorawan.PHYPayload).calculateUplinkDataMIC", false, want)
	}
}

// micWrapper checks one Set*/Validate* wrapper. wantArgs == nil means "the wrapper's own parameters in order".
// half=true (MICF) is recognised by wantArgs != nil.
func micWrapper(c *Ctx, rule string, fn *ssa.Function, calc string, set bool, wantArgs []*flow.Term) {
	key := fnKey(fn)
	e := flow.For(fn)
	s, ok := oneSite(c, rule, key+"/call:"+calc, fn, calc)
	if !ok {
		return
	}
	micf := wantArgs != nil
	if wantArgs == nil {
		for i := range fn.Params {
			wantArgs = append(wantArgs, flow.Param(i))
		}
	}
	passThrough(c, rule, key+"/args", fn, s, wantArgs)
	call := s.Value()
	callT := e.Term(call)
	mic := flow.Extract(callT, 0)
	errSwallowRule(c, rule, fn)
	ei := errIndex(fn)
	nSucc := 0
	for _, r := range flow.Returns(fn) {
		if !mayReturnNil(e, r, ei) {
			continue
		}
		nSucc++
		rk := fmt.Sprintf("%s/success-return#%d", key, nSucc)
		// the success return must lie behind the "err == nil" outcome of the calculate* call
		pc := e.PathCond(r.Block(), nil)
		okAtom := flow.Eq(flow.Extract(callT, 1), flow.Nil())
		if !flow.Implies(pc, okAtom) {
			// the error (and the result) may be produced by a module helper that receives the outcome of the calculation
			// (`return p.setMIC(p.calculate…(…))`): what the wrapper returns is then decided inside the helper, which this
			// rule does not read — R4.wrappers interprets the wrapper as a whole
			if h := unknownHelper(e.Select(r.Results[ei], nil, r), nil); h != "" {
				c.Run.Unknown(rule, rk+"/after-success", ipos(c, r), "a nil error is only returned when "+calc+" succeeded", "the returned error is produced by helper "+h)
				continue
			}
			c.Run.Bad(rule, rk+"/after-success", ipos(c, r), "a nil error is only returned when "+calc+" succeeded", "path condition "+short(pc.Pretty()))
			continue
		}
		if set {
			got := e.SelectAddr(fn.Params[0], []string{"MIC"}, r)
			checkTerm(c, rule, rk+"/p.MIC", ipos(c, r), "p.MIC at the successful return", got, mic)
			continue
		}
		res := e.Select(r.Results[0], nil, r)
		stored := flow.Param(0, "MIC")
		// a comparison written byte by byte (`a[2] == b[2] && a[3] == b[3]`)
		if set, ok := conjByteEq(res, stored, mic); ok {
			wantSet := map[int]bool{0: true, 1: true, 2: true, 3: true}
			what := "result (all four MIC bytes)"
			if micf {
				wantSet = map[int]bool{2: true, 3: true}
				what = "result (bytes 2..3 = cmacF)"
			}
			same := len(set) == len(wantSet)
			for i := range wantSet {
				same = same && set[i]
			}
			var got []string
			for i := 0; i < 4; i++ {
				if set[i] {
					got = append(got, fmt.Sprint(i))
				}
			}
			c.Run.Check(same, rule, rk+"/compare", ipos(c, r), what, "compares bytes "+strings.Join(got, ",")+" one by one", true)
			continue
		}
		if micf {
			w1 := flow.Call("bytes.Equal", flow.SliceOf(stored, flow.ConstInt(2), nil), flow.SliceOf(mic, flow.ConstInt(2), nil))
			w2 := flow.Call("bytes.Equal", flow.SliceOf(mic, flow.ConstInt(2), nil), flow.SliceOf(stored, flow.ConstInt(2), nil))
			w3 := flow.Call("bytes.Equal", flow.SliceOf(stored, flow.ConstInt(2), flow.ConstInt(4)), flow.SliceOf(mic, flow.ConstInt(2), flow.ConstInt(4)))
			checkTerm(c, rule, rk+"/compare", ipos(c, r), "result (bytes 2..3 = cmacF)", res, w1, w2, w3)
			continue
		}
		w1 := flow.Bin("==", stored, mic)
		w2 := flow.Bin("==", mic, stored)
		w3 := flow.Call("bytes.Equal", flow.SliceOf(stored, nil, nil), flow.SliceOf(mic, nil, nil))
		w4 := flow.Call("bytes.Equal", flow.SliceOf(mic, nil, nil), flow.SliceOf(stored, nil, nil))
		checkTerm(c, rule, rk+"/compare", ipos(c, r), "result (all four MIC bytes)", res, w1, w2, w3, w4)
	}
	if nSucc == 0 {
		c.Run.Unknown(rule, key+"/success-return", fpos(c, fn), "a return with a nil error", "none found")
	}
}

// conjByteEq: t is a conjunction (`&&` as ite(c, rest, false)) of comparisons a.[i] == b.[i] between the two given
// 4-byte values; returns the set of indices compared.
func conjByteEq(t, a, b *flow.Term) (map[int]bool, bool) {
	set := map[int]bool{}
	var walk func(t *flow.Term) bool
	walk = func(t *flow.Term) bool {
		switch {
		case t.Op == "ite" && len(t.Args) == 3 && t.Args[2].Op == "const" && t.Args[2].Val == "false":
			return walk(t.Args[0]) && walk(t.Args[1])
		case t.Op == "bin" && t.Val == "==" && len(t.Args) == 2:
			for i := 0; i < 4; i++ {
				f := fmt.Sprintf("[%d]", i)
				x, y := a.Field(f), b.Field(f)
				if (t.Args[0].Equal(x) && t.Args[1].Equal(y)) || (t.Args[0].Equal(y) && t.Args[1].Equal(x)) {
					set[i] = true
					return true
				}
			}
		}
		return false
	}
	if !walk(t) || len(set) == 0 {
		return nil, false
	}
	return set, true
}

// ---------------------------------------------------------------------------
// C03-R4 METHOD WIRING, R5 ERR-SWALLOW, R6 SUCCESS⇒STORE

func macPLTerm() *flow.Term {
	return flow.Extract(flow.Assert(flow.Param(0, "MACPayload"), "*lorawan.MACPayload"), 0)
}

func isUplinkTerm() *flow.Term { return flow.Call("(lorawan.PHYPayload).isUplink", flow.Param(0)) }

func flowC03(c *Ctx) {
	const r4, r5, r6 = "R4.wiring", "R5.errswallow", "R6.success-store"
	c.Run.Rule(r4, "PHYPayload.EncryptFOpts/EncryptFRMPayload pass key, aFCntDown = !uplink && FPort != nil && *FPort > 0, isUplink(), FHDR.DevAddr and the 32-bit FHDR.FCnt; Decrypt* = Encrypt* then decode (FRMPayload: iff FPort == 0)")
	c.Run.Rule(r5, "no `err != nil` branch of the encryption functions/methods reaches `return nil`")
	c.Run.Rule(r6, "every nil-error return is the documented empty case or follows the store of the transformed bytes (Decrypt*: follows a successful Encrypt*)")
	M := macPLTerm()
	U := isUplinkTerm()

	// --- PHYPayload.EncryptFOpts
	if fn := flowFn(c, r4, "", "PHYPayload.EncryptFOpts"); fn != nil {
		key := fnKey(fn)
		e := flow.For(fn)
		if s, ok := oneSite(c, r4, key+"/call:lorawan.EncryptFOpts", fn, "lorawan.EncryptFOpts"); ok {
			args := s.Instr.Common().Args
			if len(args) == 6 {
				checkTerm(c, r4, key+"/arg0:key", ipos(c, s.Instr), "key", s.Args[0], flow.Param(1))
				want := flow.FAnd(flow.FNot(flow.AtomOf(U)), flow.FNot(flow.Eq(M.Field("FPort"), flow.Nil())), flow.FNot(flow.Eq(flow.Deref(M.Field("FPort")), flow.ConstInt(0))))
				compareGuard(c, r4, key+"/arg1:aFCntDown", ipos(c, s.Instr), "aFCntDown", e.Bool(args[1]), want)
				checkTerm(c, r4, key+"/arg2:uplink", ipos(c, s.Instr), "uplink", s.Args[2], U)
				checkTerm(c, r4, key+"/arg3:devAddr", ipos(c, s.Instr), "devAddr", s.Args[3], M.Field("FHDR", "DevAddr"))
				checkTerm(c, r4, key+"/arg4:fCnt", ipos(c, s.Instr), "fCnt (32 bit, unmasked)", s.Args[4], M.Field("FHDR", "FCnt"))
				fcntWidth(c, r4, key+"/arg4:fCnt-width", s, args[4])
			} else {
				c.Run.Unknown(r4, key+"/args", ipos(c, s.Instr), "6 arguments", fmt.Sprint(len(args)))
			}
			successStore(c, r6, fn, s, []string{"FHDR", "FOpts"})
		}
		errSwallowRule(c, r5, fn)
	}
	// --- PHYPayload.EncryptFRMPayload
	if fn := flowFn(c, r4, "", "PHYPayload.EncryptFRMPayload"); fn != nil {
		key := fnKey(fn)
		if s, ok := oneSite(c, r4, key+"/call:lorawan.EncryptFRMPayload", fn, "lorawan.EncryptFRMPayload"); ok {
			args := s.Instr.Common().Args
			if len(args) == 5 {
				checkTerm(c, r4, key+"/arg0:key", ipos(c, s.Instr), "key", s.Args[0], flow.Param(1))
				checkTerm(c, r4, key+"/arg1:uplink", ipos(c, s.Instr), "uplink", s.Args[1], U)
				checkTerm(c, r4, key+"/arg2:devAddr", ipos(c, s.Instr), "devAddr", s.Args[2], M.Field("FHDR", "DevAddr"))
				checkTerm(c, r4, key+"/arg3:fCnt", ipos(c, s.Instr), "fCnt (32 bit, unmasked)", s.Args[3], M.Field("FHDR", "FCnt"))
				fcntWidth(c, r4, key+"/arg3:fCnt-width", s, args[3])
				data := flow.Extract(flow.Call("(lorawan.MACPayload).marshalPayload", flow.Deref(M)), 0)
				checkTerm(c, r4, key+"/arg4:data", ipos(c, s.Instr), "data", s.Args[4], data)
			} else {
				c.Run.Unknown(r4, key+"/args", ipos(c, s.Instr), "5 arguments", fmt.Sprint(len(args)))
			}
			successStore(c, r6, fn, s, []string{"FRMPayload"})
		}
		errSwallowRule(c, r5, fn)
	}
	// --- PHYPayload.DecryptFOpts = EncryptFOpts then DecodeFOptsToMACCommands
	if fn := flowFn(c, r4, "", "PHYPayload.DecryptFOpts"); fn != nil {
		key := fnKey(fn)
		e := flow.For(fn)
		enc, ok := oneSite(c, r4, key+"/call:EncryptFOpts", fn, "(*lorawan.PHYPayload).EncryptFOpts")
		if ok {
			passThrough(c, r4, key+"/args", fn, enc, []*flow.Term{flow.Param(0), flow.Param(1)})
			decryptAfterEncrypt(c, r6, fn, enc)
			if dec, ok := oneSite(c, r4, key+"/call:DecodeFOptsToMACCommands", fn, "(*lorawan.PHYPayload).DecodeFOptsToMACCommands"); ok {
				checkTerm(c, r4, key+"/decode-receiver", ipos(c, dec.Instr), "receiver of the decode step", dec.Args[0], flow.Param(0))
				encOK := flow.Eq(e.Term(enc.Value()), flow.Nil())
				compareGuard(c, r4, key+"/decode-guard", ipos(c, dec.Instr), "decode executes", e.PathCond(dec.Instr.Block(), nil), encOK)
			}
		}
		errSwallowRule(c, r5, fn)
	}
	// --- PHYPayload.DecryptFRMPayload = EncryptFRMPayload then decode iff FPort == 0
	if fn := flowFn(c, r4, "", "PHYPayload.DecryptFRMPayload"); fn != nil {
		key := fnKey(fn)
		e := flow.For(fn)
		enc, ok := oneSite(c, r4, key+"/call:EncryptFRMPayload", fn, "(*lorawan.PHYPayload).EncryptFRMPayload")
		if ok {
			passThrough(c, r4, key+"/args", fn, enc, []*flow.Term{flow.Param(0), flow.Param(1)})
			decryptAfterEncrypt(c, r6, fn, enc)
			if dec, ok := oneSite(c, r4, key+"/call:decodeDataPayloadToMACCommands", fn, "lorawan.decodeDataPayloadToMACCommands"); ok {
				encOK := flow.Eq(e.Term(enc.Value()), flow.Nil())
				want := flow.FAnd(encOK, flow.FNot(flow.Eq(M.Field("FPort"), flow.Nil())), flow.Eq(flow.Deref(M.Field("FPort")), flow.ConstInt(0)))
				compareGuard(c, r4, key+"/decode-guard", ipos(c, dec.Instr), "MAC-command decode executes", e.PathCond(dec.Instr.Block(), nil), want)
				if len(dec.Args) == 2 {
					checkTerm(c, r4, key+"/decode-arg0:uplink", ipos(c, dec.Instr), "uplink", dec.Args[0], U)
					checkTerm(c, r4, key+"/decode-arg1:payloads", ipos(c, dec.Instr), "payloads", dec.Args[1], M.Field("FRMPayload"))
				}
				// the decoded commands are stored back
				decT := flow.Extract(e.Term(dec.Value()), 0)
				found := false
				for _, b := range fn.Blocks {
					for _, ins := range b.Instrs {
						if st, ok := ins.(*ssa.Store); ok && e.Select(st.Val, nil, st).Equal(decT) {
							found = true
							checkTerm(c, r4, key+"/decode-store", ipos(c, st), "destination of the decoded commands", e.Term(st.Addr), flow.Addr(M.Field("FRMPayload")))
						}
					}
				}
				if !found {
					c.Run.Bad(r4, key+"/decode-store", ipos(c, dec.Instr), "decoded MAC commands are stored into macPL.FRMPayload", "result is not stored")
				}
			}
		}
		errSwallowRule(c, r5, fn)
	}
	// --- the package-level functions
	for _, n := range []string{"EncryptFOpts", "EncryptFRMPayload"} {
		if fn := flowFn(c, r5, "", n); fn != nil {
			errSwallowRule(c, r5, fn)
		}
	}
}

// fcntWidth: the frame counter argument is a 32-bit unsigned value that was not narrowed on the way.
func fcntWidth(c *Ctx, rule, key string, s flow.Site, v ssa.Value) {
	b, ok := v.Type().Underlying().(*types.Basic)
	narrowed := false
	for x := v; ; {
		cv, isC := x.(*ssa.Convert)
		if !isC {
			break
		}
		if sb, ok := cv.X.Type().Underlying().(*types.Basic); ok && (sb.Kind() == types.Uint16 || sb.Kind() == types.Uint8) {
			narrowed = true
		}
		x = cv.X
	}
	c.Run.Check(ok && b.Kind() == types.Uint32 && !narrowed, rule, key, ipos(c, s.Instr), "uint32 without a narrowing conversion", v.Type().String(), true)
}

// successStore (Encrypt* methods): every return that may carry a nil error is either the empty case
// (dominated by len(field) == 0) or sees the field holding the bytes returned by the encryption call.
func successStore(c *Ctx, rule string, fn *ssa.Function, enc flow.Site, field []string) {
	e := flow.For(fn)
	M := macPLTerm()
	ei := errIndex(fn)
	encT := e.Term(enc.Value())
	data := flow.Extract(encT, 0)
	empty := flow.Eq(flow.Call("len", M.Field(field...)), flow.ConstInt(0))
	n := 0
	for _, r := range flow.Returns(fn) {
		if !mayReturnNil(e, r, ei) {
			continue
		}
		n++
		rk := fmt.Sprintf("%s/nil-return#%d", fnKey(fn), n)
		pc := e.PathCond(r.Block(), nil)
		if flow.Implies(pc, empty) {
			c.Run.OK(rule, rk, ipos(c, r), "empty case or transformed bytes stored", "empty case: "+empty.String(), true)
			continue
		}
		// content of macPL.<field> at the return: a one-element slice holding &DataPayload{Bytes: data}
		var base ssa.Value
		for _, b := range fn.Blocks {
			for _, ins := range b.Instrs {
				if ex, ok := ins.(*ssa.Extract); ok && ex.Index == 0 {
					if ta, ok := ex.Tuple.(*ssa.TypeAssert); ok && e.Term(ex).Equal(M) {
						_ = ta
						base = ex
					}
				}
			}
		}
		if base == nil {
			c.Run.Unknown(rule, rk, ipos(c, r), "macPL := p.MACPayload.(*MACPayload)", "not found")
			continue
		}
		got := e.SelectAddr(base, field, r)
		ok := got.Has(func(t *flow.Term) bool { return t.Equal(data) }) && flow.Implies(pc, flow.Eq(flow.Extract(encT, 1), flow.Nil()))
		if ok {
			c.Run.OK(rule, rk, ipos(c, r), "macPL."+strings.Join(field, ".")+" holds the bytes returned by "+enc.Callee, short(got.String()), true)
		} else if got.IsUnknown() {
			c.Run.Unknown(rule, rk, ipos(c, r), "macPL."+strings.Join(field, ".")+" holds the bytes returned by "+enc.Callee, short(got.String()))
		} else {
			c.Run.Bad(rule, rk, ipos(c, r), "macPL."+strings.Join(field, ".")+" holds the bytes returned by "+enc.Callee+" (or len == 0)", "at this nil-error return the field is "+short(got.String())+" under "+short(pc.Pretty()))
		}
	}
	if n == 0 {
		c.Run.Unknown(rule, fnKey(fn)+"/nil-return", fpos(c, fn), "a return with a nil error", "none")
	}
}

// decryptAfterEncrypt (Decrypt* methods): a return that may carry a nil error must lie behind the
// "err == nil" outcome of the Encrypt* call.
func decryptAfterEncrypt(c *Ctx, rule string, fn *ssa.Function, enc flow.Site) {
	e := flow.For(fn)
	ei := errIndex(fn)
	okAtom := flow.Eq(e.Term(enc.Value()), flow.Nil())
	n := 0
	for _, r := range flow.Returns(fn) {
		if !mayReturnNil(e, r, ei) {
			continue
		}
		n++
		rk := fmt.Sprintf("%s/nil-return#%d", fnKey(fn), n)
		pc := e.PathCond(r.Block(), nil)
		if flow.Implies(pc, okAtom) {
			c.Run.OK(rule, rk, ipos(c, r), "a nil error is returned only after "+enc.Callee+" succeeded", short(pc.Pretty()), true)
		} else {
			c.Run.Bad(rule, rk, ipos(c, r), "a nil error is returned only after "+enc.Callee+" succeeded", "this return can yield nil under "+short(pc.Pretty())+": success is reported while the data was not transformed")
		}
	}
	if n == 0 {
		c.Run.Unknown(rule, fnKey(fn)+"/nil-return", fpos(c, fn), "a return with a nil error", "none")
	}
}
