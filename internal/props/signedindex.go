package props

import (
	"fmt"
	"go/token"
	"go/types"
	"sort"
	"strings"

	"golang.org/x/tools/go/ssa"

	"lwverif/internal/guards"
	"lwverif/internal/load"
)

// signedIndexRule: in every method of package rel selected by pick, a slice/array/string index whose index
// operand is (a conversion of) a signed integer *parameter* must be dominated by a lower-bound test
// (p >= 0) and by an upper-bound test against the length of the indexed value. Map lookups are exempt.
func signedIndexRule(c *Ctx, rule, rel string, pick func(recv, meth string) bool) {
	r := c.Run
	P := c.Prog
	sp := P.SSAPkg(rel)
	if sp == nil {
		r.Unknown(rule, rel, "", "package loaded", "missing")
		return
	}
	var fns []*ssa.Function
	for _, m := range sp.Members {
		if tn, ok := m.(*ssa.Type); ok {
			for _, T := range []types.Type{tn.Type(), types.NewPointer(tn.Type())} {
				ms := P.SSA.MethodSets.MethodSet(T)
				for i := 0; i < ms.Len(); i++ {
					fn := P.SSA.MethodValue(ms.At(i))
					if fn != nil && fn.Synthetic == "" && fn.Pkg == sp && fn.Blocks != nil {
						fns = append(fns, fn)
					}
				}
			}
		}
	}
	seen := map[*ssa.Function]bool{}
	sort.Slice(fns, func(i, j int) bool { return fns[i].String() < fns[j].String() })
	sites := 0
	for _, fn := range fns {
		if seen[fn] {
			continue
		}
		seen[fn] = true
		recv := ""
		if fn.Signature.Recv() != nil {
			recv = strings.TrimPrefix(types.TypeString(fn.Signature.Recv().Type(), func(*types.Package) string { return "" }), "*")
		}
		if !pick(recv, fn.Name()) {
			continue
		}
		r.Saw("methods scanned for signed-parameter indexing", recv+"."+fn.Name())
		for _, b := range fn.Blocks {
			for _, ins := range b.Instrs {
				var idx, base ssa.Value
				switch x := ins.(type) {
				case *ssa.IndexAddr:
					idx, base = x.Index, x.X
				case *ssa.Index:
					idx, base = x.Index, x.X
				default:
					continue
				}
				p := paramOf(idx)
				if p == nil {
					continue
				}
				bt, ok := p.Type().Underlying().(*types.Basic)
				if !ok || bt.Info()&types.IsInteger == 0 || bt.Info()&types.IsUnsigned != 0 {
					continue
				}
				sites++
				key := fmt.Sprintf("%s.%s/index[%s]#%s", recv, fn.Name(), p.Name(), describeBase(base))
				lower, upper, facts := indexGuards(b, p, base)
				got := "dominating facts: " + strings.Join(facts, ", ")
				if len(facts) == 0 {
					got = "no dominating bound on " + p.Name()
				}
				if lower && upper {
					r.OK(rule, key, P.Rel(ins.Pos()), "lower and upper guard dominate the index", got, true)
				} else if st, why := e3IndexVerdict(P, fn, ins); st == guards.Proved {
					// the matcher reads one way of writing the guards; the facts engine (E3, context-free analysis of
					// the method: the parameters are arbitrary) decides the same obligation whatever its shape
					r.OK(rule, key, P.Rel(ins.Pos()), "lower and upper guard dominate the index", "E3: "+why, true)
				} else if st == guards.Unsupported {
					r.Unknown(rule, key, P.Rel(ins.Pos()), "lower and upper guard dominate the index", "E3: "+why)
				} else {
					miss := []string{}
					if !lower {
						miss = append(miss, "lower bound (negative index panics)")
					}
					if !upper {
						miss = append(miss, "upper bound")
					}
					r.Bad(rule, key, P.Rel(ins.Pos()), "lower and upper guard dominate the index", "missing "+strings.Join(miss, " and ")+"; "+got)
				}
			}
		}
	}
	r.Note("%s: %d index sites by signed parameters in package %s", rule, sites, rel)
}

// indexGuards collects the dominating facts that bound parameter p below (>= 0) and above (< len(base)).
func indexGuards(b *ssa.BasicBlock, p *ssa.Parameter, base ssa.Value) (lower, upper bool, facts []string) {
	// bounds tested by a small predicate helper: `if !b.valid(i) { return err }` — the comparisons the helper's
	// result implies, read in the helper's own terms: its parameter bound to p, and len of the same field path of
	// the parameter bound to the root of base
	for _, cnd := range guards.DomConds(b) {
		call, ok := cnd.V.(*ssa.Call)
		if !ok {
			continue
		}
		callee := call.Call.StaticCallee()
		if callee == nil || callee.Blocks == nil || call.Call.IsInvoke() || len(callee.Params) != len(call.Call.Args) {
			continue
		}
		var q *ssa.Parameter
		for i, a := range call.Call.Args {
			if paramOf(a) == p {
				q = callee.Params[i]
			}
		}
		if q == nil {
			continue
		}
		sameAcross := func(v ssa.Value, delta int64) bool { // v is len(load q'.path)+delta with q' bound to base's root, same path
			if delta != 0 {
				bo, ok := v.(*ssa.BinOp)
				if !ok {
					return false
				}
				k, okc := guards.ConstInt(bo.Y)
				if !okc || !((bo.Op == token.SUB && -k == delta) || (bo.Op == token.ADD && k == delta)) {
					return false
				}
				v = bo.X
			}
			lc, ok := v.(*ssa.Call)
			if !ok {
				return false
			}
			bi, ok := lc.Call.Value.(*ssa.Builtin)
			if !ok || bi.Name() != "len" {
				return false
			}
			root1, path1, ok1 := fieldRootPath(lc.Call.Args[0])
			root2, path2, ok2 := fieldRootPath(base)
			if !ok1 || !ok2 || path1 != path2 {
				return false
			}
			for i, cp := range callee.Params {
				if cp == root1 {
					return call.Call.Args[i] == ssa.Value(root2) && !storesToFieldPath(base.Parent(), path2)
				}
			}
			return false
		}
		for _, f := range guards.ResultFacts(callee, cnd.Positive) {
			L, R, op := f.L, f.R, f.Op
			if paramOf(R) == q && paramOf(L) != q {
				L, R = R, L
				op = flip(op)
			}
			if paramOf(L) != q {
				continue
			}
			if k, ok := guards.ConstInt(R); ok {
				if (op == token.GEQ && k >= 0) || (op == token.GTR && k >= -1) || (op == token.EQL && k >= 0) {
					lower = true
					facts = append(facts, fmt.Sprintf("%s(…): %s %s %d", callee.Name(), p.Name(), op, k))
				}
				continue
			}
			if (op == token.LSS && sameAcross(R, 0)) || (op == token.LEQ && sameAcross(R, -1)) {
				upper = true
				facts = append(facts, fmt.Sprintf("%s(…): %s below len", callee.Name(), p.Name()))
			}
			// the bound is itself a parameter of the helper: valid(i, n) called with n = len(base)
			if rp, isParam := R.(*ssa.Parameter); isParam {
				for i, cp := range callee.Params {
					if cp != rp {
						continue
					}
					arg := call.Call.Args[i]
					if (op == token.LSS && lenOfSame(arg, base, 0)) || (op == token.LEQ && lenOfSame(arg, base, -1)) {
						upper = true
						facts = append(facts, fmt.Sprintf("%s(…, len): %s below len", callee.Name(), p.Name()))
					}
					if k, ok := guards.ConstInt(arg); ok {
						if n, okc := constLen(base); okc && ((op == token.LSS && k <= n) || (op == token.LEQ && k <= n-1)) {
							upper = true
							facts = append(facts, fmt.Sprintf("%s(…, %d): %s below len %d", callee.Name(), k, p.Name(), n))
						}
					}
				}
			}
		}
	}
	for _, f := range guards.Facts(b) {
		L, R, op := f.L, f.R, f.Op
		// normalise so that the parameter is on the left
		if paramOf(R) == p && paramOf(L) != p {
			L, R = R, L
			op = flip(op)
		}
		if paramOf(L) != p {
			continue
		}
		if k, ok := guards.ConstInt(R); ok {
			if (op == token.GEQ && k >= 0) || (op == token.GTR && k >= -1) || (op == token.EQL && k >= 0) {
				lower = true
				facts = append(facts, fmt.Sprintf("%s %s %d", p.Name(), op, k))
			}
			// a constant upper bound suffices only against a constant-length array/literal
			if n, ok := constLen(base); ok {
				if (op == token.LSS && k <= n) || (op == token.LEQ && k <= n-1) || (op == token.EQL && k < n) {
					upper = true
					facts = append(facts, fmt.Sprintf("%s %s %d (len %d)", p.Name(), op, k, n))
				}
			}
			continue
		}
		// upper bound against len(base) or len(base)-1
		if lenOfSame(R, base, 0) && (op == token.LSS) {
			upper = true
			facts = append(facts, p.Name()+" < len")
		}
		if lenOfSame(R, base, -1) && (op == token.LEQ) {
			upper = true
			facts = append(facts, p.Name()+" <= len-1")
		}
	}
	return
}

func flip(op token.Token) token.Token {
	switch op {
	case token.LSS:
		return token.GTR
	case token.LEQ:
		return token.GEQ
	case token.GTR:
		return token.LSS
	case token.GEQ:
		return token.LEQ
	}
	return op
}

// paramOf returns the parameter a value is (a chain of integer conversions of), else nil.
func paramOf(v ssa.Value) *ssa.Parameter {
	for {
		switch x := v.(type) {
		case *ssa.Parameter:
			return x
		case *ssa.Convert:
			v = x.X
		case *ssa.ChangeType:
			v = x.X
		default:
			return nil
		}
	}
}

func constLen(base ssa.Value) (int64, bool) {
	t := base.Type()
	if p, ok := t.Underlying().(*types.Pointer); ok {
		t = p.Elem()
	}
	if a, ok := t.Underlying().(*types.Array); ok {
		return a.Len(), true
	}
	// slice of a freshly allocated constant array: new [n]T; slice
	if sl, ok := base.(*ssa.Slice); ok && sl.Low == nil && sl.High == nil {
		return constLen(sl.X)
	}
	return 0, false
}

// lenOfSame reports whether v is len(base') + delta where base' designates the same storage as base.
func lenOfSame(v, base ssa.Value, delta int64) bool {
	if delta != 0 {
		bo, ok := v.(*ssa.BinOp)
		if !ok {
			return false
		}
		k, okc := guards.ConstInt(bo.Y)
		if !okc {
			return false
		}
		if bo.Op == token.SUB && -k == delta {
			return lenOfSame(bo.X, base, 0)
		}
		if bo.Op == token.ADD && k == delta {
			return lenOfSame(bo.X, base, 0)
		}
		return false
	}
	call, ok := v.(*ssa.Call)
	if !ok {
		return false
	}
	bi, ok := call.Call.Value.(*ssa.Builtin)
	if !ok || bi.Name() != "len" || len(call.Call.Args) != 1 {
		return false
	}
	return sameStorage(call.Call.Args[0], base)
}

// sameStorage: both values are the same SSA value, or loads of the same field path of the same root
// (methods under this rule are tiny and contain no store to the field between the two loads; a store
// in the function makes the comparison fail closed).
func sameStorage(a, b ssa.Value) bool {
	if a == b {
		return true
	}
	pa, oka := fieldPath(a)
	pb, okb := fieldPath(b)
	if !oka || !okb || pa != pb {
		return false
	}
	// fail closed if the function stores to any field address
	fn := a.Parent()
	if fn == nil {
		return false
	}
	for _, blk := range fn.Blocks {
		for _, ins := range blk.Instrs {
			if st, ok := ins.(*ssa.Store); ok {
				if p, ok := fieldAddrPath(st.Addr); ok && p == pa {
					return false
				}
			}
		}
	}
	return true
}

// fieldRootPath: v is a load of a chain of FieldAddr from a parameter: the parameter and the field-index path.
func fieldRootPath(v ssa.Value) (*ssa.Parameter, string, bool) {
	u, ok := v.(*ssa.UnOp)
	if !ok || u.Op != token.MUL {
		return nil, "", false
	}
	var parts []string
	cur := u.X
	for {
		switch x := cur.(type) {
		case *ssa.FieldAddr:
			parts = append([]string{fmt.Sprint(x.Field)}, parts...)
			cur = x.X
		case *ssa.Parameter:
			return x, strings.Join(parts, "."), true
		default:
			return nil, "", false
		}
	}
}

// storesToFieldPath: fn contains a store to a field address with this index path (fail closed).
func storesToFieldPath(fn *ssa.Function, path string) bool {
	if fn == nil {
		return true
	}
	for _, blk := range fn.Blocks {
		for _, ins := range blk.Instrs {
			if st, ok := ins.(*ssa.Store); ok {
				if _, p, ok := fieldAddrRootPath(st.Addr); ok && p == path {
					return true
				}
			}
		}
	}
	return false
}

func fieldAddrRootPath(cur ssa.Value) (*ssa.Parameter, string, bool) {
	var parts []string
	for {
		switch x := cur.(type) {
		case *ssa.FieldAddr:
			parts = append([]string{fmt.Sprint(x.Field)}, parts...)
			cur = x.X
		case *ssa.Parameter:
			return x, strings.Join(parts, "."), true
		default:
			return nil, "", false
		}
	}
}

// fieldPath renders a load of a chain of FieldAddr from a parameter as "param.f1.f2".
func fieldPath(v ssa.Value) (string, bool) {
	u, ok := v.(*ssa.UnOp)
	if !ok || u.Op != token.MUL {
		return "", false
	}
	return fieldAddrPath(u.X)
}

func fieldAddrPath(cur ssa.Value) (string, bool) {
	var parts []string
	for {
		switch x := cur.(type) {
		case *ssa.FieldAddr:
			parts = append([]string{fmt.Sprint(x.Field)}, parts...)
			cur = x.X
		case *ssa.Parameter:
			return x.Name() + "." + strings.Join(parts, "."), true
		default:
			return "", false
		}
	}
}

func describeBase(v ssa.Value) string {
	if p, ok := fieldPath(v); ok {
		return "field(" + p + ")"
	}
	if u, ok := v.(*ssa.UnOp); ok && u.Op == token.MUL {
		if fa, ok := u.X.(*ssa.FieldAddr); ok {
			return fmt.Sprintf("field#%d", fa.Field)
		}
	}
	s := v.Name()
	if _, ok := v.(*ssa.Extract); ok {
		s = "maprow"
	}
	if _, ok := v.(*ssa.Alloc); ok {
		s = "local"
	}
	if _, ok := v.(*ssa.Slice); ok {
		s = "literal"
	}
	_ = load.ModPath
	return strings.TrimLeft(s, "t0123456789") + typeShort(v.Type())
}

func typeShort(t types.Type) string {
	return types.TypeString(t, func(*types.Package) string { return "" })
}

// e3IndexVerdict: the status of the index obligation of instruction ins in fn according to the facts engine, with fn
// analysed as a root (nothing assumed about its parameters).
func e3IndexVerdict(P *load.Program, fn *ssa.Function, ins ssa.Instruction) (guards.Status, string) {
	e := guardsEngine(P)
	wasRoot := e.Roots[fn]
	e.Roots[fn] = true
	defer func() {
		if !wasRoot {
			delete(e.Roots, fn)
		}
	}()
	for _, o := range e.Obligations(fn) {
		if o.Instr == ins && o.Kind == "index" {
			return o.Status, o.Why
		}
	}
	return guards.Failed, "no obligation found for the index"
}
