package props

import (
	"fmt"
	"go/token"

	"lwverif/internal/absint"
)

// c19Helpers (rule C19-R5.helpers): the two pure integer helpers of the parity-matrix generator are decided for all
// inputs with the bit-level engine: isPower2(m) is true exactly for the non-negative integers with one bit set (so the
// modulus is M+1 exactly for power-of-two fragment counts of any size), and prbs23(x) is the 23-bit shift register of
// the specification (bit i of the result = bit i+1 of x, bit 22 = x0 xor x5) for every x in [0, 2^23).
func c19Helpers(c *Ctx) {
	r := c.Run
	const rule = "R5.helpers"
	const pk = "applayer/fragmentation"
	r.Rule(rule, "isPower2(m) <=> m has exactly one bit set, for every m >= 0; prbs23(x) = (x >> 1) | ((x0 xor x5) << 22) for every 0 <= x < 2^23")
	// isPower2
	func() {
		in := absint.NewInterp(c.Prog)
		d := in.D
		num := d.Sym("num", 64, true, false)
		dom := d.Cmp(token.GEQ, num, d.Const(0, 64, true))
		in.SetLive(dom)
		var res []absint.Value
		if err := in.Try(func() { res = in.CallFunc(pk, "isPower2", num) }); err != nil {
			r.Unknown(rule, pk+".isPower2", "", "inside the interpreter's subset", err.Error())
			return
		}
		got, ok := res[0].(*absint.Bits)
		if !ok || got.W != 1 {
			r.Unknown(rule, pk+".isPower2", "", "boolean result", in.Show(res[0]))
			return
		}
		want := absint.False
		for i := 0; i < 63; i++ {
			want = d.M.Or(want, d.Cmp(token.EQL, num, d.Const(int64(1)<<uint(i), 64, true)))
		}
		diff := d.M.And(dom, d.M.Xor(got.Bits()[0], want))
		why := "equal for every m >= 0"
		if diff != absint.False {
			why = "differs, e.g. " + d.Witness(diff)
		}
		r.Check(diff == absint.False, rule, pk+".isPower2", c.Prog.Rel(c.Prog.SSAFunc(pk, "isPower2").Pos()), "true exactly when one bit of m is set", why, true)
	}()
	// prbs23
	func() {
		in := absint.NewInterp(c.Prog)
		d := in.D
		x := d.Sym("x", 64, true, false)
		dom := d.M.And(d.Cmp(token.GEQ, x, d.Const(0, 64, true)), d.Cmp(token.LSS, x, d.Const(1<<23, 64, true)))
		in.SetLive(dom)
		var res []absint.Value
		if err := in.Try(func() { res = in.CallFunc(pk, "prbs23", x) }); err != nil {
			r.Unknown(rule, pk+".prbs23", "", "inside the interpreter's subset", err.Error())
			return
		}
		got, ok := res[0].(*absint.Bits)
		if !ok {
			r.Unknown(rule, pk+".prbs23", "", "integer result", in.Show(res[0]))
			return
		}
		xb, gb := x.Bits(), got.Bits()
		good, why := true, "all 64 result bits equal the shift-register function for every x in [0, 2^23)"
		for i := 0; i < len(gb) && good; i++ {
			var want absint.Node
			switch {
			case i < 22:
				want = xb[i+1]
			case i == 22:
				want = d.M.Xor(xb[0], xb[5])
			default:
				want = absint.False
			}
			if diff := d.M.And(dom, d.M.Xor(gb[i], want)); diff != absint.False {
				good, why = false, fmt.Sprintf("result bit %d differs, e.g. %s", i, d.Witness(diff))
			}
		}
		r.Check(good, rule, pk+".prbs23", c.Prog.Rel(c.Prog.SSAFunc(pk, "prbs23").Pos()), "23-bit LFSR step with taps 0 and 5", why, true)
	}()
}
