package props

import (
	"fmt"
	"go/token"

	"lwverif/internal/absint"
)

// c19Helpers (rule C19-R5.helpers): the two pure integer helpers of the parity-matrix generator are decided for all
// inputs with the bit-level engine: isPower2(m) is true exactly for the non-negative integers with one bit set (so the
// modulus is M+1 exactly for power-of-two fragment counts of any size), and prbs23(x) is the 23-bit shift register of
// the specification (bit i of the result = bit i+1 of x, bit 22 = x0 xor x5) for every x in [0, 2^23).
func c19Helpers(c *Ctx) {
	r := c.Run
	const rule = "R5.helpers"
	const pk = "applayer/fragmentation"
	r.Rule(rule, "isPower2(m) <=> m has exactly one bit set, for every m >= 0; prbs23(x) = (x >> 1) | ((x0 xor x5) << 22) for every 0 <= x < 2^23")
	// isPower2
	func() {
		in := absint.NewInterp(c.Prog)
		d := in.D
		num := d.Sym("num", 64, true, false)
		dom := d.Cmp(token.GEQ, num, d.Const(0, 64, true))
		in.SetLive(dom)
		var res []absint.Value
		if err := in.Try(func() { res = in.CallFunc(pk, "isPower2", num) }); err != nil {
			r.Unknown(rule, pk+".isPower2", "", "inside the interpreter's subset", err.Error())
			return
		}
		got, ok := res[0].(*absint.Bits)
		if !ok || got.W != 1 {
			r.Unknown(rule, pk+".isPower2", "", "boolean result", in.Show(res[0]))
			return
		}
		want := absint.False
		for i := 0; i < 63; i++ {
			want = d.M.Or(want, d.Cmp(token.EQL, num, d.Const(int64(1)<<uint(i), 64, true)))
		}
		diff := d.M.And(dom, d.M.Xor(got.Bits()[0], want))
		why := "equal for every m >= 0"
		if diff != absint.False {
			why = "differs, e.g. " + d.Witness(diff)
		}
		r.Check(diff == absint.False, rule, pk+".isPower2", c.Prog.Rel(c.Prog.SSAFunc(pk, "isPower2").Pos()), "true exactly when one bit of m is set", why, true)
	}()
	// prbs23
	func() {
		in := absint.NewInterp(c.Prog)
		d := in.D
		x := d.Sym("x", 64, true, false)
		dom := d.M.And(d.Cmp(token.GEQ, x, d.Const(0, 64, true)), d.Cmp(token.LSS, x, d.Const(1<<23, 64, true)))
		in.SetLive(dom)
		var res []absint.Value
		if err := in.Try(func() { res = in.CallFunc(pk, "prbs23", x) }); err != nil {
			r.Unknown(rule, pk+".prbs23", "", "inside the interpreter's subset", err.Error())
			return
		}
		got, ok := res[0].(*absint.Bits)
		if !ok {
			r.Unknown(rule, pk+".prbs23", "", "integer result", in.Show(res[0]))
			return
		}
		xb, gb := x.Bits(), got.Bits()
		good, why := true, "all 64 result bits equal the shift-register function for every x in [0, 2^23)"
		for i := 0; i < len(gb) && good; i++ {
			var want absint.Node
			switch {
			case i < 22:
				want = xb[i+1]
			case i == 22:
				want = d.M.Xor(xb[0], xb[5])
			default:
				want = absint.False
			}
			if diff := d.M.And(dom, d.M.Xor(gb[i], want)); diff != absint.False {
				good, why = false, fmt.Sprintf("result bit %d differs, e.g. %s", i, d.Witness(diff))
			}
		}
		r.Check(good, rule, pk+".prbs23", c.Prog.Rel(c.Prog.SSAFunc(pk, "prbs23").Pos()), "23-bit LFSR step with taps 0 and 5", why, true)
	}()
}

// c19RefMatrixLine is an independent transcription of the parity-matrix line of TS004 (Fragmented Data Block
// Transport, FEC matrix): line n (1-based) for m data fragments.
func c19RefMatrixLine(n, m int) []int {
	line := make([]int, m)
	mm := 0
	if m > 0 && m&(m-1) == 0 {
		mm = 1
	}
	x := 1 + 1001*n
	for k := 0; k < m/2; k++ {
		r := 1 << 16
		for r >= m {
			b0, b1 := x&1, (x>>5)&1
			x = (x >> 1) + ((b0 ^ b1) << 22)
			r = x % (m + mm)
		}
		line[r] = 1
	}
	return line
}

// c19FirstRedrawLine: the smallest line 1..max of the reference construction for m fragments on which a draw is rejected
// (r == m) and drawn again; 0 if none.
func c19FirstRedrawLine(m, max int) int {
	if m <= 0 || m&(m-1) != 0 {
		return 0
	}
	for n := 1; n <= max; n++ {
		x := 1 + 1001*n
		for k := 0; k < m/2; k++ {
			r := 1 << 16
			first := true
			for r >= m {
				if !first {
					return n
				}
				first = false
				b0, b1 := x&1, (x>>5)&1
				x = (x >> 1) + ((b0 ^ b1) << 22)
				r = x % (m + 1)
			}
		}
	}
	return 0
}

// c19Parity (rule C19-R6.parity): for a grid of fragment counts and fragment sizes the encoder is interpreted on fully
// symbolic data bytes (the fragment count, size and redundancy are concrete, so the pseudo-random matrix construction
// runs on constants inside the interpreter); proved for all data at once: the result has w + redundancy rows, row i < w
// is the i-th data fragment, and byte k of parity row y is the XOR of byte k of exactly the data fragments that the
// independently transcribed matrix line y+1 selects.
func c19Parity(c *Ctx) {
	r := c.Run
	const rule = "R6.parity"
	const pk = "applayer/fragmentation"
	r.Rule(rule, "Encode(data, fs, red) = the w data fragments followed by red parity fragments, parity y = XOR of the data fragments selected by line y+1 of the specification's matrix, for every data content (fragment counts 1..17 and sizes 1..16 on a grid with redundancy 4; redundancy 0, 1, negative and the empty input on selected points)")
	type cfg struct{ w, fs, red int }
	var grid []cfg
	for _, w := range []int{1, 2, 3, 4, 8, 10, 16, 17} {
		for _, fs := range []int{1, 7, 8, 9, 16} {
			grid = append(grid, cfg{w, fs, 4})
		}
	}
	// no redundancy (the data rows alone), one parity row, and an empty input
	for _, g := range []cfg{{1, 1, 0}, {3, 7, 0}, {8, 16, 0}, {17, 9, 0}, {2, 8, 1}, {10, 7, 1}, {0, 8, 0}, {0, 8, 2}, {5, 3, -1}} {
		grid = append(grid, g)
	}
	// the generator's re-draw (a draw equal to m, possible only when m is a power of two and the modulus is m+1) is the
	// one branch of the matrix construction the points above may never take: for each power of two up to 16 add the
	// first line on which the reference construction re-draws, with one-byte fragments
	for _, w := range []int{2, 4, 8, 16} {
		if n := c19FirstRedrawLine(w, 12); n > 4 {
			grid = append(grid, cfg{w, 1, n})
		}
	}
	if c.Tier == "thorough" {
		// every fragment count 1..24 (powers of two — where the matrix uses the modulus m+1 — up to 16; 28 and 31) with
		// three fragment sizes and two further redundancy levels
		seen := map[cfg]bool{}
		for _, g := range grid {
			seen[g] = true
		}
		var ws []int
		for w := 1; w <= 24; w++ {
			ws = append(ws, w)
		}
		ws = append(ws, 28, 31)
		for _, w := range ws {
			for _, fs := range []int{1, 8, 17} {
				for _, red := range []int{1, 9} {
					if w*fs*red > 1200 {
						continue // beyond the interpreter's node budget (XOR chains over hundreds of symbolic bytes)
					}
					if g := (cfg{w, fs, red}); !seen[g] {
						seen[g] = true
						grid = append(grid, g)
					}
				}
			}
		}
	}
	for _, g := range grid {
		{
			w, fs, red := g.w, g.fs, g.red
			key := fmt.Sprintf("%s.Encode/w%d/fs%d", pk, w, fs)
			if red != 4 {
				key += fmt.Sprintf("/red%d", red)
			}
			nred := red
			if nred < 0 {
				nred = 0
			}
			in := absint.NewInterp(c.Prog)
			d := in.D
			data := in.SymBytes("data", w*fs)
			var res []absint.Value
			if err := in.Try(func() {
				res = in.CallFunc(pk, "Encode", data, d.Const(int64(fs), 64, true), d.Const(int64(red), 64, true))
			}); err != nil {
				if pe, ok := err.(absint.Panic); ok {
					r.Bad(rule, key, "", "the encoder returns fragments", "panics: "+pe.Why)
					continue
				}
				r.Unknown(rule, key, "", "inside the interpreter's subset", err.Error())
				continue
			}
			if ev, ok := res[1].(*absint.ErrVal); !ok || ev.NonNil != absint.False {
				r.Bad(rule, key, "", "no error for a data length that is a multiple of the fragment size", in.Show(res[1]))
				continue
			}
			rows, ok := res[0].(*absint.Slice)
			red = nred
			if _, isNil := res[0].(absint.NilVal); isNil && w+red == 0 {
				r.OK(rule, key, "", "no rows for an empty input without redundancy", "nil", false)
				continue
			}
			if !ok || rows.Len() != w+red {
				n := -1
				if ok {
					n = rows.Len()
				}
				r.Bad(rule, key, "", fmt.Sprintf("%d rows", w+red), fmt.Sprintf("%d rows (%s)", n, short(in.Show(res[0]))))
				continue
			}
			good, why := true, fmt.Sprintf("%d data rows and %d parity rows equal the specification for every data content", w, red)
			for y := 0; y < w+red && good; y++ {
				row, ok := rows.At(y).V.(*absint.Slice)
				if !ok || row.Len() != fs {
					good, why = false, fmt.Sprintf("row %d has the wrong length", y)
					break
				}
				var line []int
				if y >= w {
					line = c19RefMatrixLine(y-w+1, w)
				}
				for k := 0; k < fs && good; k++ {
					got := row.At(k).V.(*absint.Bits).Bits()
					for bit := 0; bit < 8; bit++ {
						want := absint.False
						if y < w {
							want = data.At(y*fs + k).V.(*absint.Bits).Bits()[bit]
						} else {
							for x := 0; x < w; x++ {
								if line[x] == 1 {
									want = d.M.Xor(want, data.At(x*fs + k).V.(*absint.Bits).Bits()[bit])
								}
							}
						}
						if diff := d.M.Xor(got[bit], want); diff != absint.False {
							what := "data"
							if y >= w {
								what = fmt.Sprintf("parity (matrix line %d = %v)", y-w+1, line)
							}
							good, why = false, fmt.Sprintf("row %d (%s) byte %d bit %d: got %s; e.g. %s", y, what, k, bit, d.Describe(got[bit]), d.Witness(diff))
							break
						}
					}
				}
			}
			r.Check(good, rule, key, c.Prog.Rel(c.Prog.SSAFunc(pk, "Encode").Pos()), "data rows then XOR parity rows per the specification's matrix", why, true)
		}
	}
}

// c19Matrix (rule C19-R6.matrix): matrixLine(n, m) itself, folded on constants by the interpreter, equals the
// independent transcription for every line 1..40 of every matrix of 1..40 fragments (and of 63..65 and 127..129
// fragments, around the powers of two where the modulus changes). The parity rule R6 reaches only the first few lines
// of each matrix; a defect of the re-draw logic can show first in a later line (line 10 for 8 fragments).
func c19Matrix(c *Ctx) {
	r := c.Run
	const rule = "R6.matrix"
	const pk = "applayer/fragmentation"
	r.Rule(rule, "matrixLine(n, m), evaluated on constants by E1, equals the independently transcribed TS004 matrix line for n = 1..40 and m = 1..40, 63..65, 127..129")
	ms := []int{}
	for m := 1; m <= 40; m++ {
		ms = append(ms, m)
	}
	ms = append(ms, 63, 64, 65, 127, 128, 129)
	maxN := 40
	if c.Tier == "thorough" {
		maxN = 200
	}
	for _, m := range ms {
		in := absint.NewInterp(c.Prog)
		d := in.D
		bad, undec := "", ""
		for n := 1; n <= maxN && bad == "" && undec == ""; n++ {
			var res []absint.Value
			if err := in.Try(func() {
				res = in.CallFunc(pk, "matrixLine", d.Const(int64(n), absint.IntBits, true), d.Const(int64(m), absint.IntBits, true))
			}); err != nil {
				if pe, ok := err.(absint.Panic); ok {
					bad = fmt.Sprintf("line %d: panics: %s", n, pe.Why)
				} else {
					undec = err.Error()
				}
				break
			}
			sl, ok := res[0].(*absint.Slice)
			want := c19RefMatrixLine(n, m)
			if !ok || sl.Len() != len(want) {
				// not one coefficient per fragment: the line is kept in some other representation (a bit set …); the
				// lines Encode actually uses are decided through R6.parity
				undec = fmt.Sprintf("matrixLine does not return one element per fragment (line %d: %s)", n, short(in.Show(res[0])))
				break
			}
			for k := range want {
				b, isB := sl.At(k).V.(*absint.Bits)
				v, isC := int64(0), false
				if isB {
					v, isC = d.ConstVal(b)
				}
				if !isC {
					undec = fmt.Sprintf("line %d entry %d is not a constant", n, k)
					break
				}
				if int(v) != want[k] {
					bad = fmt.Sprintf("line %d entry %d is %d, the specification's line is %v", n, k, v, want)
					break
				}
			}
		}
		key := fmt.Sprintf("%s.matrixLine/m%d", pk, m)
		if undec != "" {
			r.Unknown(rule, key, "", "inside the interpreter's subset", undec)
			continue
		}
		r.Check(bad == "", rule, key, "", fmt.Sprintf("lines 1..%d of the %d-fragment matrix equal the specification", maxN, m), bad, true)
	}
}
