// Package load type-checks /repo's current working tree and builds SSA on demand.
package load

import (
	"crypto/sha256"
	"encoding/hex"
	"fmt"
	"go/ast"
	"go/token"
	"go/types"
	"os"
	"os/exec"
	"path/filepath"
	"sort"
	"strings"
	"sync"

	"golang.org/x/tools/go/callgraph"
	"golang.org/x/tools/go/callgraph/cha"
	"golang.org/x/tools/go/callgraph/vta"
	"golang.org/x/tools/go/packages"
	"golang.org/x/tools/go/ssa"
	"golang.org/x/tools/go/ssa/ssautil"
)

const ModPath = "github.com/brocaar/lorawan"

// ExpectedPackages is the hand-confirmed number of non-test packages in the module.
const ExpectedPackages = 11

// RequiredPackages are those packages, relative to the module root.
var RequiredPackages = []string{"", "airtime", "applayer/clocksync", "applayer/firmwaremanagement", "applayer/fragmentation",
	"applayer/multicastsetup", "backend", "backend/joinserver", "band", "gps", "sensitivity"}

type Program struct {
	Dir    string
	Fset   *token.FileSet
	Pkgs   map[string]*packages.Package // by import path (module packages only)
	All    []*packages.Package
	GOARCH string

	ssaOnce sync.Once
	SSA     *ssa.Program
	SSAPkgs map[string]*ssa.Package
	cgOnce  sync.Once
	cg      *callgraph.Graph
}

func RepoDir() string {
	if d := os.Getenv("LW_REPO"); d != "" {
		return d
	}
	return "/repo"
}

// Load loads every package of the module with full syntax and types. It fails on any type error
// or on an unexpected package count (a static tool sees only what was parsed).
func Load(dir, goarch string) (*Program, error) {
	env := []string{}
	for _, e := range os.Environ() {
		if strings.HasPrefix(e, "GOWORK=") || strings.HasPrefix(e, "GOFLAGS=") || strings.HasPrefix(e, "GOARCH=") {
			continue
		}
		env = append(env, e)
	}
	env = append(env, "GOFLAGS=-mod=mod", "GOPROXY=off", "GOSUMDB=off", "GOTOOLCHAIN=local", "GOWORK=off", "CGO_ENABLED=0")
	if goarch != "" {
		env = append(env, "GOARCH="+goarch)
	}
	fset := token.NewFileSet()
	cfg := &packages.Config{
		Mode:  packages.LoadAllSyntax,
		Dir:   dir,
		Fset:  fset,
		Env:   env,
		Tests: false,
	}
	pkgs, err := packages.Load(cfg, "./...")
	if err != nil {
		return nil, fmt.Errorf("load %s: %v", dir, err)
	}
	p := &Program{Dir: dir, Fset: fset, Pkgs: map[string]*packages.Package{}, All: pkgs, GOARCH: goarch}
	var errs []string
	packages.Visit(pkgs, nil, func(pk *packages.Package) {
		if strings.HasPrefix(pk.PkgPath, ModPath) {
			for _, e := range pk.Errors {
				errs = append(errs, e.Error())
			}
		}
	})
	if len(errs) > 0 {
		return nil, fmt.Errorf("type errors in %s: %s", dir, strings.Join(errs, "; "))
	}
	for _, pk := range pkgs {
		if strings.HasPrefix(pk.PkgPath, ModPath) {
			p.Pkgs[pk.PkgPath] = pk
		}
	}
	// every package the rules are anchored in must have been loaded (a build that silently drops one would make its
	// rules pass vacuously); packages added next to them — an internal helper package — are loaded and analysed too
	var missing []string
	for _, rel := range RequiredPackages {
		path := ModPath
		if rel != "" {
			path += "/" + rel
		}
		if p.Pkgs[path] == nil {
			missing = append(missing, path)
		}
	}
	if len(missing) > 0 || len(p.Pkgs) < ExpectedPackages {
		var names []string
		for k := range p.Pkgs {
			names = append(names, k)
		}
		sort.Strings(names)
		return nil, fmt.Errorf("expected the %d packages of %s, missing %v; loaded %d: %v", ExpectedPackages, ModPath, missing, len(p.Pkgs), names)
	}
	return p, nil
}

// Pkg returns a module package by path relative to the module root ("" = root, "band", …).
func (p *Program) Pkg(rel string) *packages.Package {
	if rel == "" {
		return p.Pkgs[ModPath]
	}
	return p.Pkgs[ModPath+"/"+rel]
}

// Rel renders a position as path-relative-to-repo:line.
func (p *Program) Rel(pos token.Pos) string {
	if !pos.IsValid() {
		return "?"
	}
	ps := p.Fset.Position(pos)
	f := ps.Filename
	if r, err := filepath.Rel(p.Dir, f); err == nil && !strings.HasPrefix(r, "..") {
		f = r
	}
	return fmt.Sprintf("%s:%d", f, ps.Line)
}

// BuildSSA builds SSA for the whole program (once).
func (p *Program) BuildSSA() {
	p.ssaOnce.Do(func() {
		prog, spkgs := ssautil.AllPackages(p.All, ssa.InstantiateGenerics)
		prog.Build()
		p.SSA = prog
		p.SSAPkgs = map[string]*ssa.Package{}
		for i, sp := range spkgs {
			if sp != nil && strings.HasPrefix(p.All[i].PkgPath, ModPath) {
				p.SSAPkgs[p.All[i].PkgPath] = sp
			}
		}
	})
}

func (p *Program) SSAPkg(rel string) *ssa.Package {
	p.BuildSSA()
	if rel == "" {
		return p.SSAPkgs[ModPath]
	}
	return p.SSAPkgs[ModPath+"/"+rel]
}

// CallGraph returns a VTA call graph seeded by CHA (the most precise available offline).
func (p *Program) CallGraph() *callgraph.Graph {
	p.BuildSSA()
	p.cgOnce.Do(func() {
		p.cg = vta.CallGraph(ssautil.AllFunctions(p.SSA), cha.CallGraph(p.SSA))
	})
	return p.cg
}

// InModule reports whether fn belongs to the analysed module.
func InModule(fn *ssa.Function) bool {
	if fn == nil {
		return false
	}
	if fn.Pkg != nil {
		return strings.HasPrefix(fn.Pkg.Pkg.Path(), ModPath)
	}
	if fn.Origin() != nil && fn.Origin().Pkg != nil {
		return strings.HasPrefix(fn.Origin().Pkg.Pkg.Path(), ModPath)
	}
	if o := fn.Object(); o != nil && o.Pkg() != nil {
		return strings.HasPrefix(o.Pkg().Path(), ModPath)
	}
	if fn.Parent() != nil {
		return InModule(fn.Parent())
	}
	return false
}

// SourceInfo: git HEAD, dirty flag, and a digest over the analysed Go files.
func (p *Program) SourceInfo() map[string]string {
	out := map[string]string{"dir": p.Dir}
	if b, err := exec.Command("git", "-C", p.Dir, "rev-parse", "HEAD").Output(); err == nil {
		out["git_head"] = strings.TrimSpace(string(b))
	}
	if b, err := exec.Command("git", "-C", p.Dir, "status", "--porcelain").Output(); err == nil {
		if len(strings.TrimSpace(string(b))) > 0 {
			out["dirty"] = "true"
		} else {
			out["dirty"] = "false"
		}
	}
	h := sha256.New()
	var files []string
	for _, pk := range p.Pkgs {
		files = append(files, pk.CompiledGoFiles...)
	}
	sort.Strings(files)
	for _, f := range files {
		b, _ := os.ReadFile(f)
		h.Write([]byte(f))
		h.Write(b)
	}
	out["files"] = fmt.Sprint(len(files))
	out["sha256_sources"] = hex.EncodeToString(h.Sum(nil))
	return out
}

// FuncDecl finds a function or method declaration in a package: name is "Func" or "Recv.Method"
// (receiver without '*').
func FuncDecl(pk *packages.Package, name string) *ast.FuncDecl {
	recv, meth := "", name
	if i := strings.Index(name, "."); i >= 0 {
		recv, meth = name[:i], name[i+1:]
	}
	for _, f := range pk.Syntax {
		for _, d := range f.Decls {
			fd, ok := d.(*ast.FuncDecl)
			if !ok || fd.Name.Name != meth {
				continue
			}
			if recv == "" && fd.Recv == nil {
				return fd
			}
			if recv != "" && fd.Recv != nil && len(fd.Recv.List) == 1 && RecvTypeName(fd.Recv.List[0].Type) == recv {
				return fd
			}
		}
	}
	return nil
}

func RecvTypeName(e ast.Expr) string {
	switch t := e.(type) {
	case *ast.StarExpr:
		return RecvTypeName(t.X)
	case *ast.Ident:
		return t.Name
	case *ast.IndexExpr:
		return RecvTypeName(t.X)
	}
	return ""
}

// FuncName renders a FuncDecl as Recv.Method or Func.
func FuncName(fd *ast.FuncDecl) string {
	if fd.Recv != nil && len(fd.Recv.List) == 1 {
		return RecvTypeName(fd.Recv.List[0].Type) + "." + fd.Name.Name
	}
	return fd.Name.Name
}

// AllFuncDecls lists every function declaration of a package, sorted by name.
func AllFuncDecls(pk *packages.Package) []*ast.FuncDecl {
	var out []*ast.FuncDecl
	for _, f := range pk.Syntax {
		for _, d := range f.Decls {
			if fd, ok := d.(*ast.FuncDecl); ok && fd.Body != nil {
				out = append(out, fd)
			}
		}
	}
	sort.Slice(out, func(i, j int) bool { return FuncName(out[i]) < FuncName(out[j]) })
	return out
}

// SSAFunc finds the SSA function for "Func" or "Recv.Method" in a module package.
func (p *Program) SSAFunc(rel, name string) *ssa.Function {
	sp := p.SSAPkg(rel)
	if sp == nil {
		return nil
	}
	if i := strings.Index(name, "."); i >= 0 {
		recv, meth := name[:i], name[i+1:]
		tn, _ := sp.Pkg.Scope().Lookup(recv).(*types.TypeName)
		if tn == nil {
			return nil
		}
		for _, T := range []types.Type{tn.Type(), types.NewPointer(tn.Type())} {
			ms := p.SSA.MethodSets.MethodSet(T)
			for i := 0; i < ms.Len(); i++ {
				if ms.At(i).Obj().Name() == meth {
					if fn := p.SSA.MethodValue(ms.At(i)); fn != nil && fn.Synthetic == "" {
						return fn
					}
				}
			}
		}
		return nil
	}
	return sp.Func(name)
}
