// Package tables is engine E2: conditional constant propagation over literal tables.
//
// It evaluates composite literals and the straight-line / constant-trip initialisation code of
// table constructors on the typed AST, with the constructor's parameters bound to one element
// of their finite configuration space. Anything that is not a compile-time determinable value
// becomes Unknown and poisons whatever depends on it (the rule that needs it reports
// "undecided"). No code of /repo is compiled or executed.
package tables

import (
	"fmt"
	"go/ast"
	"go/constant"
	"go/token"
	"go/types"
	"sort"
	"strings"

	"golang.org/x/tools/go/packages"
)

type Value interface{}

type Int struct{ V int64 }
type Str struct{ V string }
type Bool struct{ V bool }
type Float struct{ V float64 }
type Nil struct{}
type Unknown struct{ Why string }

type Struct struct {
	Type   string
	T      types.Type
	Fields map[string]Value
	Pos    token.Pos
}

type MapEntry struct {
	K, V Value
	Pos  token.Pos
}
type Map struct {
	Entries []*MapEntry
	Pos     token.Pos
	Dup     []string // duplicate keys seen in a literal (compiler rejects constants, kept for safety)
}
type Slice struct {
	Elems   []Value
	Elem    types.Type
	Pos     token.Pos
	IsArray bool // Go array (value semantics)
}
type Ptr struct{ Elem Value }

// Call is an uninterpreted call with evaluated arguments (e.g. time.Date(...)).
type Call struct {
	Fn   string
	Args []Value
	Pos  token.Pos
}

func (m *Map) Get(k Value) (Value, bool) {
	for _, e := range m.Entries {
		if Equal(e.K, k) {
			return e.V, true
		}
	}
	return nil, false
}

func (m *Map) IntKeys() []int {
	var ks []int
	for _, e := range m.Entries {
		if i, ok := e.K.(Int); ok {
			ks = append(ks, int(i.V))
		}
	}
	sort.Ints(ks)
	return ks
}

func Equal(a, b Value) bool {
	switch x := a.(type) {
	case Int:
		y, ok := b.(Int)
		return ok && x.V == y.V
	case Str:
		y, ok := b.(Str)
		return ok && x.V == y.V
	case Bool:
		y, ok := b.(Bool)
		return ok && x.V == y.V
	case Float:
		y, ok := b.(Float)
		return ok && x.V == y.V
	}
	return false
}

// isZeroValue: the evaluated value is the zero value of its type.
func isZeroValue(v Value) bool {
	switch x := v.(type) {
	case nil, Nil:
		return true
	case Int:
		return x.V == 0
	case Str:
		return x.V == ""
	case Bool:
		return !x.V
	case Float:
		return x.V == 0
	case *Struct:
		if x == nil {
			return true
		}
		for _, f := range x.Fields {
			if !isZeroValue(f) {
				return false
			}
		}
		return true
	case *Slice:
		if x == nil {
			return true
		}
		if !x.IsArray {
			return false
		}
		for _, e := range x.Elems {
			if !isZeroValue(e) {
				return false
			}
		}
		return true
	}
	return false
}

// fullyKnown: the value contains no unknown part (so that == can be decided).
func fullyKnown(v Value) bool {
	switch x := v.(type) {
	case Int, Str, Bool, Float, Nil:
		return true
	case *Struct:
		if x == nil {
			return false
		}
		for _, f := range x.Fields {
			if !fullyKnown(f) {
				return false
			}
		}
		return true
	case *Slice:
		if x == nil {
			return false
		}
		for _, e := range x.Elems {
			if !fullyKnown(e) {
				return false
			}
		}
		return true
	case *Ptr:
		return false // pointer identity is not modelled
	}
	return false
}

// DeepEqual compares evaluated aggregates structurally (positions ignored; unknown values are never equal).
func DeepEqual(a, b Value) bool {
	switch x := a.(type) {
	case Int, Str, Bool, Float:
		return Equal(a, b)
	case Nil:
		_, ok := b.(Nil)
		return ok
	case nil:
		return b == nil
	case *Ptr:
		y, ok := b.(*Ptr)
		return ok && DeepEqual(x.Elem, y.Elem)
	case *Struct:
		y, ok := b.(*Struct)
		if !ok || y == nil || x == nil {
			return ok && x == y
		}
		if x.Type != y.Type {
			return false
		}
		// a field that a literal does not mention holds the zero value
		for k, v := range x.Fields {
			w, ok := y.Fields[k]
			if !ok {
				if !isZeroValue(v) {
					return false
				}
				continue
			}
			if !DeepEqual(v, w) {
				return false
			}
		}
		for k, w := range y.Fields {
			if _, ok := x.Fields[k]; !ok && !isZeroValue(w) {
				return false
			}
		}
		return true
	case *Slice:
		y, ok := b.(*Slice)
		if !ok || y == nil || x == nil {
			return ok && x == y
		}
		if len(x.Elems) != len(y.Elems) {
			return false
		}
		for i := range x.Elems {
			if !DeepEqual(x.Elems[i], y.Elems[i]) {
				return false
			}
		}
		return true
	case *Map:
		y, ok := b.(*Map)
		if !ok || y == nil || x == nil {
			return ok && x == y
		}
		if len(x.Entries) != len(y.Entries) {
			return false
		}
		for _, e := range x.Entries {
			w, ok := y.Get(e.K)
			if !ok || !DeepEqual(e.V, w) {
				return false
			}
		}
		return true
	case *Call:
		y, ok := b.(*Call)
		if !ok || x.Fn != y.Fn || len(x.Args) != len(y.Args) {
			return false
		}
		for i := range x.Args {
			if !DeepEqual(x.Args[i], y.Args[i]) {
				return false
			}
		}
		return true
	case Tuple:
		y, ok := b.(Tuple)
		if !ok || len(x) != len(y) {
			return false
		}
		for i := range x {
			if !DeepEqual(x[i], y[i]) {
				return false
			}
		}
		return true
	}
	return false
}

func Show(v Value) string {
	switch x := v.(type) {
	case nil:
		return "<zero>"
	case Int:
		return fmt.Sprint(x.V)
	case Str:
		return fmt.Sprintf("%q", x.V)
	case Bool:
		return fmt.Sprint(x.V)
	case Float:
		return fmt.Sprint(x.V)
	case Nil:
		return "nil"
	case Unknown:
		return "?(" + x.Why + ")"
	case *Struct:
		var ks []string
		for k := range x.Fields {
			ks = append(ks, k)
		}
		sort.Strings(ks)
		var sb strings.Builder
		sb.WriteString(x.Type + "{")
		for i, k := range ks {
			if i > 0 {
				sb.WriteString(" ")
			}
			sb.WriteString(k + ":" + Show(x.Fields[k]))
		}
		sb.WriteString("}")
		return sb.String()
	case *Map:
		return fmt.Sprintf("map[%d entries]", len(x.Entries))
	case *Slice:
		if len(x.Elems) <= 24 {
			var ps []string
			for _, e := range x.Elems {
				ps = append(ps, Show(e))
			}
			return "[" + strings.Join(ps, " ") + "]"
		}
		return fmt.Sprintf("[%d elems]", len(x.Elems))
	case *Ptr:
		return "&" + Show(x.Elem)
	case *Call:
		var ps []string
		for _, e := range x.Args {
			ps = append(ps, Show(e))
		}
		return x.Fn + "(" + strings.Join(ps, ",") + ")"
	}
	return fmt.Sprintf("%v", v)
}

// AsInt returns the integer value of v; zero values (nil) count as 0.
func AsInt(v Value) (int, bool) {
	switch x := v.(type) {
	case nil:
		return 0, true
	case Int:
		return int(x.V), true
	}
	return 0, false
}
func AsBool(v Value) (bool, bool) {
	switch x := v.(type) {
	case nil:
		return false, true
	case Bool:
		return x.V, true
	}
	return false, false
}
func AsStr(v Value) (string, bool) {
	switch x := v.(type) {
	case nil:
		return "", true
	case Str:
		return x.V, true
	}
	return "", false
}

// Field returns a struct field (nil = zero value / absent).
func Field(v Value, name string) Value {
	if p, ok := v.(*Ptr); ok {
		v = p.Elem
	}
	s, ok := v.(*Struct)
	if !ok {
		return Unknown{"not a struct"}
	}
	return s.Fields[name]
}

// ---------------------------------------------------------------------------

type Env struct {
	vars   map[types.Object]*Value
	parent *Env
}

func NewEnv(parent *Env) *Env { return &Env{vars: map[types.Object]*Value{}, parent: parent} }
func (e *Env) Bind(o types.Object, v Value) {
	vv := v
	e.vars[o] = &vv
}
func (e *Env) lookup(o types.Object) *Value {
	for x := e; x != nil; x = x.parent {
		if p, ok := x.vars[o]; ok {
			return p
		}
	}
	return nil
}

// Tuple is a multi-value call result.
type Tuple []Value

// DeepCopy copies structs, arrays (slices of a value-typed array) and maps' spines are NOT copied.
func DeepCopy(v Value) Value {
	switch x := v.(type) {
	case *Struct:
		n := &Struct{Type: x.Type, T: x.T, Fields: map[string]Value{}, Pos: x.Pos}
		for k, f := range x.Fields {
			n.Fields[k] = DeepCopy(f)
		}
		return n
	case *Slice:
		n := &Slice{Elem: x.Elem, Pos: x.Pos, IsArray: x.IsArray}
		for _, e := range x.Elems {
			if x.IsArray {
				n.Elems = append(n.Elems, DeepCopy(e))
			} else {
				n.Elems = append(n.Elems, e)
			}
		}
		if !x.IsArray {
			return x // slices share their backing
		}
		return n
	}
	return v
}

type Evaluator struct {
	Pkg   *packages.Package
	Info  *types.Info
	depth int
	Steps int
	Diag  []string // constructs outside the subset
	// package-level variables that are assigned after initialisation (not foldable)
	writtenGlobals map[types.Object]bool
	globalInit     map[types.Object]ast.Expr
	others         map[string]*Evaluator // evaluators of other module packages, by path
}

// ModulePackages: the loaded packages of the module by import path, so that a call into a helper package
// (internal/…) can be evaluated in that package. Set by the loader of the band tables.
var ModulePackages map[string]*packages.Package

func NewEvaluator(pk *packages.Package) *Evaluator {
	ev := &Evaluator{Pkg: pk, Info: pk.TypesInfo, writtenGlobals: map[types.Object]bool{}, globalInit: map[types.Object]ast.Expr{}}
	for _, f := range pk.Syntax {
		for _, d := range f.Decls {
			gd, ok := d.(*ast.GenDecl)
			if !ok || gd.Tok != token.VAR {
				continue
			}
			for _, sp := range gd.Specs {
				vs := sp.(*ast.ValueSpec)
				if len(vs.Values) == len(vs.Names) {
					for i, n := range vs.Names {
						ev.globalInit[pk.TypesInfo.Defs[n]] = vs.Values[i]
					}
				}
			}
		}
		ast.Inspect(f, func(n ast.Node) bool {
			switch s := n.(type) {
			case *ast.AssignStmt:
				for _, l := range s.Lhs {
					if o := ev.rootObj(l); o != nil && o.Parent() == pk.Types.Scope() {
						ev.writtenGlobals[o] = true
					}
				}
			case *ast.IncDecStmt:
				if o := ev.rootObj(s.X); o != nil && o.Parent() == pk.Types.Scope() {
					ev.writtenGlobals[o] = true
				}
			case *ast.UnaryExpr:
				if s.Op == token.AND {
					if o := ev.rootObj(s.X); o != nil && o.Parent() == pk.Types.Scope() {
						if _, isLit := s.X.(*ast.CompositeLit); !isLit {
							ev.writtenGlobals[o] = true // address taken: may be written
						}
					}
				}
			}
			return true
		})
	}
	return ev
}

func (ev *Evaluator) rootObj(e ast.Expr) types.Object {
	for {
		switch x := e.(type) {
		case *ast.Ident:
			return ev.Info.Uses[x]
		case *ast.SelectorExpr:
			if id, ok := x.X.(*ast.Ident); ok {
				if _, isPkg := ev.Info.Uses[id].(*types.PkgName); isPkg {
					return ev.Info.Uses[x.Sel]
				}
			}
			e = x.X
		case *ast.IndexExpr:
			e = x.X
		case *ast.SliceExpr:
			e = x.X
		case *ast.StarExpr:
			e = x.X
		case *ast.ParenExpr:
			e = x.X
		default:
			return nil
		}
	}
}

func (ev *Evaluator) unk(n ast.Node, why string) Value {
	ev.Diag = append(ev.Diag, fmt.Sprintf("%s: %s", ev.Pkg.Fset.Position(n.Pos()), why))
	return Unknown{why}
}

func constToValue(c constant.Value, t types.Type) Value {
	switch c.Kind() {
	case constant.Bool:
		return Bool{constant.BoolVal(c)}
	case constant.String:
		return Str{constant.StringVal(c)}
	case constant.Int:
		if i, ok := constant.Int64Val(c); ok {
			if b, ok := t.Underlying().(*types.Basic); ok && b.Info()&types.IsFloat != 0 {
				return Float{float64(i)}
			}
			return Int{i}
		}
		if u, ok := constant.Uint64Val(c); ok {
			return Int{int64(u)}
		}
	case constant.Float:
		f, _ := constant.Float64Val(c)
		if b, ok := t.Underlying().(*types.Basic); ok && b.Info()&types.IsInteger != 0 {
			if i, ok := constant.Int64Val(constant.ToInt(c)); ok {
				return Int{i}
			}
		}
		return Float{f}
	}
	return Unknown{"constant kind"}
}

func typeName(t types.Type) string {
	switch x := t.(type) {
	case *types.Named:
		return x.Obj().Name()
	case *types.Pointer:
		return "*" + typeName(x.Elem())
	}
	return t.String()
}

// Eval evaluates an expression.
func (ev *Evaluator) Eval(e ast.Expr, env *Env) Value {
	if tv, ok := ev.Info.Types[e]; ok && tv.Value != nil {
		return constToValue(tv.Value, tv.Type)
	}
	switch x := e.(type) {
	case *ast.ParenExpr:
		return ev.Eval(x.X, env)
	case *ast.Ident:
		if x.Name == "nil" {
			return Nil{}
		}
		o := ev.Info.Uses[x]
		if o == nil {
			o = ev.Info.Defs[x]
		}
		if p := env.lookup(o); p != nil {
			return *p
		}
		if init, ok := ev.globalInit[o]; ok {
			if ev.writtenGlobals[o] {
				return ev.unk(x, "package variable "+x.Name+" is written after initialisation")
			}
			return ev.Eval(init, NewEnv(nil))
		}
		// a function of the package used as a value
		if fn, ok := o.(*types.Func); ok && fn.Pkg() == ev.Pkg.Types {
			for _, file := range ev.Pkg.Syntax {
				for _, d := range file.Decls {
					if fd, ok := d.(*ast.FuncDecl); ok && fd.Body != nil && fd.Recv == nil && ev.Info.Defs[fd.Name] == o {
						return &FuncRef{Decl: fd}
					}
				}
			}
		}
		return ev.unk(x, "unbound identifier "+x.Name)
	case *ast.FuncLit:
		return &Closure{Lit: x, Env: env}
	case *ast.CompositeLit:
		return ev.evalLit(x, env)
	case *ast.UnaryExpr:
		v := ev.Eval(x.X, env)
		switch x.Op {
		case token.AND:
			return &Ptr{v}
		case token.SUB:
			if i, ok := v.(Int); ok {
				return Int{-i.V}
			}
			if f, ok := v.(Float); ok {
				return Float{-f.V}
			}
		case token.NOT:
			if b, ok := v.(Bool); ok {
				return Bool{!b.V}
			}
		}
		return ev.unk(x, "unary "+x.Op.String())
	case *ast.BinaryExpr:
		return ev.evalBinary(x, env)
	case *ast.SelectorExpr:
		if sel, ok := ev.Info.Selections[x]; ok && sel.Kind() == types.FieldVal {
			base := ev.Eval(x.X, env)
			return ev.selectPath(base, sel, x)
		}
		// package-qualified variable
		if o := ev.Info.Uses[x.Sel]; o != nil {
			if _, ok := o.(*types.Var); ok {
				return ev.unk(x, "foreign package variable "+x.Sel.Name)
			}
		}
		return ev.unk(x, "selector")
	case *ast.SliceExpr:
		base := ev.Eval(x.X, env)
		if p, ok := base.(*Ptr); ok {
			base = p.Elem
		}
		sl, ok := base.(*Slice)
		if !ok || x.Slice3 {
			return ev.unk(x, "slice of an undetermined value")
		}
		lo, hi := 0, len(sl.Elems)
		if x.Low != nil {
			v, ok := AsInt(ev.Eval(x.Low, env))
			if !ok {
				return ev.unk(x, "slice bound not determined")
			}
			lo = v
		}
		if x.High != nil {
			v, ok := AsInt(ev.Eval(x.High, env))
			if !ok {
				return ev.unk(x, "slice bound not determined")
			}
			hi = v
		}
		if lo < 0 || hi < lo || hi > len(sl.Elems) {
			return ev.unk(x, "slice bounds out of range")
		}
		// the result shares its elements with the operand, as in Go
		return &Slice{Elems: sl.Elems[lo:hi:hi], Elem: sl.Elem, Pos: x.Pos()}
	case *ast.IndexExpr:
		base := ev.Eval(x.X, env)
		idx := ev.Eval(x.Index, env)
		switch b := base.(type) {
		case *Slice:
			if i, ok := idx.(Int); ok && i.V >= 0 && int(i.V) < len(b.Elems) {
				return b.Elems[i.V]
			}
			if i, ok := idx.(Int); ok {
				// both the table and the index are determined: this is what the program does
				return ev.unk(x, fmt.Sprintf("PANIC: index out of range [%d] with length %d", i.V, len(b.Elems)))
			}
			return ev.unk(x, "index not a constant in range")
		case *Map:
			if v, ok := b.Get(idx); ok {
				return v
			}
			if _, bad := idx.(Unknown); !bad {
				if z := ev.zeroOrNil(ev.Info.TypeOf(x)); z != nil {
					return z // reading a missing key yields the zero value
				}
			}
			return nil
		case Nil:
			// reading from a nil map is legal and yields the zero value
			if _, isMap := ev.Info.TypeOf(x.X).Underlying().(*types.Map); isMap {
				if z := ev.zeroOrNil(ev.Info.TypeOf(x)); z != nil {
					return z
				}
			}
			if _, isSl := ev.Info.TypeOf(x.X).Underlying().(*types.Slice); isSl {
				if i, ok := idx.(Int); ok {
					return ev.unk(x, fmt.Sprintf("PANIC: index out of range [%d] with length 0 (nil slice)", i.V))
				}
			}
		}
		return ev.unk(x, "index on non-table")
	case *ast.StarExpr:
		v := ev.Eval(x.X, env)
		if p, ok := v.(*Ptr); ok {
			return p.Elem
		}
		return ev.unk(x, "deref")
	case *ast.CallExpr:
		return ev.evalCall(x, env)
	}
	return ev.unk(e, fmt.Sprintf("expression %T outside subset", e))
}

func (ev *Evaluator) selectPath(base Value, sel *types.Selection, n ast.Node) Value {
	t := sel.Recv()
	cur := base
	for _, idx := range sel.Index() {
		if p, ok := cur.(*Ptr); ok {
			cur = p.Elem
		}
		if pt, ok := t.Underlying().(*types.Pointer); ok {
			t = pt.Elem()
		}
		st, ok := t.Underlying().(*types.Struct)
		if !ok {
			return ev.unk(n, "selection through non-struct")
		}
		f := st.Field(idx)
		s, ok := cur.(*Struct)
		if !ok {
			if cur == nil {
				return nil // zero struct
			}
			return ev.unk(n, "selection on non-struct value")
		}
		cur = s.Fields[f.Name()]
		t = f.Type()
		if cur == nil {
			cur = ev.zero(t)
		}
	}
	return cur
}

func wrapInt(v int64, t types.Type) int64 {
	b, ok := t.Underlying().(*types.Basic)
	if !ok {
		return v
	}
	switch b.Kind() {
	case types.Uint8:
		return int64(uint8(v))
	case types.Uint16:
		return int64(uint16(v))
	case types.Uint32:
		return int64(uint32(v))
	case types.Int8:
		return int64(int8(v))
	case types.Int16:
		return int64(int16(v))
	case types.Int32:
		return int64(int32(v))
	}
	return v
}

func (ev *Evaluator) evalBinary(x *ast.BinaryExpr, env *Env) Value {
	l := ev.Eval(x.X, env)
	if x.Op == token.LAND || x.Op == token.LOR {
		lb, ok := l.(Bool)
		if !ok {
			return ev.unk(x, "non-constant condition")
		}
		if x.Op == token.LAND && !lb.V {
			return Bool{false}
		}
		if x.Op == token.LOR && lb.V {
			return Bool{true}
		}
		r := ev.Eval(x.Y, env)
		if rb, ok := r.(Bool); ok {
			return rb
		}
		return ev.unk(x, "non-constant condition")
	}
	r := ev.Eval(x.Y, env)
	t := ev.Info.TypeOf(x)
	switch a := l.(type) {
	case Int:
		b, ok := r.(Int)
		if !ok {
			break
		}
		switch x.Op {
		case token.ADD:
			return Int{wrapInt(a.V+b.V, t)}
		case token.SUB:
			return Int{wrapInt(a.V-b.V, t)}
		case token.MUL:
			return Int{wrapInt(a.V*b.V, t)}
		case token.QUO:
			if b.V != 0 {
				return Int{a.V / b.V}
			}
		case token.REM:
			if b.V != 0 {
				return Int{a.V % b.V}
			}
		case token.SHL:
			return Int{wrapInt(a.V<<uint(b.V), t)}
		case token.SHR:
			return Int{a.V >> uint(b.V)}
		case token.AND:
			return Int{a.V & b.V}
		case token.OR:
			return Int{a.V | b.V}
		case token.XOR:
			return Int{wrapInt(a.V^b.V, t)}
		case token.EQL:
			return Bool{a.V == b.V}
		case token.NEQ:
			return Bool{a.V != b.V}
		case token.LSS:
			return Bool{a.V < b.V}
		case token.LEQ:
			return Bool{a.V <= b.V}
		case token.GTR:
			return Bool{a.V > b.V}
		case token.GEQ:
			return Bool{a.V >= b.V}
		}
	case Str:
		b, ok := r.(Str)
		if !ok {
			break
		}
		switch x.Op {
		case token.ADD:
			return Str{a.V + b.V}
		case token.EQL:
			return Bool{a.V == b.V}
		case token.NEQ:
			return Bool{a.V != b.V}
		}
	case Bool:
		b, ok := r.(Bool)
		if !ok {
			break
		}
		switch x.Op {
		case token.EQL:
			return Bool{a.V == b.V}
		case token.NEQ:
			return Bool{a.V != b.V}
		}
	case Float:
		b, ok := r.(Float)
		if !ok {
			break
		}
		switch x.Op {
		case token.ADD:
			return Float{a.V + b.V}
		case token.SUB:
			return Float{a.V - b.V}
		case token.MUL:
			return Float{a.V * b.V}
		case token.EQL:
			return Bool{a.V == b.V}
		case token.NEQ:
			return Bool{a.V != b.V}
		case token.LSS:
			return Bool{a.V < b.V}
		case token.LEQ:
			return Bool{a.V <= b.V}
		case token.GTR:
			return Bool{a.V > b.V}
		case token.GEQ:
			return Bool{a.V >= b.V}
		}
	}
	// comparison of fully evaluated struct / array values
	if x.Op == token.EQL || x.Op == token.NEQ {
		// against nil: a map, slice, pointer or function the evaluator has built is not nil (a value it does not know is
		// a Go-nil Value here and stays undecided)
		for _, pr := range [][2]Value{{l, r}, {r, l}} {
			if _, isNil := pr[0].(Nil); !isNil {
				continue
			}
			switch o := pr[1].(type) {
			case Nil:
				return Bool{x.Op == token.EQL}
			case *Map, *Ptr, *FuncRef:
				_ = o
				return Bool{x.Op == token.NEQ}
			case *Call:
				// an error value built by a constructor that never returns nil
				switch o.Fn {
				case "fmt.Errorf", "errors.New", "errors.Errorf":
					return Bool{x.Op == token.NEQ}
				}
			case *Slice:
				if !o.IsArray {
					return Bool{x.Op == token.NEQ}
				}
			}
		}
		if ls, ok := l.(*Struct); ok {
			if rs, ok := r.(*Struct); ok && fullyKnown(ls) && fullyKnown(rs) {
				return Bool{DeepEqual(ls, rs) == (x.Op == token.EQL)}
			}
		}
		if la, ok := l.(*Slice); ok && la.IsArray {
			if ra, ok := r.(*Slice); ok && ra.IsArray && fullyKnown(la) && fullyKnown(ra) {
				return Bool{DeepEqual(la, ra) == (x.Op == token.EQL)}
			}
		}
	}
	return ev.unk(x, "binary "+x.Op.String()+" on non-constant operands")
}

// zeroOrNil: the zero value of t, with reference types as Nil.
func (ev *Evaluator) zeroOrNil(t types.Type) Value {
	if t == nil {
		return nil
	}
	switch t.Underlying().(type) {
	case *types.Map, *types.Slice, *types.Pointer, *types.Signature, *types.Interface:
		return Nil{}
	}
	return ev.zero(t)
}

func (ev *Evaluator) zero(t types.Type) Value {
	switch u := t.Underlying().(type) {
	case *types.Basic:
		switch {
		case u.Info()&types.IsBoolean != 0:
			return Bool{false}
		case u.Info()&types.IsString != 0:
			return Str{""}
		case u.Info()&types.IsInteger != 0:
			return Int{0}
		case u.Info()&types.IsFloat != 0:
			return Float{0}
		}
		return nil
	case *types.Struct:
		return &Struct{Type: typeName(t), T: t, Fields: map[string]Value{}}
	case *types.Array:
		s := &Slice{Elem: u.Elem(), IsArray: true}
		for i := int64(0); i < u.Len(); i++ {
			s.Elems = append(s.Elems, ev.zero(u.Elem()))
		}
		return s
	}
	return nil
}

func (ev *Evaluator) evalCall(x *ast.CallExpr, env *Env) Value {
	// conversion
	if tv, ok := ev.Info.Types[x.Fun]; ok && tv.IsType() && len(x.Args) == 1 {
		v := ev.Eval(x.Args[0], env)
		if i, ok := v.(Int); ok {
			if b, ok := tv.Type.Underlying().(*types.Basic); ok && b.Info()&types.IsFloat != 0 {
				return Float{float64(i.V)}
			}
			return Int{wrapInt(i.V, tv.Type)}
		}
		return v
	}
	if id, ok := x.Fun.(*ast.Ident); ok {
		if _, isB := ev.Info.Uses[id].(*types.Builtin); isB {
			switch id.Name {
			case "make":
				t := ev.Info.TypeOf(x.Args[0])
				switch u := t.Underlying().(type) {
				case *types.Slice:
					if len(x.Args) >= 2 {
						if n, ok := ev.Eval(x.Args[1], env).(Int); ok && n.V >= 0 && n.V < 1<<16 {
							s := &Slice{Elem: u.Elem(), Pos: x.Pos()}
							for i := int64(0); i < n.V; i++ {
								s.Elems = append(s.Elems, ev.zeroOrNil(u.Elem()))
							}
							return s
						}
					}
				case *types.Map:
					return &Map{Pos: x.Pos()}
				}
			case "append":
				base := ev.Eval(x.Args[0], env)
				var elems []Value
				var et types.Type
				switch b := base.(type) {
				case *Slice:
					elems = append(elems, b.Elems...)
					et = b.Elem
				case Nil, nil:
				default:
					return ev.unk(x, "append to undetermined slice")
				}
				if st, ok := ev.Info.TypeOf(x.Args[0]).Underlying().(*types.Slice); ok {
					et = st.Elem()
				}
				if x.Ellipsis.IsValid() {
					src, ok := ev.Eval(x.Args[1], env).(*Slice)
					if !ok {
						return ev.unk(x, "append of undetermined slice")
					}
					elems = append(elems, src.Elems...)
				} else {
					for _, a := range x.Args[1:] {
						elems = append(elems, ev.copyIfValueType(ev.Eval(a, env), ev.Info.TypeOf(a)))
					}
				}
				return &Slice{Elems: elems, Elem: et, Pos: x.Pos()}
			case "len":
				switch b := ev.Eval(x.Args[0], env).(type) {
				case *Slice:
					return Int{int64(len(b.Elems))}
				case *Map:
					return Int{int64(len(b.Entries))}
				case Str:
					return Int{int64(len(b.V))}
				}
			}
			return ev.unk(x, "builtin "+id.Name)
		}
	}
	// pure functions of package strings on determined arguments (version strings are normalised before a lookup)
	if v, ok := ev.evalStringsCall(x, env); ok {
		return v
	}
	// call of a plain function of another package of the module (a helper package): evaluated there
	if v, ok := ev.evalModuleCall(x, env); ok {
		return v
	}
	// call of a function or method declared in the analysed package
	if fd, recvExpr := ev.calleeDecl(x); fd != nil {
		bind := map[string]Value{}
		if recvExpr != nil && fd.Recv != nil && len(fd.Recv.List) == 1 && len(fd.Recv.List[0].Names) == 1 {
			rv := ev.Eval(recvExpr, env)
			_, wantPtr := ev.Info.TypeOf(fd.Recv.List[0].Type).(*types.Pointer)
			if _, isPtr := rv.(*Ptr); wantPtr && !isPtr {
				rv = &Ptr{rv}
			} else if p, isPtr := rv.(*Ptr); !wantPtr && isPtr {
				rv = DeepCopy(p.Elem)
			} else if !wantPtr {
				rv = DeepCopy(rv)
			}
			bind[fd.Recv.List[0].Names[0].Name] = rv
		}
		i := 0
		for _, f := range fd.Type.Params.List {
			for _, n := range f.Names {
				if i < len(x.Args) {
					bind[n.Name] = ev.copyIfValueType(ev.Eval(x.Args[i], env), ev.Info.TypeOf(x.Args[i]))
				}
				i++
			}
		}
		ev.depth++
		if ev.depth > 16 {
			ev.depth--
			return ev.unk(x, "call depth")
		}
		res, ok := ev.Call(fd, bind)
		ev.depth--
		if !ok {
			return ev.unk(x, "callee left the evaluable subset")
		}
		if len(res) == 1 {
			return res[0]
		}
		return Tuple(res)
	}
	// a function literal or a variable holding one
	switch x.Fun.(type) {
	case *ast.FuncLit, *ast.Ident, *ast.IndexExpr, *ast.SelectorExpr, *ast.CallExpr:
		fv := ev.Eval(x.Fun, env)
		if cl, ok := fv.(*Closure); ok {
			var args []Value
			for _, a := range x.Args {
				args = append(args, ev.copyIfValueType(ev.Eval(a, env), ev.Info.TypeOf(a)))
			}
			return ev.callClosure(cl, args, x)
		}
		if fr, ok := fv.(*FuncRef); ok {
			bind := map[string]Value{}
			i := 0
			for _, f := range fr.Decl.Type.Params.List {
				for _, n := range f.Names {
					if i < len(x.Args) {
						bind[n.Name] = ev.copyIfValueType(ev.Eval(x.Args[i], env), ev.Info.TypeOf(x.Args[i]))
					}
					i++
				}
				if len(f.Names) == 0 {
					i++
				}
			}
			ev.depth++
			if ev.depth > 16 {
				ev.depth--
				return ev.unk(x, "call depth")
			}
			res, ok := ev.Call(fr.Decl, bind)
			ev.depth--
			if !ok {
				return ev.unk(x, "callee left the evaluable subset")
			}
			if len(res) == 1 {
				return res[0]
			}
			return Tuple(res)
		}
	}
	// sort.Search(n, f): the smallest index in [0, n) for which f is true, by the library's binary search
	if types.ExprString(x.Fun) == "sort.Search" && len(x.Args) == 2 {
		n, ok1 := AsInt(ev.Eval(x.Args[0], env))
		cl, ok2 := ev.Eval(x.Args[1], env).(*Closure)
		if !ok1 || !ok2 {
			return ev.unk(x, "sort.Search with undetermined arguments")
		}
		i, j := 0, n
		for i < j {
			h := int(uint(i+j) >> 1)
			b, ok := AsBool(ev.callClosure(cl, []Value{Int{int64(h)}}, x))
			if !ok {
				return ev.unk(x, "sort.Search predicate not determined")
			}
			if !b {
				i = h + 1
			} else {
				j = h
			}
		}
		return Int{int64(i)}
	}
	// uninterpreted library call with constant arguments (time.Date, …)
	name := types.ExprString(x.Fun)
	c := &Call{Fn: name, Pos: x.Pos()}
	for _, a := range x.Args {
		c.Args = append(c.Args, ev.Eval(a, env))
	}
	return c
}

func (ev *Evaluator) evalLit(x *ast.CompositeLit, env *Env) Value {
	t := ev.Info.TypeOf(x)
	if t == nil {
		return ev.unk(x, "untyped literal")
	}
	if p, ok := t.Underlying().(*types.Pointer); ok { // elided &T in nested literal
		inner := ev.litOfType(x, p.Elem(), env)
		return &Ptr{inner}
	}
	return ev.litOfType(x, t, env)
}

func (ev *Evaluator) elt(e ast.Expr, et types.Type, env *Env) Value {
	if cl, ok := e.(*ast.CompositeLit); ok && cl.Type == nil {
		if p, ok := et.Underlying().(*types.Pointer); ok {
			return &Ptr{ev.litOfType(cl, p.Elem(), env)}
		}
		return ev.litOfType(cl, et, env)
	}
	return ev.Eval(e, env)
}

func (ev *Evaluator) litOfType(x *ast.CompositeLit, t types.Type, env *Env) Value {
	switch u := t.Underlying().(type) {
	case *types.Struct:
		s := &Struct{Type: typeName(t), T: t, Fields: map[string]Value{}, Pos: x.Pos()}
		for i, e := range x.Elts {
			if kv, ok := e.(*ast.KeyValueExpr); ok {
				name := kv.Key.(*ast.Ident).Name
				var ft types.Type
				for j := 0; j < u.NumFields(); j++ {
					if u.Field(j).Name() == name {
						ft = u.Field(j).Type()
					}
				}
				s.Fields[name] = ev.elt(kv.Value, ft, env)
			} else if i < u.NumFields() {
				s.Fields[u.Field(i).Name()] = ev.elt(e, u.Field(i).Type(), env)
			}
		}
		return s
	case *types.Map:
		m := &Map{Pos: x.Pos()}
		for _, e := range x.Elts {
			kv, ok := e.(*ast.KeyValueExpr)
			if !ok {
				return ev.unk(x, "map literal without key")
			}
			k := ev.elt(kv.Key, u.Key(), env)
			if _, dup := m.Get(k); dup {
				m.Dup = append(m.Dup, Show(k))
			}
			m.Entries = append(m.Entries, &MapEntry{K: k, V: ev.elt(kv.Value, u.Elem(), env), Pos: kv.Pos()})
		}
		return m
	case *types.Slice, *types.Array:
		var et types.Type
		n := int64(-1)
		if sl, ok := u.(*types.Slice); ok {
			et = sl.Elem()
		} else {
			et = u.(*types.Array).Elem()
			n = u.(*types.Array).Len()
		}
		s := &Slice{Elem: et, Pos: x.Pos(), IsArray: n >= 0}
		idx := int64(0)
		for _, e := range x.Elts {
			if kv, ok := e.(*ast.KeyValueExpr); ok {
				ki, ok := ev.Eval(kv.Key, env).(Int)
				if !ok {
					return ev.unk(x, "non-constant array key")
				}
				idx = ki.V
				e = kv.Value
			}
			for int64(len(s.Elems)) <= idx {
				s.Elems = append(s.Elems, ev.zeroOrNil(et))
			}
			s.Elems[idx] = ev.elt(e, et, env)
			idx++
		}
		for n >= 0 && int64(len(s.Elems)) < n {
			s.Elems = append(s.Elems, ev.zeroOrNil(et))
		}
		return s
	}
	return ev.unk(x, "literal of type "+t.String())
}

// ---------------------------------------------------------------------------
// statements

type ctl int

const (
	ctlNone ctl = iota
	ctlReturn
	ctlBreak
	ctlContinue
	ctlAbort
)

type Frame struct {
	Results []Value
	named   []types.Object // named results of the function being evaluated (a bare `return` yields their values)
}

// FuncRef is a declared function of the package used as a value.
type FuncRef struct{ Decl *ast.FuncDecl }

// Closure is a function literal with the environment it was created in (variables captured by reference).
type Closure struct {
	Lit *ast.FuncLit
	Env *Env
}

// callClosure evaluates a closure on argument values.
func (ev *Evaluator) callClosure(cl *Closure, args []Value, at ast.Node) Value {
	env := NewEnv(cl.Env)
	i := 0
	if cl.Lit.Type.Params != nil {
		for _, f := range cl.Lit.Type.Params.List {
			for _, n := range f.Names {
				if i < len(args) && n.Name != "_" {
					env.Bind(ev.Info.Defs[n], args[i])
				}
				i++
			}
			if len(f.Names) == 0 {
				i++
			}
		}
	}
	ev.depth++
	defer func() { ev.depth-- }()
	if ev.depth > 16 {
		return ev.unk(at, "call depth")
	}
	fr := &Frame{}
	c := ev.block(cl.Lit.Body.List, env, fr)
	if c == ctlAbort {
		return ev.unk(at, "closure left the evaluable subset")
	}
	if c != ctlReturn {
		if cl.Lit.Type.Results == nil || len(cl.Lit.Type.Results.List) == 0 {
			return Tuple(nil)
		}
		return ev.unk(at, "closure without a return")
	}
	if len(fr.Results) == 1 {
		return fr.Results[0]
	}
	return Tuple(fr.Results)
}

const maxSteps = 200000

// copyIfValueType applies Go value semantics when a struct or array value is assigned or passed.
func (ev *Evaluator) copyIfValueType(v Value, t types.Type) Value {
	if t == nil {
		return v
	}
	switch t.Underlying().(type) {
	case *types.Struct, *types.Array:
		return DeepCopy(v)
	}
	return v
}

// calleeDecl resolves a call to a function or method declared in the analysed package.
func (ev *Evaluator) calleeDecl(x *ast.CallExpr) (*ast.FuncDecl, ast.Expr) {
	var obj types.Object
	var recv ast.Expr
	switch f := x.Fun.(type) {
	case *ast.Ident:
		obj = ev.Info.Uses[f]
	case *ast.SelectorExpr:
		if sel, ok := ev.Info.Selections[f]; ok && sel.Kind() == types.MethodVal {
			obj = sel.Obj()
			recv = f.X
			if len(sel.Index()) > 1 {
				// promoted through an embedded field: evaluate the embedded value as receiver
				return ev.promoted(f, sel)
			}
		}
	}
	fn, ok := obj.(*types.Func)
	if !ok || fn.Pkg() != ev.Pkg.Types {
		return nil, nil
	}
	for _, file := range ev.Pkg.Syntax {
		for _, d := range file.Decls {
			if fd, ok := d.(*ast.FuncDecl); ok && fd.Body != nil && ev.Info.Defs[fd.Name] == obj {
				return fd, recv
			}
		}
	}
	return nil, nil
}

func (ev *Evaluator) promoted(f *ast.SelectorExpr, sel *types.Selection) (*ast.FuncDecl, ast.Expr) {
	return nil, nil // not needed by the table accessors analysed so far
}

// Call evaluates fd with the given bindings (receiver and parameters by name).
// Returns the values of the first return statement reached; ok=false if evaluation left the subset.
func (ev *Evaluator) Call(fd *ast.FuncDecl, bind map[string]Value) ([]Value, bool) {
	env := NewEnv(nil)
	bindField := func(fl *ast.FieldList) {
		if fl == nil {
			return
		}
		for _, f := range fl.List {
			for _, n := range f.Names {
				o := ev.Info.Defs[n]
				if v, ok := bind[n.Name]; ok {
					env.Bind(o, v)
				} else if n.Name != "_" {
					env.Bind(o, Unknown{"symbolic parameter " + n.Name})
				}
			}
		}
	}
	bindField(fd.Recv)
	bindField(fd.Type.Params)
	fr := &Frame{}
	if fd.Type.Results != nil {
		for _, f := range fd.Type.Results.List {
			for _, n := range f.Names {
				o := ev.Info.Defs[n]
				if o == nil || n.Name == "_" {
					continue
				}
				var z Value
				switch o.Type().Underlying().(type) {
				case *types.Interface, *types.Pointer, *types.Map, *types.Slice, *types.Signature:
					z = Nil{}
				default:
					z = ev.zero(o.Type())
				}
				env.Bind(o, z)
				fr.named = append(fr.named, o)
			}
		}
	}
	c := ev.block(fd.Body.List, env, fr)
	if c == ctlAbort {
		return nil, false
	}
	// a function without results may fall off its end
	return fr.Results, c == ctlReturn || (c == ctlNone && (fd.Type.Results == nil || len(fd.Type.Results.List) == 0))
}

func (ev *Evaluator) block(list []ast.Stmt, env *Env, fr *Frame) ctl {
	for _, s := range list {
		if c := ev.stmt(s, env, fr); c != ctlNone {
			return c
		}
	}
	return ctlNone
}

func (ev *Evaluator) abort(n ast.Node, why string) ctl {
	ev.Diag = append(ev.Diag, fmt.Sprintf("%s: %s", ev.Pkg.Fset.Position(n.Pos()), why))
	return ctlAbort
}

func (ev *Evaluator) stmt(s ast.Stmt, env *Env, fr *Frame) ctl {
	ev.Steps++
	if ev.Steps > maxSteps {
		return ev.abort(s, "step budget exceeded")
	}
	switch x := s.(type) {
	case *ast.BlockStmt:
		return ev.block(x.List, NewEnv(env), fr)
	case *ast.EmptyStmt:
		return ctlNone
	case *ast.ExprStmt:
		// a call for effect: in-package functions are evaluated (slices and pointers share storage with the
		// caller); anything else could change state the evaluator would then misreport, so it leaves the subset
		if call, ok := x.X.(*ast.CallExpr); ok {
			// delete(m, k) on a table the evaluator has built
			if id, isID := call.Fun.(*ast.Ident); isID && id.Name == "delete" && len(call.Args) == 2 {
				if _, isB := ev.Info.Uses[id].(*types.Builtin); isB {
					m, okM := ev.Eval(call.Args[0], env).(*Map)
					k := ev.Eval(call.Args[1], env)
					if _, bad := k.(Unknown); !okM || bad || k == nil {
						return ev.abort(x, "delete on an undetermined table or key")
					}
					for i, e := range m.Entries {
						if Equal(e.K, k) {
							m.Entries = append(m.Entries[:i:i], m.Entries[i+1:]...)
							break
						}
					}
					return ctlNone
				}
			}
			if fd, _ := ev.calleeDecl(call); fd != nil {
				if _, bad := ev.Eval(call, env).(Unknown); bad {
					return ev.abort(x, "call for effect left the evaluable subset")
				}
				return ctlNone
			}
		}
		return ev.abort(x, "statement with an external call for effect is not modelled")
	case *ast.DeclStmt:
		gd := x.Decl.(*ast.GenDecl)
		for _, sp := range gd.Specs {
			if vs, ok := sp.(*ast.ValueSpec); ok {
				for i, n := range vs.Names {
					var v Value
					if i < len(vs.Values) {
						v = ev.Eval(vs.Values[i], env)
					} else {
						v = ev.zero(ev.Info.Defs[n].Type())
					}
					env.Bind(ev.Info.Defs[n], v)
				}
			}
		}
		return ctlNone
	case *ast.AssignStmt:
		if len(x.Lhs) == 2 && len(x.Rhs) == 1 {
			// comma-ok map lookup
			if ix, ok := x.Rhs[0].(*ast.IndexExpr); ok {
				if _, isNilMap := ev.Eval(ix.X, env).(Nil); isNilMap {
					if mt, ok := ev.Info.TypeOf(ix.X).Underlying().(*types.Map); ok {
						if z := ev.zeroOrNil(mt.Elem()); z != nil {
							if c := ev.assign(x.Lhs[0], z, env, x.Tok == token.DEFINE); c != ctlNone {
								return c
							}
							return ev.assign(x.Lhs[1], Bool{false}, env, x.Tok == token.DEFINE)
						}
					}
				}
				if m, ok := ev.Eval(ix.X, env).(*Map); ok {
					k := ev.Eval(ix.Index, env)
					if _, bad := k.(Unknown); !bad {
						v, found := m.Get(k)
						if !found {
							if mt, ok := ev.Info.TypeOf(ix.X).Underlying().(*types.Map); ok {
								v = ev.zero(mt.Elem())
							}
						}
						if c := ev.assign(x.Lhs[0], v, env, x.Tok == token.DEFINE); c != ctlNone {
							return c
						}
						return ev.assign(x.Lhs[1], Bool{found}, env, x.Tok == token.DEFINE)
					}
				}
			}
		}
		if len(x.Lhs) > 1 && len(x.Rhs) == 1 {
			if t, ok := ev.Eval(x.Rhs[0], env).(Tuple); ok && len(t) == len(x.Lhs) {
				for i, l := range x.Lhs {
					if c := ev.assign(l, t[i], env, x.Tok == token.DEFINE); c != ctlNone {
						return c
					}
				}
				return ctlNone
			}
		}
		if len(x.Lhs) != len(x.Rhs) {
			return ev.abort(x, "tuple assignment")
		}
		vals := make([]Value, len(x.Rhs))
		for i, r := range x.Rhs {
			vals[i] = ev.Eval(r, env)
		}
		for i, l := range x.Lhs {
			v := vals[i]
			if x.Tok != token.ASSIGN && x.Tok != token.DEFINE {
				// op-assign
				op := map[token.Token]token.Token{token.ADD_ASSIGN: token.ADD, token.SUB_ASSIGN: token.SUB, token.MUL_ASSIGN: token.MUL}[x.Tok]
				cur := ev.Eval(l, env)
				ci, ok1 := cur.(Int)
				vi, ok2 := v.(Int)
				if !ok1 || !ok2 || op == 0 {
					return ev.abort(x, "op-assign on non-constant")
				}
				switch op {
				case token.ADD:
					v = Int{ci.V + vi.V}
				case token.SUB:
					v = Int{ci.V - vi.V}
				case token.MUL:
					v = Int{ci.V * vi.V}
				}
			}
			v = ev.copyIfValueType(v, ev.Info.TypeOf(l))
			if c := ev.assign(l, v, env, x.Tok == token.DEFINE); c != ctlNone {
				return c
			}
		}
		return ctlNone
	case *ast.IncDecStmt:
		cur, ok := ev.Eval(x.X, env).(Int)
		if !ok {
			return ev.abort(x, "inc/dec on non-constant")
		}
		d := int64(1)
		if x.Tok == token.DEC {
			d = -1
		}
		return ev.assign(x.X, Int{wrapInt(cur.V+d, ev.Info.TypeOf(x.X))}, env, false)
	case *ast.IfStmt:
		inner := NewEnv(env)
		if x.Init != nil {
			if c := ev.stmt(x.Init, inner, fr); c != ctlNone {
				return c
			}
		}
		cv, ok := ev.Eval(x.Cond, inner).(Bool)
		if !ok {
			return ev.abort(x, "branch on a value that is not determined by the configuration")
		}
		if cv.V {
			return ev.block(x.Body.List, NewEnv(inner), fr)
		}
		if x.Else != nil {
			return ev.stmt(x.Else, inner, fr)
		}
		return ctlNone
	case *ast.ForStmt:
		inner := NewEnv(env)
		if x.Init != nil {
			if c := ev.stmt(x.Init, inner, fr); c != ctlNone {
				return c
			}
		}
		for {
			if x.Cond != nil {
				cv, ok := ev.Eval(x.Cond, inner).(Bool)
				if !ok {
					return ev.abort(x, "loop bound not constant")
				}
				if !cv.V {
					break
				}
			}
			c := ev.block(x.Body.List, NewEnv(inner), fr)
			if c == ctlBreak {
				break
			}
			if c == ctlReturn || c == ctlAbort {
				return c
			}
			if x.Post != nil {
				if c := ev.stmt(x.Post, inner, fr); c != ctlNone {
					return c
				}
			}
			if ev.Steps > maxSteps {
				return ev.abort(x, "step budget exceeded")
			}
		}
		return ctlNone
	case *ast.RangeStmt:
		coll := ev.Eval(x.X, env)
		type kv struct{ k, v Value }
		var items []kv
		switch cv := coll.(type) {
		case *Slice:
			for i, e := range cv.Elems {
				items = append(items, kv{Int{int64(i)}, e})
			}
		case *Map:
			for _, e := range cv.Entries {
				items = append(items, kv{e.K, e.V})
			}
		case nil:
		default:
			return ev.abort(x, "range over undetermined collection")
		}
		for _, it := range items {
			inner := NewEnv(env)
			if x.Key != nil {
				if id, ok := x.Key.(*ast.Ident); ok && id.Name != "_" {
					if x.Tok == token.DEFINE {
						inner.Bind(ev.Info.Defs[id], it.k)
					} else if c := ev.assign(x.Key, it.k, inner, false); c != ctlNone {
						return c
					}
				}
			}
			if x.Value != nil {
				if id, ok := x.Value.(*ast.Ident); ok && id.Name != "_" {
					// the iteration variable is a copy of the element (struct and array elements must not be shared with
					// the table: `d.uplink = false` inside the loop does not touch it)
					val := ev.copyIfValueType(it.v, ev.Info.TypeOf(x.Value))
					if x.Tok == token.DEFINE {
						inner.Bind(ev.Info.Defs[id], val)
					} else if c := ev.assign(x.Value, val, inner, false); c != ctlNone {
						return c
					}
				}
			}
			c := ev.block(x.Body.List, inner, fr)
			if c == ctlBreak {
				break
			}
			if c == ctlReturn || c == ctlAbort {
				return c
			}
		}
		return ctlNone
	case *ast.ReturnStmt:
		if len(x.Results) == 0 && len(fr.named) > 0 {
			for _, o := range fr.named {
				p := env.lookup(o)
				if p == nil {
					return ev.abort(x, "named result not bound")
				}
				fr.Results = append(fr.Results, *p)
			}
			return ctlReturn
		}
		for _, r := range x.Results {
			fr.Results = append(fr.Results, ev.Eval(r, env))
		}
		return ctlReturn
	case *ast.BranchStmt:
		switch x.Tok {
		case token.BREAK:
			return ctlBreak
		case token.CONTINUE:
			return ctlContinue
		}
	case *ast.SwitchStmt:
		inner := NewEnv(env)
		if x.Init != nil {
			if c := ev.stmt(x.Init, inner, fr); c != ctlNone {
				return c
			}
		}
		var tag Value = Bool{true}
		if x.Tag != nil {
			tag = ev.Eval(x.Tag, inner)
		}
		if _, bad := tag.(Unknown); bad {
			return ev.abort(x, "switch on undetermined value")
		}
		var def *ast.CaseClause
		for _, cc := range x.Body.List {
			c := cc.(*ast.CaseClause)
			if c.List == nil {
				def = c
				continue
			}
			for _, ce := range c.List {
				cv := ev.Eval(ce, inner)
				if _, bad := cv.(Unknown); bad {
					return ev.abort(x, "case expression undetermined")
				}
				if Equal(cv, tag) {
					r := ev.block(c.Body, NewEnv(inner), fr)
					if r == ctlBreak {
						r = ctlNone
					}
					return r
				}
			}
		}
		if def != nil {
			r := ev.block(def.Body, NewEnv(inner), fr)
			if r == ctlBreak {
				r = ctlNone
			}
			return r
		}
		return ctlNone
	}
	return ev.abort(s, fmt.Sprintf("statement %T outside subset", s))
}

// assign stores v into the location designated by l.
func (ev *Evaluator) assign(l ast.Expr, v Value, env *Env, define bool) ctl {
	switch x := l.(type) {
	case *ast.Ident:
		if x.Name == "_" {
			return ctlNone
		}
		if define {
			if o := ev.Info.Defs[x]; o != nil {
				env.Bind(o, v)
				return ctlNone
			}
		}
		o := ev.Info.Uses[x]
		if o == nil {
			o = ev.Info.Defs[x]
		}
		if p := env.lookup(o); p != nil {
			*p = v
			return ctlNone
		}
		return ev.abort(l, "assignment to non-local "+x.Name)
	case *ast.SelectorExpr:
		sel, ok := ev.Info.Selections[x]
		if !ok || sel.Kind() != types.FieldVal {
			return ev.abort(l, "assignment to non-field selector")
		}
		base := ev.Eval(x.X, env)
		t := sel.Recv()
		cur := base
		path := sel.Index()
		for n, idx := range path {
			if p, ok := cur.(*Ptr); ok {
				cur = p.Elem
			}
			if pt, ok := t.Underlying().(*types.Pointer); ok {
				t = pt.Elem()
			}
			st, ok := t.Underlying().(*types.Struct)
			if !ok {
				return ev.abort(l, "assignment through non-struct")
			}
			s, ok := cur.(*Struct)
			if !ok {
				return ev.abort(l, "assignment into undetermined struct")
			}
			f := st.Field(idx)
			if n == len(path)-1 {
				s.Fields[f.Name()] = v
				return ctlNone
			}
			nxt := s.Fields[f.Name()]
			if nxt == nil {
				nxt = ev.zero(f.Type())
				s.Fields[f.Name()] = nxt
			}
			cur = nxt
			t = f.Type()
		}
		return ctlNone
	case *ast.IndexExpr:
		base := ev.Eval(x.X, env)
		idx := ev.Eval(x.Index, env)
		switch b := base.(type) {
		case *Slice:
			i, ok := idx.(Int)
			if !ok || i.V < 0 || int(i.V) >= len(b.Elems) {
				return ev.abort(l, "store index not a constant in range")
			}
			b.Elems[i.V] = v
			return ctlNone
		case *Map:
			if _, bad := idx.(Unknown); bad {
				return ev.abort(l, "store key undetermined")
			}
			for _, e := range b.Entries {
				if Equal(e.K, idx) {
					e.V = v
					return ctlNone
				}
			}
			b.Entries = append(b.Entries, &MapEntry{K: idx, V: v, Pos: l.Pos()})
			return ctlNone
		}
		return ev.abort(l, "indexed store into undetermined table")
	case *ast.ParenExpr:
		return ev.assign(x.X, v, env, define)
	case *ast.StarExpr:
		return ev.abort(l, "store through pointer")
	}
	return ev.abort(l, "assignment target outside subset")
}

// evalStringsCall: strings.F(args…) for the side-effect-free functions below, when every argument is a determined
// string (or integer). The functions are evaluated by the standard library itself: they are total and depend on their
// arguments only.
func (ev *Evaluator) evalStringsCall(x *ast.CallExpr, env *Env) (Value, bool) {
	sel, ok := x.Fun.(*ast.SelectorExpr)
	if !ok {
		return nil, false
	}
	fn, ok := ev.Info.Uses[sel.Sel].(*types.Func)
	if !ok || fn.Pkg() == nil || fn.Pkg().Path() != "strings" || fn.Type().(*types.Signature).Recv() != nil {
		return nil, false
	}
	var ss []string
	for _, a := range x.Args {
		v, isStr := ev.Eval(a, env).(Str)
		if !isStr {
			return nil, false
		}
		ss = append(ss, v.V)
	}
	b := func(v bool) (Value, bool) { return Bool{v}, true }
	st := func(v string) (Value, bool) { return Str{v}, true }
	switch fn.Name() {
	case "TrimSpace":
		if len(ss) == 1 {
			return st(strings.TrimSpace(ss[0]))
		}
	case "ToLower":
		if len(ss) == 1 {
			return st(strings.ToLower(ss[0]))
		}
	case "ToUpper":
		if len(ss) == 1 {
			return st(strings.ToUpper(ss[0]))
		}
	}
	if len(ss) != 2 {
		return nil, false
	}
	switch fn.Name() {
	case "TrimLeft":
		return st(strings.TrimLeft(ss[0], ss[1]))
	case "TrimRight":
		return st(strings.TrimRight(ss[0], ss[1]))
	case "Trim":
		return st(strings.Trim(ss[0], ss[1]))
	case "TrimPrefix":
		return st(strings.TrimPrefix(ss[0], ss[1]))
	case "TrimSuffix":
		return st(strings.TrimSuffix(ss[0], ss[1]))
	case "HasPrefix":
		return b(strings.HasPrefix(ss[0], ss[1]))
	case "HasSuffix":
		return b(strings.HasSuffix(ss[0], ss[1]))
	case "EqualFold":
		return b(strings.EqualFold(ss[0], ss[1]))
	case "Contains":
		return b(strings.Contains(ss[0], ss[1]))
	case "Index":
		return Int{int64(strings.Index(ss[0], ss[1]))}, true
	case "Compare":
		return Int{int64(strings.Compare(ss[0], ss[1]))}, true
	}
	return nil, false
}

// evalModuleCall: pkg.F(args…) where pkg is another package of the module and F a plain function declared there.
func (ev *Evaluator) evalModuleCall(x *ast.CallExpr, env *Env) (Value, bool) {
	sel, ok := x.Fun.(*ast.SelectorExpr)
	if !ok {
		return nil, false
	}
	fn, ok := ev.Info.Uses[sel.Sel].(*types.Func)
	if !ok || fn.Pkg() == nil || fn.Pkg() == ev.Pkg.Types || fn.Type().(*types.Signature).Recv() != nil {
		return nil, false
	}
	pk := ModulePackages[fn.Pkg().Path()]
	if pk == nil {
		return nil, false
	}
	var fd *ast.FuncDecl
	for _, f := range pk.Syntax {
		for _, d := range f.Decls {
			if d2, ok := d.(*ast.FuncDecl); ok && d2.Recv == nil && d2.Name.Name == fn.Name() && d2.Body != nil {
				fd = d2
			}
		}
	}
	if fd == nil {
		return nil, false
	}
	if ev.others == nil {
		ev.others = map[string]*Evaluator{}
	}
	oe := ev.others[pk.PkgPath]
	if oe == nil {
		oe = NewEvaluator(pk)
		ev.others[pk.PkgPath] = oe
	}
	bind := map[string]Value{}
	i := 0
	for _, f := range fd.Type.Params.List {
		for _, n := range f.Names {
			if i < len(x.Args) {
				bind[n.Name] = ev.copyIfValueType(ev.Eval(x.Args[i], env), ev.Info.TypeOf(x.Args[i]))
			}
			i++
		}
		if len(f.Names) == 0 {
			i++
		}
	}
	if fd.Type.Params.NumFields() != len(x.Args) {
		return nil, false // variadic or tuple argument: not evaluated across packages
	}
	ev.depth++
	oe.depth = ev.depth
	oe.Steps = ev.Steps
	if ev.depth > 16 {
		ev.depth--
		return ev.unk(x, "call depth"), true
	}
	res, okc := oe.Call(fd, bind)
	ev.depth--
	ev.Steps = oe.Steps
	ev.Diag = append(ev.Diag, oe.Diag...)
	oe.Diag = nil
	if !okc {
		return ev.unk(x, "callee left the evaluable subset"), true
	}
	if len(res) == 1 {
		return res[0], true
	}
	return Tuple(res), true
}
