package tables

import (
	"fmt"
	"go/ast"
	"go/token"
	"go/types"
	"sort"
	"strings"

	"golang.org/x/tools/go/packages"

	"lwverif/internal/load"
)

// BandConfig is one evaluated configuration of band.GetConfig.
type BandConfig struct {
	Names       []string // band names that dispatch here
	Ctor        string
	Repeater    bool
	Dwell400    bool
	ExtraArgs   string  // rendered extra constructor arguments (AS923 offset / suffix)
	Value       *Struct // the concrete band struct (outer, e.g. eu863Band)
	Base        *Struct // embedded `band` struct
	TypeName    string  // eu863Band
	Diag        []string
	CtorDecl    *ast.FuncDecl
	Methods     map[string]*ast.FuncDecl // methods of the concrete type and promoted ones of band
	MethodOwner map[string]string
	owners      map[string]*Struct // embedding level (type name) -> its value
}

func (c *BandConfig) ID() string {
	n := strings.Join(c.Names, "/")
	return fmt.Sprintf("%s[rep=%v,dwell400=%v]", n, c.Repeater, c.Dwell400)
}

// Short is a stable short identifier (first canonical name).
func (c *BandConfig) Short() string {
	return fmt.Sprintf("%s[rep=%v,dwell400=%v]", c.Canon(), c.Repeater, c.Dwell400)
}

// Canon returns the common name (the one without underscore if available).
func (c *BandConfig) Canon() string {
	for _, n := range c.Names {
		if !strings.Contains(n, "_") {
			return n
		}
	}
	return c.Names[0]
}

type DataRate struct {
	Index            int
	Uplink, Downlink bool
	Modulation       string
	SF, BW, BitRate  int
	CodingRate       string
	OCW              int
	Pos              token.Pos
}

func (d DataRate) Params() string {
	return fmt.Sprintf("%s/sf%d/bw%d/br%d/cr%s/ocw%d", d.Modulation, d.SF, d.BW, d.BitRate, d.CodingRate, d.OCW)
}

type Channel struct {
	Freq            int
	MinDR, MaxDR    int
	Enabled, Custom bool
}

// DataRates decodes the dataRates map.
// DataRatesMap returns the data-rate table as (index, struct) entries, whether the band keeps it as a map or as a
// dense slice indexed by the data-rate (zero element = not defined).
func (c *BandConfig) DataRatesMap() (*Map, bool) {
	if m, ok := c.Base.Fields["dataRates"].(*Map); ok {
		return m, true
	}
	sl, ok := c.Base.Fields["dataRates"].(*Slice)
	if !ok {
		return nil, false
	}
	m := &Map{Pos: sl.Pos}
	for i, el := range sl.Elems {
		st, isSt := el.(*Struct)
		if !isSt {
			return nil, false
		}
		if isZeroValue(st) {
			continue
		}
		m.Entries = append(m.Entries, &MapEntry{K: Int{int64(i)}, V: st, Pos: sl.Pos})
	}
	return m, true
}

func (c *BandConfig) DataRates() ([]DataRate, error) {
	m, ok := c.Base.Fields["dataRates"].(*Map)
	if !ok {
		// a dense table indexed by the data-rate (a zero element = not defined) is the same information
		if sl, isSl := c.Base.Fields["dataRates"].(*Slice); isSl {
			m = &Map{Pos: sl.Pos}
			for i, el := range sl.Elems {
				st, isSt := el.(*Struct)
				if !isSt {
					return nil, fmt.Errorf("dataRates[%d] undetermined", i)
				}
				if isZeroValue(st) {
					continue
				}
				m.Entries = append(m.Entries, &MapEntry{K: Int{int64(i)}, V: st, Pos: sl.Pos})
			}
			ok = true
		}
	}
	if !ok {
		return nil, fmt.Errorf("dataRates is not a literal map: %s", Show(c.Base.Fields["dataRates"]))
	}
	var out []DataRate
	for _, e := range m.Entries {
		k, ok := e.K.(Int)
		s, ok2 := e.V.(*Struct)
		if !ok || !ok2 {
			return nil, fmt.Errorf("dataRates entry not constant")
		}
		d := DataRate{Index: int(k.V), Pos: e.Pos}
		var oks [8]bool
		d.Uplink, oks[0] = AsBool(s.Fields["uplink"])
		d.Downlink, oks[1] = AsBool(s.Fields["downlink"])
		d.Modulation, oks[2] = AsStr(s.Fields["Modulation"])
		d.SF, oks[3] = AsInt(s.Fields["SpreadFactor"])
		d.BW, oks[4] = AsInt(s.Fields["Bandwidth"])
		d.BitRate, oks[5] = AsInt(s.Fields["BitRate"])
		d.CodingRate, oks[6] = AsStr(s.Fields["CodingRate"])
		d.OCW, oks[7] = AsInt(s.Fields["OccupiedChannelWidth"])
		for _, o := range oks {
			if !o {
				return nil, fmt.Errorf("dataRates[%d] has a non-constant field", d.Index)
			}
		}
		out = append(out, d)
	}
	sort.Slice(out, func(i, j int) bool { return out[i].Index < out[j].Index })
	return out, nil
}

func (c *BandConfig) Channels(field string) ([]Channel, error) {
	s, ok := c.Base.Fields[field].(*Slice)
	if !ok {
		return nil, fmt.Errorf("%s is not a determined slice: %s", field, Show(c.Base.Fields[field]))
	}
	var out []Channel
	for i, e := range s.Elems {
		st, ok := e.(*Struct)
		if !ok {
			return nil, fmt.Errorf("%s[%d] undetermined", field, i)
		}
		var ch Channel
		var oks [5]bool
		ch.Freq, oks[0] = AsInt(st.Fields["Frequency"])
		ch.MinDR, oks[1] = AsInt(st.Fields["MinDR"])
		ch.MaxDR, oks[2] = AsInt(st.Fields["MaxDR"])
		ch.Enabled, oks[3] = AsBool(st.Fields["enabled"])
		ch.Custom, oks[4] = AsBool(st.Fields["custom"])
		for _, o := range oks {
			if !o {
				return nil, fmt.Errorf("%s[%d] has a non-constant field", field, i)
			}
		}
		out = append(out, ch)
	}
	return out, nil
}

// RX1Table decodes rx1DataRateTable: uplink DR -> row.
func (c *BandConfig) RX1Table() (map[int][]int, map[int]token.Pos, error) {
	m, ok := c.Base.Fields["rx1DataRateTable"].(*Map)
	if !ok {
		// rows indexed by the uplink data-rate (a nil or empty row = no entry); a nil table has no rows
		if _, isNil := c.Base.Fields["rx1DataRateTable"].(Nil); isNil {
			m, ok = &Map{}, true
		} else if sl, isSl := c.Base.Fields["rx1DataRateTable"].(*Slice); isSl {
			m = &Map{Pos: sl.Pos}
			for i, el := range sl.Elems {
				row, isRow := el.(*Slice)
				if _, isNil := el.(Nil); isNil || el == nil || (isRow && len(row.Elems) == 0) {
					continue
				}
				if !isRow {
					return nil, nil, fmt.Errorf("rx1 row %d undetermined", i)
				}
				m.Entries = append(m.Entries, &MapEntry{K: Int{int64(i)}, V: row, Pos: sl.Pos})
			}
			ok = true
		}
	}
	if !ok {
		return nil, nil, fmt.Errorf("rx1DataRateTable is not a literal map")
	}
	out := map[int][]int{}
	pos := map[int]token.Pos{}
	for _, e := range m.Entries {
		k, ok := e.K.(Int)
		s, ok2 := e.V.(*Slice)
		if !ok || !ok2 {
			return nil, nil, fmt.Errorf("rx1 row not constant")
		}
		var row []int
		for _, el := range s.Elems {
			i, ok := AsInt(el)
			if !ok {
				return nil, nil, fmt.Errorf("rx1 cell not constant")
			}
			row = append(row, i)
		}
		out[int(k.V)] = row
		pos[int(k.V)] = e.Pos
	}
	return out, pos, nil
}

type PayloadCell struct {
	Version, Revision string
	DR                int
	M, N              int
	Pos               token.Pos
}

func (c *BandConfig) PayloadCells() ([]PayloadCell, error) {
	m, ok := c.Base.Fields["maxPayloadSizePerDR"].(*Map)
	if !ok {
		return nil, fmt.Errorf("maxPayloadSizePerDR is not a literal map: %s", Show(c.Base.Fields["maxPayloadSizePerDR"]))
	}
	var out []PayloadCell
	for _, ve := range m.Entries {
		ver, ok := ve.K.(Str)
		rm, ok2 := ve.V.(*Map)
		if !ok || !ok2 {
			return nil, fmt.Errorf("payload version level not constant")
		}
		for _, re := range rm.Entries {
			rev, ok := re.K.(Str)
			dm, ok2 := re.V.(*Map)
			if !ok || !ok2 {
				return nil, fmt.Errorf("payload revision level not constant")
			}
			for _, de := range dm.Entries {
				dr, ok := de.K.(Int)
				st, ok2 := de.V.(*Struct)
				if !ok || !ok2 {
					return nil, fmt.Errorf("payload cell not constant")
				}
				M, ok3 := AsInt(st.Fields["M"])
				N, ok4 := AsInt(st.Fields["N"])
				if !ok3 || !ok4 {
					return nil, fmt.Errorf("payload cell value not constant")
				}
				out = append(out, PayloadCell{ver.V, rev.V, int(dr.V), M, N, de.Pos})
			}
		}
	}
	return out, nil
}

func (c *BandConfig) IntSlice(field string) ([]int, error) {
	s, ok := c.Base.Fields[field].(*Slice)
	if !ok {
		return nil, fmt.Errorf("%s is not a literal slice", field)
	}
	var out []int
	for _, e := range s.Elems {
		i, ok := AsInt(e)
		if !ok {
			return nil, fmt.Errorf("%s has a non-constant cell", field)
		}
		out = append(out, i)
	}
	return out, nil
}

// Bands evaluates band.GetConfig for every (case name × repeater × dwell) configuration.
type Bands struct {
	Ev        *Evaluator
	Prog      *load.Program
	Configs   []*BandConfig
	CaseNames []string // every name constant handled by GetConfig
	Problems  []string
}

func EvalBands(p *load.Program) (*Bands, error) {
	pk := p.Pkg("band")
	if pk == nil {
		return nil, fmt.Errorf("package band not found")
	}
	ModulePackages = p.Pkgs
	ev := NewEvaluator(pk)
	gc := load.FuncDecl(pk, "GetConfig")
	if gc == nil {
		return nil, fmt.Errorf("anchor band.GetConfig not found")
	}
	// locate `switch name { case …: return newX(args) }`
	var sw *ast.SwitchStmt
	for _, s := range gc.Body.List {
		if x, ok := s.(*ast.SwitchStmt); ok {
			sw = x
		}
	}
	if sw == nil {
		return evalBandsGeneric(p, ev, gc)
	}
	// the switch reader recognises `case …: return newX(args)`; any other way of writing the cases (a second result, an
	// options struct built first, an adapter) is handled by evaluating GetConfig itself
	b, err := evalBandsSwitch(p, ev, gc, sw)
	if err != nil {
		if g, gerr := evalBandsGeneric(p, NewEvaluator(pk), gc); gerr == nil {
			return g, nil
		}
		return nil, err
	}
	return b, nil
}

func evalBandsSwitch(p *load.Program, ev *Evaluator, gc *ast.FuncDecl, sw *ast.SwitchStmt) (*Bands, error) {
	pk := ev.Pkg
	params := gc.Type.Params.List
	if len(params) != 3 {
		return nil, fmt.Errorf("band.GetConfig: expected 3 parameters")
	}
	rcObj := pk.TypesInfo.Defs[params[1].Names[0]]
	dtObj := pk.TypesInfo.Defs[params[2].Names[0]]
	// DwellTime constants from the root package
	root := p.Pkg("")
	dtVal := func(name string) (Value, error) {
		c, ok := root.Types.Scope().Lookup(name).(*types.Const)
		if !ok {
			return nil, fmt.Errorf("lorawan.%s not found", name)
		}
		return constToValue(c.Val(), c.Type()), nil
	}
	dtNo, err := dtVal("DwellTimeNoLimit")
	if err != nil {
		return nil, err
	}
	dt400, err := dtVal("DwellTime400ms")
	if err != nil {
		return nil, err
	}
	b := &Bands{Ev: ev, Prog: p}
	for _, cc := range sw.Body.List {
		c := cc.(*ast.CaseClause)
		if c.List == nil {
			continue
		}
		var names []string
		for _, e := range c.List {
			s, ok := ev.Eval(e, NewEnv(nil)).(Str)
			if !ok {
				return nil, fmt.Errorf("GetConfig case expression is not a constant at %s", p.Rel(e.Pos()))
			}
			names = append(names, s.V)
		}
		b.CaseNames = append(b.CaseNames, names...)
		if len(c.Body) != 1 {
			return nil, fmt.Errorf("GetConfig case %v: body is not a single return", names)
		}
		ret, ok := c.Body[0].(*ast.ReturnStmt)
		if !ok || len(ret.Results) != 1 {
			return nil, fmt.Errorf("GetConfig case %v: body is not `return newX(...)`", names)
		}
		call, ok := ret.Results[0].(*ast.CallExpr)
		if !ok {
			return nil, fmt.Errorf("GetConfig case %v: result is not a call", names)
		}
		fid, ok := call.Fun.(*ast.Ident)
		if !ok {
			return nil, fmt.Errorf("GetConfig case %v: callee is not a plain function", names)
		}
		ctor := load.FuncDecl(pk, fid.Name)
		if ctor == nil {
			return nil, fmt.Errorf("constructor %s not found", fid.Name)
		}
		for _, rc := range []bool{false, true} {
			for _, d4 := range []bool{false, true} {
				env := NewEnv(nil)
				env.Bind(rcObj, Bool{rc})
				if d4 {
					env.Bind(dtObj, dt400)
				} else {
					env.Bind(dtObj, dtNo)
				}
				bind := map[string]Value{}
				var extra []string
				var pnames []string
				for _, f := range ctor.Type.Params.List {
					for _, n := range f.Names {
						pnames = append(pnames, n.Name)
					}
				}
				if len(pnames) != len(call.Args) {
					return nil, fmt.Errorf("constructor %s arity mismatch", fid.Name)
				}
				usesDT := false
				for i, a := range call.Args {
					v := ev.Eval(a, env)
					bind[pnames[i]] = v
					if id, ok := a.(*ast.Ident); ok {
						if pk.TypesInfo.Uses[id] == dtObj {
							usesDT = true
							continue
						}
						if pk.TypesInfo.Uses[id] == rcObj {
							continue
						}
					}
					extra = append(extra, Show(v))
				}
				if d4 && !usesDT {
					continue // configuration identical to the no-dwell one: constructor takes no dwell time
				}
				ev.Diag = nil
				ev.Steps = 0
				res, ok := ev.Call(ctor, bind)
				cfg := &BandConfig{Names: names, Ctor: fid.Name, Repeater: rc, Dwell400: d4, ExtraArgs: strings.Join(extra, ","), CtorDecl: ctor, Diag: ev.Diag}
				if !ok || len(res) < 1 {
					b.Problems = append(b.Problems, fmt.Sprintf("%s: constructor %s left the evaluable subset: %v", cfg.ID(), fid.Name, ev.Diag))
					continue
				}
				v := res[0]
				if pp, ok := v.(*Ptr); ok {
					v = pp.Elem
				}
				st, ok := v.(*Struct)
				if !ok {
					b.Problems = append(b.Problems, fmt.Sprintf("%s: constructor %s does not return a struct literal", cfg.ID(), fid.Name))
					continue
				}
				cfg.Value = st
				cfg.TypeName = st.Type
				chain := embeddedChain(st, 0)
				if chain == nil {
					b.Problems = append(b.Problems, fmt.Sprintf("%s: no embedded band struct", cfg.ID()))
					continue
				}
				cfg.Base = chain[len(chain)-1]
				cfg.bindMethods(pk, chain)
				b.Configs = append(b.Configs, cfg)
			}
		}
	}
	return b, nil
}

// embeddedChain: the chain of struct values from st down to the embedded `band` struct (st itself first): the outer type
// may embed band directly or through intermediate unexported types (us902Band{subBandPlan{band{…}}}).
func embeddedChain(st *Struct, depth int) []*Struct {
	if st.Type == "band" {
		return []*Struct{st}
	}
	if depth > 3 {
		return nil
	}
	if b, ok := st.Fields["band"].(*Struct); ok {
		return []*Struct{st, b}
	}
	for _, f := range st.Fields {
		inner, ok := f.(*Struct)
		if !ok || inner == st {
			continue
		}
		if ch := embeddedChain(inner, depth+1); ch != nil {
			return append([]*Struct{st}, ch...)
		}
	}
	return nil
}

// bindMethods collects the methods visible on the outer value: those of band first, then of each embedding level up to
// the outer type (an outer method shadows an inner one); MethodOwner names the type whose value is the receiver.
func (cfg *BandConfig) bindMethods(pk *packages.Package, chain []*Struct) {
	cfg.Methods = map[string]*ast.FuncDecl{}
	cfg.MethodOwner = map[string]string{}
	cfg.owners = map[string]*Struct{}
	for i := len(chain) - 1; i >= 0; i-- {
		lvl := chain[i]
		cfg.owners[lvl.Type] = lvl
		// other structs embedded at this level (a method set shared by several regions, embedded next to the band): their
		// methods are promoted like the band's; the level's own methods, bound below, shadow them
		if tn, ok := pk.Types.Scope().Lookup(lvl.Type).(*types.TypeName); ok {
			if stt, ok := tn.Type().Underlying().(*types.Struct); ok {
				for fi := 0; fi < stt.NumFields(); fi++ {
					f := stt.Field(fi)
					if !f.Embedded() {
						continue
					}
					ft := f.Type()
					if pt, isPtr := ft.Underlying().(*types.Pointer); isPtr {
						ft = pt.Elem()
					}
					nt, ok := ft.(*types.Named)
					if !ok || nt.Obj().Pkg() != pk.Types {
						continue
					}
					name := nt.Obj().Name()
					if i+1 < len(chain) && chain[i+1].Type == name {
						continue // the next level of the chain
					}
					if _, isStruct := nt.Underlying().(*types.Struct); !isStruct {
						continue
					}
					val, _ := lvl.Fields[f.Name()].(*Struct)
					if val == nil {
						val = &Struct{Type: name, Fields: map[string]Value{}}
					}
					cfg.owners[name] = val
					for _, fd := range load.AllFuncDecls(pk) {
						if fd.Recv == nil || load.RecvTypeName(fd.Recv.List[0].Type) != name {
							continue
						}
						cfg.Methods[fd.Name.Name] = fd
						cfg.MethodOwner[fd.Name.Name] = name
					}
				}
			}
		}
		for _, fd := range load.AllFuncDecls(pk) {
			if fd.Recv == nil || load.RecvTypeName(fd.Recv.List[0].Type) != lvl.Type {
				continue
			}
			cfg.Methods[fd.Name.Name] = fd
			cfg.MethodOwner[fd.Name.Name] = lvl.Type
		}
	}
}

// evalBandsGeneric: GetConfig is not a switch over constructor calls (a table of constructors, a chain of helpers …).
// The function itself is evaluated for every constant of type Name declared in the package, both repeater settings
// and both dwell times; names that yield equal bands in all four settings form one configuration (deprecated aliases),
// and the 400 ms configuration is listed only where it differs from the unlimited one.
func evalBandsGeneric(p *load.Program, ev *Evaluator, gc *ast.FuncDecl) (*Bands, error) {
	pk := ev.Pkg
	var pnames []string
	for _, f := range gc.Type.Params.List {
		for _, n := range f.Names {
			pnames = append(pnames, n.Name)
		}
	}
	if len(pnames) != 3 {
		return nil, fmt.Errorf("band.GetConfig: expected 3 named parameters")
	}
	root := p.Pkg("")
	dtVal := func(name string) (Value, error) {
		c, ok := root.Types.Scope().Lookup(name).(*types.Const)
		if !ok {
			return nil, fmt.Errorf("lorawan.%s not found", name)
		}
		return constToValue(c.Val(), c.Type()), nil
	}
	dtNo, err := dtVal("DwellTimeNoLimit")
	if err != nil {
		return nil, err
	}
	dt400, err := dtVal("DwellTime400ms")
	if err != nil {
		return nil, err
	}
	type nameConst struct {
		val string
		pos token.Pos
	}
	var names []nameConst
	seenVal := map[string]bool{}
	for _, n := range pk.Types.Scope().Names() {
		c, ok := pk.Types.Scope().Lookup(n).(*types.Const)
		if !ok {
			continue
		}
		nt, ok := c.Type().(*types.Named)
		if !ok || nt.Obj().Name() != "Name" || nt.Obj().Pkg() != pk.Types {
			continue
		}
		v, ok := constToValue(c.Val(), c.Type()).(Str)
		if !ok || seenVal[v.V] {
			continue
		}
		seenVal[v.V] = true
		names = append(names, nameConst{v.V, c.Pos()})
	}
	sort.Slice(names, func(i, j int) bool { return names[i].pos < names[j].pos })
	if len(names) == 0 {
		return nil, fmt.Errorf("band: no constants of type Name")
	}
	b := &Bands{Ev: ev, Prog: p}
	type evald struct {
		name string
		v    [2][2]*Struct // [rep][d4]
	}
	var evs []*evald
	for _, nc := range names {
		e := &evald{name: nc.val}
		okAll := true
		for ri, rc := range []bool{false, true} {
			for di, d4 := range []bool{false, true} {
				dt := dtNo
				if d4 {
					dt = dt400
				}
				ev.Diag = nil
				ev.Steps = 0
				res, ok := ev.Call(gc, map[string]Value{pnames[0]: Str{nc.val}, pnames[1]: Bool{rc}, pnames[2]: dt})
				if !ok || len(res) < 1 {
					b.Problems = append(b.Problems, fmt.Sprintf("%s[rep=%v,dwell400=%v]: GetConfig left the evaluable subset: %v", nc.val, rc, d4, ev.Diag))
					okAll = false
					continue
				}
				v := res[0]
				if tp, ok := v.(Tuple); ok && len(tp) > 0 {
					v = tp[0] // `return ctor(args)` hands the constructor's results through
				}
				if pp, ok := v.(*Ptr); ok {
					v = pp.Elem
				}
				st, ok := v.(*Struct)
				if !ok {
					if _, isNil := v.(Nil); isNil {
						okAll = false // a name GetConfig does not know (an error result): not a configuration
						continue
					}
					b.Problems = append(b.Problems, fmt.Sprintf("%s[rep=%v,dwell400=%v]: GetConfig does not return a band struct: %s", nc.val, rc, d4, Show(v)))
					okAll = false
					continue
				}
				e.v[ri][di] = st
			}
		}
		if okAll {
			evs = append(evs, e)
		}
	}
	used := make([]bool, len(evs))
	for i, e := range evs {
		if used[i] {
			continue
		}
		group := []string{e.name}
		for j := i + 1; j < len(evs); j++ {
			if used[j] {
				continue
			}
			same := true
			for ri := 0; ri < 2 && same; ri++ {
				for di := 0; di < 2 && same; di++ {
					same = DeepEqual(e.v[ri][di], evs[j].v[ri][di])
				}
			}
			if same {
				used[j] = true
				group = append(group, evs[j].name)
			}
		}
		// deprecated aliases (with underscores) first, as in a `case EU_863_870, EU868:` clause
		sort.SliceStable(group, func(x, y int) bool {
			return strings.Contains(group[x], "_") && !strings.Contains(group[y], "_")
		})
		b.CaseNames = append(b.CaseNames, group...)
		for ri, rc := range []bool{false, true} {
			for di, d4 := range []bool{false, true} {
				st := e.v[ri][di]
				if d4 && DeepEqual(st, e.v[ri][0]) {
					continue // no dwell-time dependence
				}
				cfg := &BandConfig{Names: group, Ctor: "GetConfig", Repeater: rc, Dwell400: d4, CtorDecl: gc, Value: st, TypeName: st.Type}
				chain := embeddedChain(st, 0)
				if chain == nil {
					b.Problems = append(b.Problems, fmt.Sprintf("%s: no embedded band struct", cfg.ID()))
					continue
				}
				cfg.Base = chain[len(chain)-1]
				cfg.bindMethods(pk, chain)
				b.Configs = append(b.Configs, cfg)
			}
		}
	}
	if len(b.Configs) == 0 {
		return nil, fmt.Errorf("band.GetConfig: no configuration could be evaluated: %v", b.Problems)
	}
	return b, nil
}

// EvalMethod evaluates a method of the configuration's concrete type with the receiver bound to the
// evaluated struct and the remaining parameters symbolic.
func (b *Bands) EvalMethod(c *BandConfig, name string, extra map[string]Value) ([]Value, *ast.FuncDecl, bool) {
	fd := c.Methods[name]
	if fd == nil {
		return nil, nil, false
	}
	bind := map[string]Value{}
	for k, v := range extra {
		bind[k] = DeepCopy(v) // arguments are passed by value: the callee must not be able to change the caller's table
	}
	if fd.Recv != nil && len(fd.Recv.List[0].Names) == 1 {
		var recv Value = &Ptr{c.Value}
		if c.MethodOwner[name] == "band" {
			recv = &Ptr{c.Base}
		} else if o := c.owners[c.MethodOwner[name]]; o != nil {
			recv = &Ptr{o}
		}
		bind[fd.Recv.List[0].Names[0].Name] = recv
	}
	b.Ev.Diag = nil
	b.Ev.Steps = 0
	res, ok := b.Ev.Call(fd, bind)
	return res, fd, ok
}
