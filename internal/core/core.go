// Package core holds the obligation/report model shared by every engine and the
// driver logic (known findings, evidence, replays, exit codes).
package core

import (
	"crypto/sha256"
	"encoding/hex"
	"encoding/json"
	"fmt"
	"os"
	"path/filepath"
	"sort"
	"strings"
	"time"
)

// Status of one obligation.
type Status int

const (
	Discharged Status = iota // rule holds for this construct
	Violated                 // rule refuted: names a construct of /repo
	Undecided                // machinery cannot decide (outside subset, anchor missing)
)

func (s Status) String() string {
	switch s {
	case Discharged:
		return "discharged"
	case Violated:
		return "VIOLATED"
	}
	return "UNDECIDED"
}

// Obligation is one instance of one rule on one construct.
type Obligation struct {
	Rule       string `json:"rule"`           // e.g. C13-R3.M=N+8
	Key        string `json:"key"`            // stable: rule|construct (no line numbers)
	Pos        string `json:"pos,omitempty"`  // file:line (diagnostic only)
	Want       string `json:"want,omitempty"` // what the rule requires
	Got        string `json:"got,omitempty"`  // what the code shows / discharging fact
	Status     Status `json:"-"`
	StatusText string `json:"status"`
	Nontrivial bool   `json:"nontrivial,omitempty"` // operand depends on a symbol / non-default cell
	Known      bool   `json:"known,omitempty"`
}

// Run is the result of checking one property.
type Run struct {
	Prop        string
	Tier        string
	Obls        []*Obligation
	Analysed    map[string][]string // category -> items (functions, tables, call sites …)
	RuleDocs    map[string]string   // rule -> one-line statement of the rule
	Notes       []string
	Assumptions []string
	Trusted     []string
	Explanation string
	Exhaustive  bool
	Start       time.Time
	seen        map[string]int
	advisory    map[string][]string // shape rule -> the exact rules that decide the same clause
}

func NewRun(prop, tier string) *Run {
	return &Run{Prop: prop, Tier: tier, Analysed: map[string][]string{}, RuleDocs: map[string]string{}, Start: time.Now(), seen: map[string]int{}}
}

// Advisory marks a shape rule whose clause is decided exactly by other rules of the same run. Where those rules
// decided everything (no undecided obligation), an "unrecognised shape" outcome of the advisory rule carries no
// information and is turned into a note; its refutations still count. The advisory rule is exempt from the minimum
// instance count in that case (a rewritten but correct function has fewer recognisable shapes).
func (r *Run) Advisory(rule string, backedBy ...string) {
	if r.advisory == nil {
		r.advisory = map[string][]string{}
	}
	r.advisory[rule] = backedBy
}

// backed reports whether every backing rule of an advisory rule has obligations and none undecided.
func (r *Run) backed(rule string) bool {
	bs, ok := r.advisory[rule]
	if !ok || len(bs) == 0 {
		return false
	}
	for _, b := range bs {
		n := 0
		for _, o := range r.Obls {
			if o.Rule == r.Prop+"-"+b {
				n++
				if o.Status == Undecided {
					return false
				}
			}
		}
		if n == 0 {
			return false
		}
	}
	return true
}

// Rule registers the one-line description of a rule.
func (r *Run) Rule(rule, doc string) { r.RuleDocs[rule] = doc }

func (r *Run) add(o *Obligation) *Obligation {
	if !strings.HasPrefix(o.Rule, r.Prop) {
		o.Rule = r.Prop + "-" + o.Rule
	}
	k := o.Rule + "|" + o.Key
	// keys must be unique; a duplicate construct gets a stable ordinal suffix
	n := r.seen[k]
	r.seen[k] = n + 1
	if n > 0 {
		k = fmt.Sprintf("%s#%d", k, n+1)
	}
	o.Key = k
	o.StatusText = o.Status.String()
	r.Obls = append(r.Obls, o)
	return o
}

// OK records a discharged obligation.
func (r *Run) OK(rule, key, pos, want, got string, nontrivial bool) {
	r.add(&Obligation{Rule: rule, Key: key, Pos: pos, Want: want, Got: got, Status: Discharged, Nontrivial: nontrivial})
}

// Bad records a violated obligation.
func (r *Run) Bad(rule, key, pos, want, got string) {
	r.add(&Obligation{Rule: rule, Key: key, Pos: pos, Want: want, Got: got, Status: Violated, Nontrivial: true})
}

// Unknown records an undecided obligation.
func (r *Run) Unknown(rule, key, pos, want, got string) {
	r.add(&Obligation{Rule: rule, Key: key, Pos: pos, Want: want, Got: got, Status: Undecided, Nontrivial: true})
}

// Check is a convenience: OK if cond else Bad.
func (r *Run) Check(cond bool, rule, key, pos, want, got string, nontrivial bool) bool {
	if cond {
		r.OK(rule, key, pos, want, got, nontrivial)
	} else {
		r.Bad(rule, key, pos, want, got)
	}
	return cond
}

func (r *Run) Saw(cat, item string) { r.Analysed[cat] = append(r.Analysed[cat], item) }
func (r *Run) Note(f string, a ...interface{}) {
	r.Notes = append(r.Notes, fmt.Sprintf(f, a...))
}

// Count returns the number of obligations of a rule (prefix match on rule id).
func (r *Run) Count(rulePrefix string) int {
	n := 0
	for _, o := range r.Obls {
		if strings.HasPrefix(o.Rule, rulePrefix) {
			n++
		}
	}
	return n
}

// ---------------------------------------------------------------------------
// known findings

type Finding struct {
	Kind string // "known" or "fixed"
	Prop string
	Key  string // for known: key=<obligation key>
	Text string
}

// LoadFindings parses known_findings.txt. Lines:
//
//	known: property=<id> key=<obligation key> :: <what fails>
//	fixed: property=<id> <commit> <what failed>
func LoadFindings(path string) ([]Finding, error) {
	b, err := os.ReadFile(path)
	if err != nil {
		if os.IsNotExist(err) {
			return nil, nil
		}
		return nil, err
	}
	var out []Finding
	for _, ln := range strings.Split(string(b), "\n") {
		ln = strings.TrimSpace(ln)
		if ln == "" || strings.HasPrefix(ln, "#") {
			continue
		}
		switch {
		case strings.HasPrefix(ln, "known:"):
			rest := strings.TrimSpace(strings.TrimPrefix(ln, "known:"))
			f := Finding{Kind: "known"}
			parts := strings.SplitN(rest, " :: ", 2)
			if len(parts) == 2 {
				f.Text = parts[1]
			}
			for _, tok := range strings.SplitN(parts[0], " ", 2) {
				tok = strings.TrimSpace(tok)
				if strings.HasPrefix(tok, "property=") {
					f.Prop = strings.TrimPrefix(tok, "property=")
				} else if strings.HasPrefix(tok, "key=") {
					f.Key = strings.TrimPrefix(tok, "key=")
				}
			}
			if f.Prop == "" || f.Key == "" {
				return nil, fmt.Errorf("known_findings: malformed line %q", ln)
			}
			out = append(out, f)
		case strings.HasPrefix(ln, "fixed:"):
			out = append(out, Finding{Kind: "fixed", Text: strings.TrimSpace(strings.TrimPrefix(ln, "fixed:"))})
		default:
			return nil, fmt.Errorf("known_findings: malformed line %q", ln)
		}
	}
	return out, nil
}

// ---------------------------------------------------------------------------
// finishing a run

type Expect struct {
	MinCounts map[string]int `json:"min_counts"` // rule prefix -> minimal number of obligations
}

// Finish applies known findings, checks minimum instance counts, writes evidence and replays,
// prints the report and returns the process exit code.
func (r *Run) Finish(verifDir string, findings []Finding, expect map[string]int, srcInfo map[string]string) int {
	known := map[string]Finding{}
	for _, f := range findings {
		if f.Kind == "known" && f.Prop == r.Prop {
			known[f.Key] = f
		}
	}
	// advisory shape rules: drop their undecided outcomes where the exact rules decided the clause
	exempt := map[string]bool{}
	for rule := range r.advisory {
		if !r.backed(rule) {
			continue
		}
		exempt[r.Prop+"-"+rule] = true
		var keep []*Obligation
		dropped := 0
		for _, o := range r.Obls {
			if o.Rule == r.Prop+"-"+rule && o.Status == Undecided {
				dropped++
				continue
			}
			keep = append(keep, o)
		}
		if dropped > 0 {
			r.Obls = keep
			r.Note("advisory rule %s: %d unrecognised shapes not counted (the clause is decided by %s)", rule, dropped, strings.Join(r.advisory[rule], ", "))
		}
	}
	sort.SliceStable(r.Obls, func(i, j int) bool { return r.Obls[i].Key < r.Obls[j].Key })
	var viol, und, kn []*Obligation
	usedKnown := map[string]bool{}
	disc, nontriv := 0, 0
	perRule := map[string][3]int{}
	for _, o := range r.Obls {
		c := perRule[o.Rule]
		switch o.Status {
		case Discharged:
			disc++
			c[0]++
		case Violated:
			if _, ok := known[o.Key]; ok {
				o.Known = true
				usedKnown[o.Key] = true
				kn = append(kn, o)
				c[1]++
			} else {
				viol = append(viol, o)
				c[1]++
			}
		case Undecided:
			und = append(und, o)
			c[2]++
		}
		if o.Nontrivial {
			nontriv++
		}
		perRule[o.Rule] = c
	}
	// vacuity guard
	var vac []string
	for rule, min := range expect {
		if !strings.HasPrefix(rule, r.Prop) {
			continue
		}
		if exempt[rule] {
			continue
		}
		if n := r.Count(rule); n < min {
			vac = append(vac, fmt.Sprintf("rule %s matched %d instances, hand-confirmed minimum is %d", rule, n, min))
		}
	}
	sort.Strings(vac)

	fmt.Printf("== property %s tier=%s: %d obligations, %d discharged, %d known findings, %d violations, %d undecided\n",
		r.Prop, r.Tier, len(r.Obls), disc, len(kn), len(viol), len(und))
	rules := make([]string, 0, len(perRule))
	for k := range perRule {
		rules = append(rules, k)
	}
	sort.Strings(rules)
	for _, k := range rules {
		c := perRule[k]
		fmt.Printf("   rule %-34s ok=%-5d bad=%-3d undecided=%-3d %s\n", k, c[0], c[1], c[2], r.RuleDocs[strings.TrimPrefix(k, r.Prop+"-")])
	}
	cats := make([]string, 0, len(r.Analysed))
	for k := range r.Analysed {
		cats = append(cats, k)
	}
	sort.Strings(cats)
	for _, k := range cats {
		fmt.Printf("   analysed %s: %d\n", k, len(r.Analysed[k]))
	}
	for _, n := range r.Notes {
		fmt.Printf("   note: %s\n", n)
	}
	for _, o := range kn {
		fmt.Printf("KNOWN-FINDING: property=%s key=%s at %s :: want %s; got %s\n", r.Prop, o.Key, o.Pos, o.Want, o.Got)
	}
	// a listed finding that no longer reproduces is only reported (it suppresses nothing)
	for k := range known {
		if !usedKnown[k] {
			fmt.Printf("   note: listed finding no longer reproduces: %s\n", k)
		}
	}
	for _, o := range und {
		fmt.Printf("UNDECIDED rule=%s key=%s at %s :: want %s; got %s\n", o.Rule, o.Key, o.Pos, o.Want, o.Got)
	}
	for _, v := range vac {
		fmt.Printf("VACUOUS %s\n", v)
	}
	exit := 0
	// a scratch variant of the repository (LW_REPO: seeds, benign refactorings) keeps its evidence and replays inside
	// the variant: /verif/evidence only ever describes /repo itself
	if d := os.Getenv("LW_REPO"); d != "" && filepath.Clean(d) != "/repo" {
		verifDir = filepath.Join(d, ".lwverif")
	}
	os.MkdirAll(filepath.Join(verifDir, "replays"), 0o755)
	for _, o := range viol {
		h := sha256.Sum256([]byte(o.Key))
		rp := filepath.Join(verifDir, "replays", fmt.Sprintf("%s-%s.json", r.Prop, hex.EncodeToString(h[:6])))
		rb, _ := json.MarshalIndent(map[string]interface{}{"property": r.Prop, "rule": o.Rule, "key": o.Key, "pos": o.Pos, "want": o.Want, "got": o.Got}, "", " ")
		os.WriteFile(rp, rb, 0o644)
		fmt.Printf("   violation rule=%s key=%s at %s\n      want: %s\n      got:  %s\n", o.Rule, o.Key, o.Pos, o.Want, o.Got)
		fmt.Printf("VIOLATION property=%s replay=%s\n", r.Prop, rp)
		exit = 1
	}
	if exit == 0 && (len(und) > 0 || len(vac) > 0) {
		exit = 2
	}

	// evidence
	samples := []interface{}{}
	pick := func(o *Obligation) { samples = append(samples, o) }
	for _, o := range viol {
		if len(samples) < 10 {
			pick(o)
		}
	}
	for _, o := range kn {
		if len(samples) < 20 {
			pick(o)
		}
	}
	seenRule := map[string]int{}
	for _, o := range r.Obls {
		if o.Status == Discharged && o.Nontrivial && seenRule[o.Rule] < 2 && len(samples) < 60 {
			seenRule[o.Rule]++
			pick(o)
		}
	}
	if len(samples) == 0 && len(r.Obls) > 0 {
		pick(r.Obls[0])
	}
	pr := map[string]interface{}{}
	for _, k := range rules {
		c := perRule[k]
		pr[k] = map[string]interface{}{"discharged": c[0], "violated_or_known": c[1], "undecided": c[2], "rule": r.RuleDocs[strings.TrimPrefix(k, r.Prop+"-")]}
	}
	analysed := map[string]interface{}{}
	for _, k := range cats {
		items := r.Analysed[k]
		m := map[string]interface{}{"count": len(items)}
		if len(items) <= 400 {
			m["items"] = items
		} else {
			m["items_head"] = items[:400]
		}
		analysed[k] = m
	}
	if r.Assumptions == nil {
		r.Assumptions = []string{"the Go toolchain's type checker and go/ssa construction are correct"}
	}
	if r.Trusted == nil {
		r.Trusted = []string{"go/packages, go/types, go/ssa"}
	}
	seed := 0
	fmt.Sscan(os.Getenv("VERIF_SEED"), &seed)
	cov := map[string]interface{}{
		"obligations":         len(r.Obls),
		"discharged":          disc,
		"known_findings":      len(kn),
		"undecided":           len(und),
		"evaluations":         len(r.Obls),
		"distinct_nontrivial": nontriv,
		"rule":                "one evaluation = one (rule, construct) obligation decided on /repo's current source; keys are unique by construction; non-trivial = the obligation's operand depends on a program symbol (input byte, length, parameter, field) or the cell deviates from a default, as flagged by the rule that emitted it",
		"samples":             samples,
		"per_rule":            pr,
		"analysed":            analysed,
		"checker_cmd":         fmt.Sprintf("./scripts/check %s %s", r.Prop, r.Tier),
		"trusted_base":        r.Trusted,
		"explanation":         r.Explanation,
		"exhaustive":          r.Exhaustive,
		"notes":               r.Notes,
		"source":              srcInfo,
	}
	ev := map[string]interface{}{
		"property_id": r.Prop,
		"tier":        r.Tier,
		"seed":        seed,
		"level":       "other",
		"coverage":    cov,
		"assumptions": r.Assumptions,
		"wall_s":      time.Since(r.Start).Seconds(),
		"violations":  len(viol),
	}
	eb, _ := json.MarshalIndent(ev, "", " ")
	os.MkdirAll(filepath.Join(verifDir, "evidence"), 0o755)
	if err := os.WriteFile(filepath.Join(verifDir, "evidence", r.Prop+".json"), eb, 0o644); err != nil {
		fmt.Println("cannot write evidence:", err)
		if exit == 0 {
			exit = 2
		}
	}
	fmt.Printf("== %s exit=%d wall=%.1fs\n", r.Prop, exit, time.Since(r.Start).Seconds())
	return exit
}
