// Package flow is engine E5: call-site / literal provenance, error discipline, task pipelines and
// sibling agreement, decided on go/ssa (with a little typed AST for literal task lists).
//
// The central notion is the *term* of an SSA value: a canonical symbolic expression over the function's
// parameters ($0, $1 … — the receiver is $0), field selections, constants, globals and calls, obtained by
// walking SSA def chains. Loads from memory are resolved by a small flow-sensitive reaching-store analysis on the
// base object (local/new allocation, pointer parameter, other pointer value): the last store that dominates
// the load, provided no other overlapping store or call receiving the address can execute in between.
// Anything else is an explicit `unknown(...)` term; rules built on terms turn unknown into Undecided, never
// into a verdict.
package flow

import (
	"fmt"
	"go/constant"
	"go/token"
	"go/types"
	"sort"
	"strings"

	"golang.org/x/tools/go/ssa"
)

// Term is a canonical symbolic expression.
type Term struct {
	Op   string // param field const zero global func call extract ite bin un conv slice index assert alloc opaque unknown phi loop closure
	Val  string
	Args []*Term
	Type types.Type
	Src  ssa.Value // originating value (diagnostics)
	str  string
}

func mk(op, val string, args ...*Term) *Term { return &Term{Op: op, Val: val, Args: args} }

// Unknown builds an unknown term with a reason.
func Unknown(reason string) *Term { return mk("unknown", reason) }

// IsUnknown reports whether the term (or a sub-term) is undecided.
func (t *Term) IsUnknown() bool {
	if t == nil {
		return true
	}
	if t.Op == "unknown" {
		return true
	}
	for _, a := range t.Args {
		if a.IsUnknown() {
			return true
		}
	}
	return false
}

// Has reports whether a sub-term satisfies pred.
func (t *Term) Has(pred func(*Term) bool) bool {
	if t == nil {
		return false
	}
	if pred(t) {
		return true
	}
	for _, a := range t.Args {
		if a.Has(pred) {
			return true
		}
	}
	return false
}

// Pure reports whether the term is a function of the inputs only: parameters, fields, constants, globals,
// conversions, operators, dereferences and checked type assertions (no call result, no memory that a
// call may have changed).
func (t *Term) Pure() bool {
	if t == nil {
		return false
	}
	switch t.Op {
	case "call", "opaque", "unknown", "phi", "loop", "alloc", "closure", "dyn", "after", "copyof", "makeslice", "makemap":
		return false
	case "extract":
		if len(t.Args) == 1 && t.Args[0].Op == "assert" {
			return t.Args[0].Pure()
		}
		return false
	}
	for _, a := range t.Args {
		if !a.Pure() {
			return false
		}
	}
	return true
}

// Leaves lists the parameter/field/global paths a term mentions (as strings).
func (t *Term) Leaves() map[string]bool {
	out := map[string]bool{}
	var walk func(x *Term)
	walk = func(x *Term) {
		if x == nil {
			return
		}
		switch x.Op {
		case "param", "global":
			out[x.String()] = true
			return
		case "field":
			// a field path rooted at a param/global/extract counts as one leaf
			out[x.String()] = true
			return
		}
		for _, a := range x.Args {
			walk(a)
		}
	}
	walk(t)
	return out
}

func (t *Term) String() string {
	if t == nil {
		return "<nil>"
	}
	if t.str != "" {
		return t.str
	}
	var s string
	switch t.Op {
	case "param":
		s = "$" + t.Val
	case "field":
		s = t.Args[0].String() + "." + t.Val
	case "const":
		s = t.Val
	case "zero":
		s = "zero"
	case "global":
		s = "global(" + t.Val + ")"
	case "func":
		s = "func(" + t.Val + ")"
	case "call":
		s = t.Val + "(" + joinTerms(t.Args) + ")"
	case "extract":
		s = t.Args[0].String() + "#" + t.Val
	case "ite":
		s = "ite(" + joinTerms(t.Args) + ")"
	case "bin":
		s = "(" + t.Args[0].String() + " " + t.Val + " " + t.Args[1].String() + ")"
	case "un":
		s = t.Val + t.Args[0].String()
	case "conv":
		s = "conv<" + t.Val + ">(" + t.Args[0].String() + ")"
	case "slice":
		s = t.Args[0].String() + "[" + t.Args[1].String() + ":" + t.Args[2].String() + "]"
	case "index":
		s = t.Args[0].String() + "[" + t.Args[1].String() + "]"
	case "assert":
		s = t.Args[0].String() + ".(" + t.Val + ")"
	default:
		s = t.Op + "(" + t.Val
		if len(t.Args) > 0 {
			if t.Val != "" {
				s += ";"
			}
			s += joinTerms(t.Args)
		}
		s += ")"
	}
	t.str = s
	return s
}

func joinTerms(ts []*Term) string {
	ss := make([]string, len(ts))
	for i, a := range ts {
		ss[i] = a.String()
	}
	return strings.Join(ss, ", ")
}

// Equal compares canonical forms.
func (t *Term) Equal(u *Term) bool {
	if t.String() == u.String() {
		return true
	}
	return StripFullSlice(t).String() == StripFullSlice(u).String()
}

// SelectRecFields reduces field selections on record terms: rec(fld(f;v),…).f = v (a helper that returns a struct
// literal, inlined into a caller that selects one field of the result).
func SelectRecFields(t *Term) *Term {
	if t == nil || len(t.Args) == 0 {
		return t
	}
	n := &Term{Op: t.Op, Val: t.Val, Type: t.Type, Src: t.Src}
	for _, a := range t.Args {
		n.Args = append(n.Args, SelectRecFields(a))
	}
	if n.Op == "field" && len(n.Args) == 1 && n.Args[0].Op == "addr" && len(n.Args[0].Args) == 1 && n.Args[0].Args[0].Op == "rec" {
		// (&T{f: v}).f
		n = &Term{Op: n.Op, Val: n.Val, Type: n.Type, Src: n.Src, Args: []*Term{n.Args[0].Args[0]}}
	}
	if n.Op == "field" && len(n.Args) == 1 && n.Args[0].Op == "rec" {
		for _, f := range n.Args[0].Args {
			if f.Op == "fld" && f.Val == n.Val && len(f.Args) == 1 {
				return f.Args[0]
			}
		}
		return mk("zero", "") // a record term lists the non-zero fields only
	}
	return n
}

// StripFullSlice rewrites x[:] to x everywhere in t. A full slice expression denotes the same elements as its operand;
// where operand and result types differ (array vs slice) only one of the two forms type-checks in a given context, so
// treating them as equal cannot equate two programs that both compile and behave differently.
func StripFullSlice(t *Term) *Term {
	if t == nil {
		return nil
	}
	if t.Op == "slice" && len(t.Args) == 3 && t.Args[1].Op == "const" && t.Args[1].Val == "" && t.Args[2].Op == "const" && t.Args[2].Val == "" {
		return StripFullSlice(t.Args[0])
	}
	if len(t.Args) == 0 {
		return t
	}
	n := &Term{Op: t.Op, Val: t.Val, Type: t.Type, Src: t.Src}
	for _, a := range t.Args {
		n.Args = append(n.Args, StripFullSlice(a))
	}
	return n
}

// Field builds t.f1.f2…
func (t *Term) Field(path ...string) *Term {
	for _, f := range path {
		if t.Op == "addr" && len(t.Args) == 1 && t.Args[0].Op == "rec" {
			t = t.Args[0]
		}
		if t.Op == "rec" {
			sel := (*Term)(nil)
			for _, fl := range t.Args {
				if fl.Op == "fld" && fl.Val == f && len(fl.Args) == 1 {
					sel = fl.Args[0]
				}
			}
			if sel != nil {
				t = sel
				continue
			}
			t = mk("zero", "") // a record term lists the non-zero fields only
			continue
		}
		t = mk("field", f, t)
	}
	return t
}

// Param builds $i.path.
func Param(i int, path ...string) *Term { return mk("param", fmt.Sprint(i)).Field(path...) }

// ConstString builds the term of a string constant.
func ConstString(s string) *Term { return mk("const", fmt.Sprintf("%q", s)) }

// ConstInt builds the term of an integer constant.
func ConstInt(k int64) *Term { return mk("const", fmt.Sprint(k)) }

// ConstBool builds true/false.
func ConstBool(b bool) *Term { return mk("const", fmt.Sprint(b)) }

// Nil is the nil constant.
func Nil() *Term { return mk("const", "nil") }

// Global builds global(pkg.Name).
func Global(name string) *Term { return mk("global", name) }

// Subst returns t with every occurrence of sub-terms equal to `from` replaced by `to`.
func (t *Term) Subst(from, to *Term) *Term {
	if t.Equal(from) {
		return to
	}
	if len(t.Args) == 0 {
		return t
	}
	n := &Term{Op: t.Op, Val: t.Val, Type: t.Type, Src: t.Src}
	changed := false
	for _, a := range t.Args {
		b := a.Subst(from, to)
		if b != a {
			changed = true
		}
		n.Args = append(n.Args, b)
	}
	if !changed {
		return t
	}
	return n
}

// Specialise simplifies ite(c,a,b) nodes under the assumption that the boolean term cond has value val.
func (t *Term) Specialise(cond *Term, val bool) *Term {
	if t == nil {
		return t
	}
	if t.Op == "ite" {
		c := t.Args[0]
		neg := false
		for c.Op == "un" && c.Val == "!" {
			c = c.Args[0]
			neg = !neg
		}
		if c.Equal(cond) || (c.Op == "bin" && (c.Val == "==" || c.Val == "!=") && cond.Op == "bin" && cond.Val == c.Val && len(c.Args) == 2 && len(cond.Args) == 2 && c.Args[0].Equal(cond.Args[1]) && c.Args[1].Equal(cond.Args[0])) {
			if val != neg {
				return t.Args[1].Specialise(cond, val)
			}
			return t.Args[2].Specialise(cond, val)
		}
	}
	if len(t.Args) == 0 {
		return t
	}
	n := &Term{Op: t.Op, Val: t.Val, Type: t.Type, Src: t.Src}
	for _, a := range t.Args {
		n.Args = append(n.Args, a.Specialise(cond, val))
	}
	if n.Op == "ite" && n.Args[1].Equal(n.Args[2]) {
		return n.Args[1]
	}
	return n
}

// ShortPkg shortens import paths of the analysed module for display and canonical names.
func ShortPkg(s string) string {
	s = strings.ReplaceAll(s, "github.com/brocaar/lorawan", "lorawan")
	s = strings.ReplaceAll(s, "github.com/NickBall/go-aes-key-wrap", "keywrap")
	s = strings.ReplaceAll(s, "github.com/pkg/errors", "pkgerrors")
	s = strings.ReplaceAll(s, "github.com/jacobsa/crypto/cmac", "cmac")
	return s
}

func typeStr(t types.Type) string {
	return ShortPkg(types.TypeString(t, func(p *types.Package) string { return p.Path() }))
}

// FuncName renders a function canonically: pkg.Func, (pkg.T).M, (*pkg.T).M.
func FuncName(fn *ssa.Function) string {
	if fn == nil {
		return "?"
	}
	if o, ok := fn.Object().(*types.Func); ok && o != nil {
		return ShortPkg(o.FullName())
	}
	return ShortPkg(fn.String())
}

// CalleeName names the callee of a call instruction: a static function/method, a builtin, an interface
// method ("invoke Iface.M") or "dyn" for calls through function values.
func CalleeName(c *ssa.CallCommon) string {
	if c.IsInvoke() {
		return "invoke " + typeStr(c.Value.Type()) + "." + c.Method.Name()
	}
	switch f := c.Value.(type) {
	case *ssa.Function:
		return FuncName(f)
	case *ssa.Builtin:
		return f.Name()
	case *ssa.MakeClosure:
		if fn, ok := f.Fn.(*ssa.Function); ok {
			return FuncName(fn)
		}
	}
	return "dyn"
}

// ---------------------------------------------------------------------------

// event is a write (or possible write) to memory designated by base.path.
type event struct {
	instr ssa.Instruction
	path  []string
	kind  string    // store | clobber | copy | escape
	val   ssa.Value // stored value (store) or source (copy)
	who   string    // callee for clobber
}

// Eval evaluates SSA values of one function to terms.
type Eval struct {
	Fn *ssa.Function
	// TransparentConv makes conversions between types with identical underlying types (named
	// conversions, changetype) invisible; numeric conversions stay visible as conv<T>.
	events map[ssa.Value][]event
	reach  map[*ssa.BasicBlock]map[*ssa.BasicBlock]bool
	memo   map[ssa.Value]*Term
	busy   map[ssa.Value]bool
	idx    map[ssa.Instruction]int
	pidx   map[*ssa.Parameter]int
	depth  int
	// errAtoms: "error of this helper call == nil" atom -> the call (Strengthen)
	errAtoms map[string]*ssa.Call
}

var evalCache = map[*ssa.Function]*Eval{}

// For returns the (cached) evaluator of fn.
func For(fn *ssa.Function) *Eval {
	if e, ok := evalCache[fn]; ok {
		return e
	}
	e := &Eval{Fn: fn, events: map[ssa.Value][]event{}, memo: map[ssa.Value]*Term{}, busy: map[ssa.Value]bool{}, idx: map[ssa.Instruction]int{}, pidx: map[*ssa.Parameter]int{}}
	for i, p := range fn.Params {
		e.pidx[p] = i
	}
	e.index()
	evalCache[fn] = e
	return e
}

// baseOf strips FieldAddr / constant IndexAddr chains and slices of arrays: the designated object and
// the path inside it.
func baseOf(addr ssa.Value) (ssa.Value, []string) {
	var path []string
	for {
		switch x := addr.(type) {
		case *ssa.FieldAddr:
			path = append([]string{fieldName(x.X.Type(), x.Field)}, path...)
			addr = x.X
		case *ssa.IndexAddr:
			if _, isArr := derefType(x.X.Type()).Underlying().(*types.Array); isArr {
				if c, ok := x.Index.(*ssa.Const); ok && c.Value != nil {
					path = append([]string{"[" + c.Value.ExactString() + "]"}, path...)
				} else {
					path = append([]string{"[*]"}, path...)
				}
				addr = x.X
				continue
			}
			return addr, path
		case *ssa.Slice:
			// slicing a pointer-to-array designates the array's storage
			if _, isArr := derefType(x.X.Type()).Underlying().(*types.Array); isArr {
				if _, isPtr := x.X.Type().Underlying().(*types.Pointer); isPtr {
					if x.Low == nil && x.High == nil {
						addr = x.X
						continue
					}
					path = append([]string{"[*]"}, path...)
					addr = x.X
					continue
				}
			}
			return addr, path
		case *ssa.ChangeType:
			addr = x.X
		default:
			return addr, path
		}
	}
}

func derefType(t types.Type) types.Type {
	if p, ok := t.Underlying().(*types.Pointer); ok {
		return p.Elem()
	}
	return t
}

func fieldName(t types.Type, i int) string {
	st, ok := derefType(t).Underlying().(*types.Struct)
	if !ok || i >= st.NumFields() {
		return fmt.Sprintf("#%d", i)
	}
	return st.Field(i).Name()
}

func isPointerLike(t types.Type) bool {
	switch t.Underlying().(type) {
	case *types.Pointer:
		return true
	}
	return false
}

func (e *Eval) index() {
	fn := e.Fn
	for _, b := range fn.Blocks {
		for i, ins := range b.Instrs {
			e.idx[ins] = i
		}
	}
	// block reachability (transitive closure over successors)
	e.reach = map[*ssa.BasicBlock]map[*ssa.BasicBlock]bool{}
	for _, b := range fn.Blocks {
		seen := map[*ssa.BasicBlock]bool{}
		var stack []*ssa.BasicBlock
		stack = append(stack, b.Succs...)
		for len(stack) > 0 {
			x := stack[len(stack)-1]
			stack = stack[:len(stack)-1]
			if seen[x] {
				continue
			}
			seen[x] = true
			stack = append(stack, x.Succs...)
		}
		e.reach[b] = seen
	}
	add := func(base ssa.Value, ev event) { e.events[base] = append(e.events[base], ev) }
	for _, b := range fn.Blocks {
		for _, ins := range b.Instrs {
			switch x := ins.(type) {
			case *ssa.Store:
				base, path := baseOf(x.Addr)
				add(base, event{instr: ins, path: path, kind: "store", val: x.Val})
				// a pointer stored somewhere escapes
				if isPointerLike(x.Val.Type()) {
					vb, vp := baseOf(x.Val)
					add(vb, event{instr: ins, path: vp, kind: "escape"})
				}
			case ssa.CallInstruction:
				cc := x.Common()
				name := CalleeName(cc)
				args := cc.Args
				if bi, ok := cc.Value.(*ssa.Builtin); ok {
					switch bi.Name() {
					case "copy":
						base, path := baseOf(args[0])
						add(base, event{instr: ins, path: path, kind: "copy", val: args[1]})
						continue
					case "len", "cap", "append", "print", "println", "min", "max", "panic", "recover", "real", "imag", "complex":
						continue
					}
				}
				var ptrs []ssa.Value
				if cc.IsInvoke() {
					ptrs = append(ptrs, cc.Value)
				} else if mc, ok := cc.Value.(*ssa.MakeClosure); ok {
					ptrs = append(ptrs, mc.Bindings...)
				}
				ptrs = append(ptrs, args...)
				for _, a := range ptrs {
					a = stripIface(a)
					switch a.Type().Underlying().(type) {
					case *types.Pointer, *types.Slice:
					default:
						continue
					}
					base, path := baseOf(a)
					if _, isSl := a.Type().Underlying().(*types.Slice); isSl && base == a {
						continue // a plain slice value: its backing array is not an object tracked here
					}
					if readOnlyArg(cc, a) {
						continue // summarised callee only reads through this pointer
					}
					add(base, event{instr: ins, path: path, kind: "clobber", who: name})
				}
			case *ssa.MakeClosure:
				for _, bnd := range x.Bindings {
					if isPointerLike(bnd.Type()) {
						base, path := baseOf(bnd)
						add(base, event{instr: ins, path: path, kind: "escape"})
					}
				}
			case *ssa.MakeInterface:
				if isPointerLike(x.X.Type()) {
					// a pointer boxed only to be passed to calls is handled as a clobber at those calls
					// (assumption: callees do not retain argument pointers beyond the call)
					onlyCalls := x.Referrers() != nil && len(*x.Referrers()) > 0
					if onlyCalls {
						for _, ref := range *x.Referrers() {
							if _, ok := ref.(ssa.CallInstruction); !ok {
								if _, dbg := ref.(*ssa.DebugRef); !dbg {
									onlyCalls = false
								}
							}
						}
					}
					if !onlyCalls {
						base, path := baseOf(x.X)
						add(base, event{instr: ins, path: path, kind: "escape"})
					}
				}
			case *ssa.Return:
				// returning a pointer is not a write
			}
		}
	}
}

// ModulePrefix selects the callees that are summarised (same module as the analysed code).
var ModulePrefix = "github.com/brocaar/lorawan"

// InModule reports whether fn has a body and belongs to the analysed module.
func InModule(fn *ssa.Function) bool {
	if fn == nil || fn.Blocks == nil {
		return false
	}
	if fn.Pkg != nil {
		return strings.HasPrefix(fn.Pkg.Pkg.Path(), ModulePrefix)
	}
	if o := fn.Object(); o != nil && o.Pkg() != nil {
		return strings.HasPrefix(o.Pkg().Path(), ModulePrefix)
	}
	if fn.Parent() != nil {
		return InModule(fn.Parent())
	}
	return false
}

type roKey struct {
	fn *ssa.Function
	i  int
}

var roCache = map[roKey]bool{}

// readOnlyArg: the static in-module callee only reads through pointer argument a.
func readOnlyArg(cc *ssa.CallCommon, a ssa.Value) bool {
	callee := cc.StaticCallee()
	if callee == nil || !InModule(callee) {
		return false
	}
	for i, x := range cc.Args {
		if stripIface(x) != a {
			continue
		}
		if _, ok := x.(*ssa.MakeInterface); ok {
			return false
		}
		k := roKey{callee, i}
		ro, ok := roCache[k]
		if !ok {
			acc, prob := ParamAccesses(callee, i, InModule)
			ro = len(prob) == 0
			for _, ac := range acc {
				if ac.Kind != "read" {
					ro = false
				}
			}
			roCache[k] = ro
		}
		if !ro {
			return false
		}
	}
	return true
}

func stripIface(v ssa.Value) ssa.Value {
	for {
		switch x := v.(type) {
		case *ssa.MakeInterface:
			v = x.X
		case *ssa.ChangeInterface:
			v = x.X
		default:
			return v
		}
	}
}

// mayPrecede: can instruction a execute before instruction b (on some path)?
func (e *Eval) mayPrecede(a, b ssa.Instruction) bool {
	ba, bb := a.Block(), b.Block()
	if ba == bb {
		if e.idx[a] < e.idx[b] {
			return true
		}
		return e.reach[ba][ba]
	}
	return e.reach[ba][bb]
}

// MayPrecede reports whether instruction a can execute before instruction b on some path.
func (e *Eval) MayPrecede(a, b ssa.Instruction) bool {
	if a == nil || b == nil || a.Parent() != e.Fn || b.Parent() != e.Fn {
		return false
	}
	return e.mayPrecede(a, b)
}

// dominates: instruction a dominates instruction b (a executes before b on every path to b).
func (e *Eval) dominates(a, b ssa.Instruction) bool {
	ba, bb := a.Block(), b.Block()
	if ba == bb {
		return e.idx[a] < e.idx[b]
	}
	return ba.Dominates(bb)
}

func overlap(p, q []string) bool {
	n := len(p)
	if len(q) < n {
		n = len(q)
	}
	for i := 0; i < n; i++ {
		if p[i] != q[i] && p[i] != "[*]" && q[i] != "[*]" {
			return false
		}
	}
	return true
}

func hasPrefix(p, prefix []string) bool {
	if len(prefix) > len(p) {
		return false
	}
	for i := range prefix {
		if p[i] != prefix[i] {
			return false
		}
	}
	return true
}

// Term evaluates a value (position-independent part; loads use their own position).
func (e *Eval) Term(v ssa.Value) *Term { return e.Select(v, nil, nil) }

// Select evaluates v.path. `at` is the instruction at which the question is asked; it only matters when
// v is a pointer that has to be dereferenced to follow path.
func (e *Eval) Select(v ssa.Value, path []string, at ssa.Instruction) *Term {
	if len(path) == 0 {
		if t, ok := e.memo[v]; ok {
			return t
		}
		if e.busy[v] {
			if ph, ok := v.(*ssa.Phi); ok && ph.Comment != "" {
				return mk("loop", ph.Comment)
			}
			return mk("loop", "cycle")
		}
		e.busy[v] = true
		t := e.eval(v, nil, at)
		delete(e.busy, v)
		t.Src = v
		if t.Type == nil {
			t.Type = v.Type()
		}
		// the description of a pointer to a local depends on the asking position: do not cache it
		if !t.Has(func(x *Term) bool { return x.Op == "addr" || x.Op == "alloc" }) {
			e.memo[v] = t
		}
		return t
	}
	return e.eval(v, path, at)
}

func (e *Eval) eval(v ssa.Value, path []string, at ssa.Instruction) *Term {
	// dereferencing a pointer value to follow a path
	if len(path) > 0 && isPointerLike(v.Type()) {
		if at == nil {
			if ins, ok := v.(ssa.Instruction); ok {
				at = ins
			}
		}
		return e.SelectAddr(v, path, at)
	}
	switch x := v.(type) {
	case *ssa.Parameter:
		return Param(e.pidx[x], path...)
	case *ssa.FreeVar:
		return mk("freevar", x.Name()).Field(path...)
	case *ssa.Const:
		if len(path) > 0 {
			return mk("zero", "")
		}
		return constTerm(x)
	case *ssa.Global:
		return Global(globalName(x)).Field(path...)
	case *ssa.Function:
		return mk("func", FuncName(x))
	case *ssa.Builtin:
		return mk("func", x.Name())
	case *ssa.UnOp:
		switch x.Op {
		case token.MUL:
			return e.SelectAddr(x.X, path, x)
		case token.NOT:
			return mk("un", "!", e.Select(x.X, nil, at))
		case token.SUB:
			return mk("un", "-", e.Select(x.X, nil, at))
		case token.XOR:
			return mk("un", "^", e.Select(x.X, nil, at))
		case token.ARROW:
			return mk("un", "<-", e.Select(x.X, nil, at)).Field(path...)
		}
	case *ssa.Field:
		return e.Select(x.X, append([]string{fieldName(x.X.Type(), x.Field)}, path...), at)
	case *ssa.FieldAddr, *ssa.IndexAddr:
		// an address used as a value
		base, p := baseOf(x)
		return mk("addr", "", e.Select(base, nil, at).Field(p...))
	case *ssa.Alloc:
		// a pointer to a local/new object used as a value: describe what it points to at `at`
		if at != nil && e.depth < 12 {
			e.depth++
			inner := e.SelectAddr(x, nil, at)
			e.depth--
			if !inner.IsUnknown() {
				return mk("addr", "", inner)
			}
		}
		return mk("alloc", allocName(x))
	case *ssa.ChangeType:
		return e.Select(x.X, path, at)
	case *ssa.MakeInterface:
		return e.Select(x.X, path, at)
	case *ssa.ChangeInterface:
		return e.Select(x.X, path, at)
	case *ssa.Convert:
		if len(path) > 0 {
			return e.Select(x.X, path, at)
		}
		in := e.Select(x.X, nil, at)
		if types.Identical(x.X.Type().Underlying(), x.Type().Underlying()) {
			return in // named conversion
		}
		return mk("conv", basicKind(x.Type()), in)
	case *ssa.BinOp:
		return mk("bin", x.Op.String(), e.Select(x.X, nil, at), e.Select(x.Y, nil, at))
	case *ssa.Call:
		return e.callTerm(x).Field(path...)
	case *ssa.Extract:
		if call, ok := x.Tuple.(*ssa.Call); ok {
			if in := e.inlineTuple(call, x.Index); in != nil {
				return in.Field(path...)
			}
		}
		return mk("extract", fmt.Sprint(x.Index), e.Select(x.Tuple, nil, at)).Field(path...)
	case *ssa.TypeAssert:
		return mk("assert", typeStr(x.AssertedType), e.Select(x.X, nil, at)).Field(path...)
	case *ssa.Slice:
		lo, hi := mk("const", ""), mk("const", "")
		if x.Low != nil {
			lo = e.Select(x.Low, nil, at)
		}
		if x.High != nil {
			hi = e.Select(x.High, nil, at)
		}
		var inner *Term
		if isPointerLike(x.X.Type()) {
			// slicing *[N]T: the array's current content
			inner = e.SelectAddr(x.X, nil, x)
		} else {
			inner = e.Select(x.X, nil, at)
		}
		return mk("slice", "", inner, lo, hi)
	case *ssa.Index:
		return mk("index", "", e.Select(x.X, nil, at), e.Select(x.Index, nil, at)).Field(path...)
	case *ssa.Lookup:
		return mk("index", "", e.Select(x.X, nil, at), e.Select(x.Index, nil, at)).Field(path...)
	case *ssa.MakeClosure:
		if fn, ok := x.Fn.(*ssa.Function); ok {
			return mk("closure", FuncName(fn))
		}
	case *ssa.Phi:
		return e.phiTerm(x, path, at)
	case *ssa.MakeSlice:
		return mk("makeslice", typeStr(x.Type()), e.Select(x.Len, nil, at))
	case *ssa.MakeMap:
		return mk("makemap", typeStr(x.Type()))
	}
	return Unknown(fmt.Sprintf("%T", v))
}

func basicKind(t types.Type) string {
	if b, ok := t.Underlying().(*types.Basic); ok {
		return b.Name()
	}
	return typeStr(t)
}

func allocName(a *ssa.Alloc) string {
	return typeStr(derefType(a.Type())) + ":" + a.Comment
}

func globalName(g *ssa.Global) string {
	if g.Pkg != nil {
		return ShortPkg(g.Pkg.Pkg.Path()) + "." + g.Name()
	}
	return g.Name()
}

func constTerm(c *ssa.Const) *Term {
	if c.Value == nil {
		if _, ok := c.Type().Underlying().(*types.Struct); ok {
			return mk("zero", "")
		}
		if _, ok := c.Type().Underlying().(*types.Array); ok {
			return mk("zero", "")
		}
		return Nil()
	}
	t := mk("const", c.Value.ExactString())
	if c.Value.Kind() == constant.Float {
		if f, ok := constant.Float64Val(c.Value); ok {
			t.Val = fmt.Sprint(f)
		}
	}
	t.Type = c.Type()
	return t
}

func (e *Eval) callTerm(c *ssa.Call) *Term {
	cc := c.Common()
	name := CalleeName(cc)
	var args []*Term
	if cc.IsInvoke() {
		args = append(args, e.Select(cc.Value, nil, c))
	} else if name == "dyn" {
		args = append(args, e.Select(cc.Value, nil, c))
	}
	for _, a := range cc.Args {
		args = append(args, e.argTerm(a, c))
	}
	t := mk("call", name, args...)
	if in := e.inlinePure(c, args); in != nil {
		return in
	}
	return t
}

var inlineBusy = map[*ssa.Function]bool{}

// inlinePure replaces a call of a small in-module "expression function" (single return, result built only
// from its parameters, fields, constants and operators, no writes) by its result with the arguments
// substituted. This keeps argument provenance stable under helper extraction.
func (e *Eval) inlinePure(c *ssa.Call, args []*Term) *Term {
	callee := c.Common().StaticCallee()
	if callee == nil || !InModule(callee) || callee == e.Fn || inlineBusy[callee] {
		return nil
	}
	if callee.Signature.Results().Len() != 1 || len(callee.Params) != len(args) || len(callee.Blocks) == 0 {
		return nil
	}
	if len(callee.Blocks) > 1 {
		// methods such as isUplink() are vocabulary of the rules (they appear by name in expected terms);
		// only plain helper functions are unfolded
		if callee.Signature.Recv() != nil {
			return nil
		}
		return e.inlineBranching(callee, args)
	}
	blk := callee.Blocks[0]
	ret, ok := blk.Instrs[len(blk.Instrs)-1].(*ssa.Return)
	if !ok || len(ret.Results) != 1 {
		return nil
	}
	for _, ins := range blk.Instrs {
		switch x := ins.(type) {
		case *ssa.Store:
			// building a value in a local (spilled parameter, struct literal) is fine; any other store is an effect
			if b, _ := baseOf(x.Addr); b == nil {
				return nil
			} else if _, isAlloc := b.(*ssa.Alloc); !isAlloc {
				return nil
			}
		case ssa.CallInstruction:
			if _, isB := x.Common().Value.(*ssa.Builtin); isB {
				continue
			}
			// nested expression helpers are inlined when their own term is built; other calls must be pure externals
			if sc := x.Common().StaticCallee(); sc != nil && InModule(sc) {
				continue
			}
			if !pureExternal[CalleeName(x.Common())] {
				return nil
			}
		case *ssa.MapUpdate, *ssa.Send, *ssa.Go, *ssa.Defer, *ssa.Panic:
			return nil
		}
	}
	inlineBusy[callee] = true
	defer delete(inlineBusy, callee)
	ce := For(callee)
	rt := ce.Select(ret.Results[0], nil, ret)
	if rt.IsUnknown() || rt.Has(func(t *Term) bool {
		switch t.Op {
		case "opaque", "phi", "loop", "alloc", "closure", "dyn", "after", "copyof", "makeslice", "makemap":
			return true
		case "call":
			return !pureExternal[t.Val] // a nested in-module call that could not be inlined
		case "extract":
			return !(len(t.Args) == 1 && (t.Args[0].Op == "assert" || (t.Args[0].Op == "call" && pureExternal[t.Args[0].Val])))
		}
		return false
	}) {
		return nil
	}
	// substitute parameters (simultaneously: go through placeholders)
	out := rt
	for i := range args {
		out = out.Subst(Param(i), mk("param", fmt.Sprintf("__%d", i)))
	}
	for i, a := range args {
		arg := a
		if arg.Op == "addr" && len(arg.Args) == 1 {
			arg = arg.Args[0] // pointer to a local: field selection goes through the content
		}
		out = out.Subst(mk("param", fmt.Sprintf("__%d", i)), arg)
	}
	return SelectRecFields(out)
}

// inlineBranching: a loop-free, effect-free helper with one result and several returns
// (`if pred(x) { return A }; return B`) becomes ite(pred, A, B) with the arguments substituted.
func (e *Eval) inlineBranching(callee *ssa.Function, args []*Term) *Term {
	if len(callee.Blocks) > 12 {
		return nil
	}
	for _, b := range callee.Blocks {
		for _, sc := range b.Succs {
			if sc.Dominates(b) {
				return nil // loop
			}
		}
		for _, ins := range b.Instrs {
			switch x := ins.(type) {
			case *ssa.Store:
				if bs, _ := baseOf(x.Addr); bs == nil {
					return nil
				} else if _, isAlloc := bs.(*ssa.Alloc); !isAlloc {
					return nil
				}
			case ssa.CallInstruction:
				if _, isB := x.Common().Value.(*ssa.Builtin); isB {
					continue
				}
				if sc := x.Common().StaticCallee(); sc != nil && InModule(sc) {
					continue
				}
				if !pureExternal[CalleeName(x.Common())] {
					return nil
				}
			case *ssa.MapUpdate, *ssa.Send, *ssa.Go, *ssa.Defer, *ssa.Panic, *ssa.Phi:
				return nil
			}
		}
	}
	inlineBusy[callee] = true
	defer delete(inlineBusy, callee)
	ce := For(callee)
	var walk func(b *ssa.BasicBlock, depth int) *Term
	walk = func(b *ssa.BasicBlock, depth int) *Term {
		if depth > 12 {
			return nil
		}
		switch last := b.Instrs[len(b.Instrs)-1].(type) {
		case *ssa.Return:
			if len(last.Results) != 1 {
				return nil
			}
			return ce.Select(last.Results[0], nil, last)
		case *ssa.Jump:
			return walk(b.Succs[0], depth+1)
		case *ssa.If:
			c := ce.Select(last.Cond, nil, last)
			t, f := walk(b.Succs[0], depth+1), walk(b.Succs[1], depth+1)
			if t == nil || f == nil {
				return nil
			}
			if t.Equal(f) {
				return t
			}
			return mk("ite", "", c, t, f)
		}
		return nil
	}
	rt := walk(callee.Blocks[0], 0)
	if rt == nil || rt.IsUnknown() || rt.Has(func(t *Term) bool {
		switch t.Op {
		case "opaque", "phi", "loop", "alloc", "closure", "dyn", "after", "copyof", "makeslice", "makemap":
			return true
		case "call":
			return !pureExternal[t.Val]
		case "extract":
			return !(len(t.Args) == 1 && (t.Args[0].Op == "assert" || (t.Args[0].Op == "call" && pureExternal[t.Args[0].Val])))
		}
		return false
	}) {
		return nil
	}
	out := rt
	for i := range args {
		out = out.Subst(Param(i), mk("param", fmt.Sprintf("__%d", i)))
	}
	for i, a := range args {
		arg := a
		if arg.Op == "addr" && len(arg.Args) == 1 {
			arg = arg.Args[0]
		}
		out = out.Subst(mk("param", fmt.Sprintf("__%d", i)), arg)
	}
	return SelectRecFields(out)
}

// pureExternal lists external functions whose results depend on their arguments only (no state, no effect):
// helpers that call only these stay "expression functions" for inlineTuple.
var pureExternal = map[string]bool{
	"strconv.ParseFloat": true, "strconv.ParseInt": true, "strconv.ParseUint": true, "strconv.Atoi": true,
	"strconv.FormatFloat": true, "strconv.FormatInt": true, "strconv.Itoa": true,
	"math.Round": true, "math.RoundToEven": true, "math.Floor": true, "math.Ceil": true, "math.Trunc": true,
	"strings.TrimPrefix": true, "strings.TrimSuffix": true, "strings.ToLower": true, "strings.ToUpper": true,
	"encoding/hex.DecodeString": true, "encoding/hex.EncodeToString": true, "encoding/json.Marshal": true,
	"pkgerrors.Cause": true, "errors.Is": true, "errors.Unwrap": true,
	// error construction: allocates, but has no effect a caller can observe other than the returned value
	"pkgerrors.Wrap": true, "pkgerrors.Wrapf": true, "pkgerrors.New": true, "pkgerrors.Errorf": true,
	"pkgerrors.WithMessage": true, "pkgerrors.WithStack": true, "errors.New": true, "fmt.Errorf": true, "fmt.Sprintf": true,
	"time.Parse": true, "(time.Time).Format": true, "(time.Time).AppendFormat": true, "(time.Time).UTC": true, "bytes.Equal": true, "bytes.HasPrefix": true,
	"strings.HasPrefix": true, "encoding/hex.Decode": true, "encoding/hex.EncodedLen": true, "encoding/hex.DecodedLen": true,
}

// inlineTuple: result idx of a call of an in-module helper with several results. The helper must have no effect
// (no store outside its own locals, no map update, send, go, defer, panic; calls only of pureExternal functions) and
// either a single return, or — with a trailing error result — exactly one return whose error is the nil constant.
// Result idx (not the error) is then that return's value with the arguments substituted; this is the value every
// caller sees on the success path, which is the only path on which a caller may use it. Keeps provenance stable
// when `v, err := parse(x); …; round(v*k)` is moved into a helper.
func (e *Eval) inlineTuple(c *ssa.Call, idx int) *Term {
	callee := c.Common().StaticCallee()
	if callee == nil || !InModule(callee) || callee == e.Fn || inlineBusy[callee] || callee.Blocks == nil {
		return nil
	}
	nres := callee.Signature.Results().Len()
	if nres < 2 || idx >= nres || c.Common().IsInvoke() || len(callee.Params) != len(c.Common().Args) {
		return nil
	}
	errIdx := -1
	if IsErrorType(callee.Signature.Results().At(nres - 1).Type()) {
		errIdx = nres - 1
	}
	var rets, okRets []*ssa.Return
	for _, b := range callee.Blocks {
		for _, ins := range b.Instrs {
			switch x := ins.(type) {
			case *ssa.Store:
				if _, isAlloc := x.Addr.(*ssa.Alloc); !isAlloc {
					return nil
				}
			case ssa.CallInstruction:
				if _, isB := x.Common().Value.(*ssa.Builtin); isB {
					continue
				}
				if !pureExternal[CalleeName(x.Common())] {
					return nil
				}
			case *ssa.MapUpdate, *ssa.Send, *ssa.Go, *ssa.Defer, *ssa.Panic:
				return nil
			case *ssa.Return:
				rets = append(rets, x)
				if errIdx >= 0 && IsNilConst(x.Results[errIdx]) {
					okRets = append(okRets, x)
				}
			}
		}
	}
	var ret *ssa.Return
	switch {
	case len(rets) == 1:
		ret = rets[0]
	case errIdx >= 0 && idx != errIdx && len(okRets) == 1:
		ret = okRets[0]
	default:
		return nil
	}
	inlineBusy[callee] = true
	defer delete(inlineBusy, callee)
	ce := For(callee)
	rt := ce.Select(ret.Results[idx], nil, ret)
	if rt.IsUnknown() || rt.Has(func(t *Term) bool {
		switch t.Op {
		case "opaque", "phi", "loop", "alloc", "closure", "dyn", "after", "copyof", "makemap":
			return true
		}
		return false
	}) {
		return nil
	}
	var args []*Term
	for _, a := range c.Common().Args {
		args = append(args, e.argTerm(a, c))
	}
	out := rt
	for i := range args {
		out = out.Subst(Param(i), mk("param", fmt.Sprintf("__%d", i)))
	}
	for i, a := range args {
		arg := a
		if arg.Op == "addr" && len(arg.Args) == 1 {
			arg = arg.Args[0]
		}
		out = out.Subst(mk("param", fmt.Sprintf("__%d", i)), arg)
	}
	return SelectRecFields(out)
}

// argTerm renders an argument; a pointer to a tracked object is rendered as &object-content so that
// `f(&x)` and `x.m()` calls show what they receive.
func (e *Eval) argTerm(a ssa.Value, at ssa.Instruction) *Term {
	if isPointerLike(a.Type()) {
		base, _ := baseOf(a)
		if _, ok := base.(*ssa.Alloc); ok {
			return mk("addr", "", e.SelectAddr(a, nil, at))
		}
	}
	return e.Select(a, nil, at)
}

func isStructish(t types.Type) bool {
	_, ok := t.Underlying().(*types.Struct)
	return ok
}

// ArgTerms evaluates the arguments of a call (receiver first for static method calls, as in SSA).
func (e *Eval) ArgTerms(c ssa.CallInstruction) []*Term {
	var out []*Term
	for _, a := range c.Common().Args {
		out = append(out, e.argTerm(a, c))
	}
	return out
}

// SelectAddr evaluates the content of (*addr).path as seen by instruction `at`: a backwards walk from
// `at` to the nearest overlapping write; at a control-flow merge the values of the predecessors are
// merged (identical → that value; decided by dominating branch conditions → ite; otherwise phi).
func (e *Eval) SelectAddr(addr ssa.Value, path []string, at ssa.Instruction) *Term {
	base, p := baseOf(addr)
	full := append(append([]string{}, p...), path...)
	if at == nil {
		return Unknown("no position for load")
	}
	var evs []event
	for _, ev := range e.events[base] {
		if ev.instr != at && overlap(ev.path, full) {
			evs = append(evs, ev)
		}
	}
	// escapes only matter when a call can run between the escape and the load
	for _, ev := range evs {
		if ev.kind == "escape" && e.mayPrecede(ev.instr, at) && e.callBetween(ev.instr, at) {
			return Unknown("object escaped before the load and a call may run in between")
		}
	}
	w := &memWalk{e: e, base: base, full: full, memo: map[*ssa.BasicBlock]*Term{}, byInstr: map[ssa.Instruction]*event{}}
	for i := range evs {
		if evs[i].kind != "escape" {
			w.byInstr[evs[i].instr] = &evs[i]
			w.n++
		}
	}
	if w.n == 0 {
		return w.initial(at)
	}
	return w.before(at.Block(), e.idx[at])
}

// walkFor prepares a memory walk for base.path.
func (e *Eval) walkFor(base ssa.Value, full []string) *memWalk {
	w := &memWalk{e: e, base: base, full: full, memo: map[*ssa.BasicBlock]*Term{}, byInstr: map[ssa.Instruction]*event{}}
	for j := range e.events[base] {
		ev := &e.events[base][j]
		if ev.kind != "escape" && overlap(ev.path, full) {
			w.byInstr[ev.instr] = ev
			w.n++
		}
	}
	return w
}

type memWalk struct {
	e       *Eval
	base    ssa.Value
	full    []string
	memo    map[*ssa.BasicBlock]*Term
	byInstr map[ssa.Instruction]*event
	n       int
}

func (w *memWalk) initial(at ssa.Instruction) *Term {
	e := w.e
	switch b := w.base.(type) {
	case *ssa.Alloc:
		return mk("zero", "")
	case *ssa.Parameter:
		if len(w.full) == 0 {
			// the pointee of a pointer parameter: aggregates follow Go's auto-dereference convention ($i),
			// scalars and pointers are written deref($i) so that `p == nil` and `*p == 0` stay apart
			switch derefType(b.Type()).Underlying().(type) {
			case *types.Struct, *types.Array:
			default:
				return mk("deref", "", Param(e.pidx[b]))
			}
		}
		return Param(e.pidx[b], w.full...)
	case *ssa.Global:
		return Global(globalName(b)).Field(w.full...)
	case *ssa.FreeVar:
		return mk("freevar", b.Name()).Field(w.full...)
	}
	bt := e.Select(w.base, nil, at)
	if len(w.full) == 0 {
		return mk("deref", "", bt)
	}
	return bt.Field(w.full...)
}

// before: value just before instruction index i of block b.
func (w *memWalk) before(b *ssa.BasicBlock, i int) *Term {
	e := w.e
	for k := i - 1; k >= 0; k-- {
		ev := w.byInstr[b.Instrs[k]]
		if ev == nil {
			continue
		}
		switch ev.kind {
		case "store":
			if hasPrefix(w.full, ev.path) {
				return e.Select(ev.val, w.full[len(ev.path):], ev.instr)
			}
			return e.record(w.base, w.full, b.Instrs[i-1+0], b, i)
		case "copy":
			if len(w.full) == len(ev.path) {
				return mk("copyof", "", e.Select(ev.val, nil, ev.instr))
			}
			return mk("opaque", "copy")
		case "clobber":
			if hasPrefix(w.full, ev.path) && len(ev.path) < len(w.full) {
				// the call received the enclosing object: after(callee; object).rest
				outer := w.e.walkFor(w.base, ev.path)
				var inner *Term
				if outer.n == 0 {
					inner = outer.initial(b.Instrs[k])
				} else {
					inner = outer.before(b, k)
				}
				return mk("after", ev.who, inner).Field(w.full[len(ev.path):]...)
			}
			return mk("after", ev.who, w.before(b, k))
		}
	}
	return w.atStart(b)
}

func (w *memWalk) atStart(b *ssa.BasicBlock) *Term {
	if t, ok := w.memo[b]; ok {
		if t == nil {
			return mk("loop", "memory")
		}
		return t
	}
	w.memo[b] = nil
	var t *Term
	if b == w.e.Fn.Blocks[0] || len(b.Preds) == 0 {
		var at ssa.Instruction
		if len(b.Instrs) > 0 {
			at = b.Instrs[0]
		}
		t = w.initial(at)
	} else {
		var ts []*Term
		var preds []*ssa.BasicBlock
		loopWrite := false
		for _, p := range b.Preds {
			if b.Dominates(p) { // back edge: only relevant if the loop body writes the location
				for ins := range w.byInstr {
					if b.Dominates(ins.Block()) && (w.e.reach[ins.Block()][b]) {
						loopWrite = true
					}
				}
				continue
			}
			preds = append(preds, p)
			ts = append(ts, w.before(p, len(p.Instrs)))
		}
		switch {
		case loopWrite:
			t = Unknown("loop-carried writes to " + strings.Join(w.full, "."))
		case len(ts) == 0:
			t = Unknown("unreachable merge")
		default:
			t = w.e.mergeTerms(b, preds, ts)
		}
	}
	w.memo[b] = t
	return t
}

// record describes an aggregate that was written piecewise, as seen just before instruction index i of
// block b: rec(fld(f;term), …) with zero fields omitted; small arrays become arr(e0, e1, …).
func (e *Eval) record(base ssa.Value, full []string, _ ssa.Instruction, b *ssa.BasicBlock, i int) *Term {
	t := derefType(base.Type())
	for _, f := range full {
		if strings.HasPrefix(f, "[") {
			arr, ok := t.Underlying().(*types.Array)
			if !ok {
				return Unknown("aggregate path " + strings.Join(full, "."))
			}
			t = arr.Elem()
			continue
		}
		st, ok := t.Underlying().(*types.Struct)
		if !ok {
			return Unknown("aggregate " + strings.Join(full, ".") + " is not a struct")
		}
		found := false
		for k := 0; k < st.NumFields(); k++ {
			if st.Field(k).Name() == f {
				t = st.Field(k).Type()
				found = true
				break
			}
		}
		if !found {
			return Unknown("aggregate path " + strings.Join(full, "."))
		}
	}
	if len(full) > 8 {
		return Unknown("aggregate too deep")
	}
	sub := func(name string) *Term {
		sp := append(append([]string{}, full...), name)
		w := &memWalk{e: e, base: base, full: sp, memo: map[*ssa.BasicBlock]*Term{}, byInstr: map[ssa.Instruction]*event{}}
		for j := range e.events[base] {
			ev := &e.events[base][j]
			if ev.kind != "escape" && overlap(ev.path, sp) {
				w.byInstr[ev.instr] = ev
				w.n++
			}
		}
		if w.n == 0 {
			return w.initial(b.Instrs[0])
		}
		return w.before(b, i)
	}
	switch u := t.Underlying().(type) {
	case *types.Struct:
		r := mk("rec", "")
		for k := 0; k < u.NumFields(); k++ {
			ft := sub(u.Field(k).Name())
			if ft.Op == "zero" {
				continue
			}
			r.Args = append(r.Args, mk("fld", u.Field(k).Name(), ft))
		}
		return r
	case *types.Array:
		if u.Len() > 16 {
			return Unknown("large array written piecewise")
		}
		r := mk("arr", "")
		for k := int64(0); k < u.Len(); k++ {
			r.Args = append(r.Args, sub(fmt.Sprintf("[%d]", k)))
		}
		return r
	}
	return Unknown("aggregate " + strings.Join(full, ".") + " read after partial store")
}

func (e *Eval) callBetween(a, b ssa.Instruction) bool {
	for _, blk := range e.Fn.Blocks {
		for _, ins := range blk.Instrs {
			c, ok := ins.(ssa.CallInstruction)
			if !ok || ins == a || ins == b {
				continue
			}
			if bi, ok := c.Common().Value.(*ssa.Builtin); ok {
				_ = bi
				continue
			}
			if e.mayPrecede(a, ins) && e.mayPrecede(ins, b) {
				return true
			}
		}
	}
	return false
}

// phiTerm: identical sources collapse; a merge decided by dominating branch conditions becomes a
// (nested) ite; loop-carried values become loop(...).
func (e *Eval) phiTerm(p *ssa.Phi, path []string, at ssa.Instruction) *Term {
	b := p.Block()
	var ts []*Term
	var preds []*ssa.BasicBlock
	back := false
	for i, ed := range p.Edges {
		if b.Dominates(b.Preds[i]) {
			back = true
			continue
		}
		preds = append(preds, b.Preds[i])
		ts = append(ts, e.Select(ed, path, at))
	}
	if back {
		// loop-carried: describe by initial value(s) only, marked as loop
		return mk("loop", p.Comment, ts...)
	}
	return e.mergeTerms(b, preds, ts)
}

// mergeTerms merges the values ts[i] arriving at block b from predecessor preds[i].
func (e *Eval) mergeTerms(b *ssa.BasicBlock, preds []*ssa.BasicBlock, ts []*Term) *Term {
	same := true
	for _, t := range ts[1:] {
		if !t.Equal(ts[0]) {
			same = false
		}
	}
	if same {
		return ts[0]
	}
	if t := e.gatedMerge(b, preds, ts); t != nil {
		return t
	}
	// order-independent rendering
	ss := map[string]*Term{}
	for _, t := range ts {
		ss[t.String()] = t
	}
	keys := make([]string, 0, len(ss))
	for k := range ss {
		keys = append(keys, k)
	}
	sort.Strings(keys)
	var args []*Term
	for _, k := range keys {
		args = append(args, ss[k])
	}
	return mk("phi", "", args...)
}
