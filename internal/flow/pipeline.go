package flow

import (
	"fmt"
	"go/ast"
	"go/token"
	"go/types"
	"sort"
	"strings"

	"golang.org/x/tools/go/packages"
	"golang.org/x/tools/go/ssa"
)

// TaskList is a package-level slice literal of function values, e.g.
//
//	var joinTasks = []func(*context) error{setJoinContext, validateMIC, …}
type TaskList struct {
	Name     string
	Global   *ssa.Global
	Tasks    []*ssa.Function
	Pos      token.Pos
	Problems []string // reasons why the list is outside the supported subset (→ Undecided)
}

// TaskLists finds the task-list literals of a package (typed AST) and checks on SSA that nothing but
// the package initialiser writes them.
func TaskLists(pk *packages.Package, prog *ssa.Program, sp *ssa.Package) []*TaskList {
	var out []*TaskList
	for _, f := range pk.Syntax {
		for _, d := range f.Decls {
			gd, ok := d.(*ast.GenDecl)
			if !ok || gd.Tok != token.VAR {
				continue
			}
			for _, s := range gd.Specs {
				vs := s.(*ast.ValueSpec)
				for i, name := range vs.Names {
					if i >= len(vs.Values) {
						continue
					}
					cl, ok := vs.Values[i].(*ast.CompositeLit)
					if !ok {
						continue
					}
					tv, ok := pk.TypesInfo.Types[cl]
					if !ok {
						continue
					}
					sl, ok := tv.Type.Underlying().(*types.Slice)
					if !ok {
						continue
					}
					if _, ok := sl.Elem().Underlying().(*types.Signature); !ok {
						continue
					}
					tl := &TaskList{Name: name.Name, Pos: name.Pos()}
					if g, ok := sp.Members[name.Name].(*ssa.Global); ok {
						tl.Global = g
					} else {
						tl.Problems = append(tl.Problems, "no SSA global")
					}
					for _, el := range cl.Elts {
						if kv, ok := el.(*ast.KeyValueExpr); ok {
							tl.Problems = append(tl.Problems, "keyed element")
							el = kv.Value
						}
						var obj types.Object
						switch x := el.(type) {
						case *ast.Ident:
							obj = pk.TypesInfo.Uses[x]
						case *ast.SelectorExpr:
							obj = pk.TypesInfo.Uses[x.Sel]
						}
						fo, ok := obj.(*types.Func)
						if !ok {
							tl.Problems = append(tl.Problems, "element is not a named function")
							continue
						}
						fn := prog.FuncValue(fo)
						if fn == nil || fn.Blocks == nil {
							tl.Problems = append(tl.Problems, "no SSA body for "+fo.Name())
							continue
						}
						tl.Tasks = append(tl.Tasks, fn)
					}
					out = append(out, tl)
				}
			}
		}
	}
	// the list must not be written after initialisation
	for _, tl := range out {
		if tl.Global == nil {
			continue
		}
		for _, fn := range PackageFuncs(prog, sp) {
			for _, b := range fn.Blocks {
				for _, ins := range b.Instrs {
					for _, op := range ins.Operands(nil) {
						if *op != ssa.Value(tl.Global) {
							continue
						}
						if u, ok := ins.(*ssa.UnOp); ok && u.Op == token.MUL {
							// a load: its elements must not be stored through
							for _, ref := range *u.Referrers() {
								if ia, ok := ref.(*ssa.IndexAddr); ok {
									for _, r2 := range *ia.Referrers() {
										if st, ok := r2.(*ssa.Store); ok && st.Addr == ssa.Value(ia) {
											tl.Problems = append(tl.Problems, "element assigned in "+ShortFunc(fn))
										}
									}
								}
							}
							continue
						}
						tl.Problems = append(tl.Problems, fmt.Sprintf("written or address-taken in %s", ShortFunc(fn)))
					}
				}
			}
		}
	}
	sort.Slice(out, func(i, j int) bool { return out[i].Name < out[j].Name })
	return out
}

// Index returns the position of fn in the list or -1.
func (tl *TaskList) Index(fn *ssa.Function) int {
	for i, t := range tl.Tasks {
		if t == fn {
			return i
		}
	}
	return -1
}

// Access is a read or write of a field path of the object a pointer parameter designates.
type Access struct {
	Path  []string
	Instr ssa.Instruction // instruction in the analysed function (for callee accesses: the call)
	Kind  string          // read | write | passed (address handed to code that was not summarised)
	How   string
}

func (a Access) PathString() string { return strings.Join(a.Path, ".") }

// ParamAccesses lists how function fn uses the object designated by its pointer parameter pi:
// definite reads (loads), writes (stores, copy, writes of summarised in-module callees) and addresses
// passed to unsummarised code. keep selects callees that are summarised recursively.
func ParamAccesses(fn *ssa.Function, pi int, keep func(*ssa.Function) bool) (acc []Access, problems []string) {
	return paramAccesses(fn, pi, keep, 0, map[*ssa.Function]bool{})
}

func paramAccesses(fn *ssa.Function, pi int, keep func(*ssa.Function) bool, depth int, stack map[*ssa.Function]bool) (acc []Access, problems []string) {
	if pi >= len(fn.Params) {
		return nil, []string{"no such parameter"}
	}
	if stack[fn] {
		return []Access{{Kind: "passed", How: "recursion"}}, nil
	}
	stack[fn] = true
	defer delete(stack, fn)
	var visit func(v ssa.Value, path []string, seen map[ssa.Value]bool)
	visit = func(v ssa.Value, path []string, seen map[ssa.Value]bool) {
		if seen[v] {
			return
		}
		seen[v] = true
		refs := v.Referrers()
		if refs == nil {
			return
		}
		for _, ref := range *refs {
			switch x := ref.(type) {
			case *ssa.FieldAddr:
				if x.X == v {
					visit(x, append(append([]string{}, path...), fieldName(x.X.Type(), x.Field)), seen)
				}
			case *ssa.IndexAddr:
				if x.X == v {
					visit(x, path, seen)
				}
			case *ssa.Slice:
				if x.X == v {
					visit(x, path, seen)
				}
			case *ssa.ChangeType:
				visit(x, path, seen)
			case *ssa.UnOp:
				if x.Op == token.MUL && x.X == v {
					if !contentUsed(x) {
						// the loaded value is used for nothing, or only for its (constant) length: `for i := range p.MIC`
						// over an array field loads the array and looks at no element
						continue
					}
					acc = append(acc, Access{Path: path, Instr: x, Kind: "read", How: "load"})
					// a loaded slice/pointer/interface gives access to other objects, not to this one
				}
			case *ssa.Store:
				if x.Addr == v {
					acc = append(acc, Access{Path: path, Instr: x, Kind: "write", How: "store"})
				} else if x.Val == v {
					problems = append(problems, "address of "+strings.Join(path, ".")+" stored")
				}
			case ssa.CallInstruction:
				cc := x.Common()
				name := CalleeName(cc)
				if bi, ok := cc.Value.(*ssa.Builtin); ok {
					switch bi.Name() {
					case "copy":
						if cc.Args[0] == v {
							acc = append(acc, Access{Path: path, Instr: x, Kind: "write", How: "copy"})
						}
						if cc.Args[1] == v {
							acc = append(acc, Access{Path: path, Instr: x, Kind: "read", How: "copy source"})
						}
					case "len", "cap":
						// length of an array/slice value: a read only for slices reached by load (not here)
					case "append":
						acc = append(acc, Access{Path: path, Instr: x, Kind: "read", How: "append"})
					default:
						acc = append(acc, Access{Path: path, Instr: x, Kind: "passed", How: name})
					}
					continue
				}
				callee := cc.StaticCallee()
				summarised := false
				if callee != nil && callee.Blocks != nil && keep(callee) && depth < 3 {
					for ai, a := range cc.Args {
						if a != v {
							continue
						}
						sub, prob := paramAccesses(callee, ai, keep, depth+1, stack)
						if len(prob) > 0 {
							continue
						}
						summarised = true
						ce := For(callee)
						for _, s := range sub {
							if s.Kind == "read" {
								// only upward-exposed reads count: a read that a covering write of the
								// callee may precede observes (possibly) the callee's own value
								shadowed := false
								for _, w := range sub {
									if w.Kind != "read" && w.Instr != s.Instr && Covers(w.Path, s.Path) && ce.MayPrecede(w.Instr, s.Instr) {
										shadowed = true
										break
									}
								}
								if shadowed {
									continue
								}
							}
							acc = append(acc, Access{Path: append(append([]string{}, path...), s.Path...), Instr: x, Kind: s.Kind, How: ShortFunc(callee) + ":" + s.How})
						}
					}
				}
				if !summarised {
					acc = append(acc, Access{Path: path, Instr: x, Kind: "passed", How: name})
				}
			case *ssa.MakeInterface, *ssa.Phi, *ssa.MakeClosure, *ssa.Return, *ssa.MapUpdate, *ssa.Send:
				problems = append(problems, fmt.Sprintf("address of %s escapes through %T", strings.Join(path, "."), ref))
			case *ssa.BinOp:
				// pointer comparison: neither read nor write
			case *ssa.DebugRef:
			default:
				problems = append(problems, fmt.Sprintf("unsupported use %T of %s", ref, strings.Join(path, ".")))
			}
		}
	}
	visit(fn.Params[pi], nil, map[ssa.Value]bool{})
	return acc, problems
}

// Covers reports whether a write to path w defines (part of) what a read of path r observes.
func Covers(w, r []string) bool { return hasPrefix(r, w) || hasPrefix(w, r) }

// ListLoop describes the loop that runs a task list: the function that loads the list, the dynamic call
// of an element and the object handed to every task.
type ListLoop struct {
	Fn   *ssa.Function
	Load *ssa.UnOp
	Call *ssa.Call
	Ctx  ssa.Value // the pointer argument passed to each task
}

// FindListLoops finds the functions that iterate over the list and call its elements.
func FindListLoops(tl *TaskList, fns []*ssa.Function) []ListLoop {
	var out []ListLoop
	for _, fn := range fns {
		for _, b := range fn.Blocks {
			for _, ins := range b.Instrs {
				u, ok := ins.(*ssa.UnOp)
				if !ok || u.Op != token.MUL || u.X != ssa.Value(tl.Global) {
					continue
				}
				// calls of elements: call whose value is a load of IndexAddr(u, _) or a range Next
				for _, b2 := range fn.Blocks {
					for _, i2 := range b2.Instrs {
						c, ok := i2.(*ssa.Call)
						if !ok || c.Call.IsInvoke() {
							continue
						}
						ld, ok := c.Call.Value.(*ssa.UnOp)
						if !ok || ld.Op != token.MUL {
							continue
						}
						ia, ok := ld.X.(*ssa.IndexAddr)
						if !ok || ia.X != ssa.Value(u) {
							continue
						}
						ll := ListLoop{Fn: fn, Load: u, Call: c}
						if len(c.Call.Args) == 1 {
							ll.Ctx = c.Call.Args[0]
						}
						out = append(out, ll)
					}
				}
			}
		}
	}
	return out
}

// StructFields lists the field names of the struct a pointer value designates.
func StructFields(t types.Type) []string {
	st, ok := derefType(t).Underlying().(*types.Struct)
	if !ok {
		return nil
	}
	var out []string
	for i := 0; i < st.NumFields(); i++ {
		out = append(out, st.Field(i).Name())
	}
	return out
}

// contentUsed: some use of the loaded value looks at its content (anything but len/cap of an array value and debug
// references).
func contentUsed(ld *ssa.UnOp) bool {
	refs := ld.Referrers()
	if refs == nil {
		return true
	}
	for _, r := range *refs {
		switch u := r.(type) {
		case *ssa.DebugRef:
			continue
		case *ssa.Call:
			if b, ok := u.Call.Value.(*ssa.Builtin); ok && (b.Name() == "len" || b.Name() == "cap") {
				if _, isArr := ld.Type().Underlying().(*types.Array); isArr {
					continue
				}
			}
		}
		return true
	}
	return false
}
