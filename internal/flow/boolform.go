package flow

import (
	"fmt"
	"go/token"
	"go/types"
	"sort"
	"strings"

	"golang.org/x/tools/go/ssa"
)

// Formula is a propositional formula over atoms; atoms are canonical strings of normalised comparisons
// or boolean terms. Formulas are compared by truth table, never by syntax.
type Formula struct {
	Op   string // atom const not and or
	Atom string
	T    *Term // the term behind an atom (diagnostics, purity)
	B    bool
	Args []*Formula
}

func FTrue() *Formula  { return &Formula{Op: "const", B: true} }
func FFalse() *Formula { return &Formula{Op: "const", B: false} }
func FAtom(name string, t *Term) *Formula {
	return &Formula{Op: "atom", Atom: name, T: t}
}
func FNot(f *Formula) *Formula {
	switch f.Op {
	case "const":
		return &Formula{Op: "const", B: !f.B}
	case "not":
		return f.Args[0]
	}
	return &Formula{Op: "not", Args: []*Formula{f}}
}
func FAnd(fs ...*Formula) *Formula {
	var out []*Formula
	for _, f := range fs {
		if f.Op == "const" {
			if !f.B {
				return FFalse()
			}
			continue
		}
		if f.Op == "and" {
			out = append(out, f.Args...)
			continue
		}
		out = append(out, f)
	}
	switch len(out) {
	case 0:
		return FTrue()
	case 1:
		return out[0]
	}
	return &Formula{Op: "and", Args: out}
}
func FOr(fs ...*Formula) *Formula {
	var out []*Formula
	for _, f := range fs {
		if f.Op == "const" {
			if f.B {
				return FTrue()
			}
			continue
		}
		if f.Op == "or" {
			out = append(out, f.Args...)
			continue
		}
		out = append(out, f)
	}
	switch len(out) {
	case 0:
		return FFalse()
	case 1:
		return out[0]
	}
	return &Formula{Op: "or", Args: out}
}

func (f *Formula) String() string {
	switch f.Op {
	case "const":
		return fmt.Sprint(f.B)
	case "atom":
		return f.Atom
	case "not":
		return "!" + f.Args[0].String()
	}
	ss := make([]string, len(f.Args))
	for i, a := range f.Args {
		ss[i] = a.String()
	}
	sep := " && "
	if f.Op == "or" {
		sep = " || "
	}
	return "(" + strings.Join(ss, sep) + ")"
}

// Eval evaluates under an assignment (missing atoms are false).
func (f *Formula) Eval(as map[string]bool) bool {
	switch f.Op {
	case "const":
		return f.B
	case "atom":
		return as[f.Atom]
	case "not":
		return !f.Args[0].Eval(as)
	case "and":
		for _, a := range f.Args {
			if !a.Eval(as) {
				return false
			}
		}
		return true
	case "or":
		for _, a := range f.Args {
			if a.Eval(as) {
				return true
			}
		}
		return false
	}
	return false
}

// Atoms lists the atoms of a formula with their terms.
func (f *Formula) Atoms() map[string]*Term {
	out := map[string]*Term{}
	var walk func(*Formula)
	walk = func(g *Formula) {
		if g.Op == "atom" {
			out[g.Atom] = g.T
		}
		for _, a := range g.Args {
			walk(a)
		}
	}
	walk(f)
	return out
}

// Assign substitutes a constant for an atom and simplifies.
func (f *Formula) Assign(atom string, val bool) *Formula {
	switch f.Op {
	case "const":
		return f
	case "atom":
		if f.Atom == atom {
			return &Formula{Op: "const", B: val}
		}
		return f
	case "not":
		return FNot(f.Args[0].Assign(atom, val))
	}
	var as []*Formula
	for _, a := range f.Args {
		as = append(as, a.Assign(atom, val))
	}
	if f.Op == "and" {
		return FAnd(as...)
	}
	return FOr(as...)
}

// cmpAtom is an atom of the form  subj == k,  k < subj,  subj < k,  k <= subj,  subj <= k  (k an integer
// constant). Atoms over the same subject are not independent; Compare enumerates values of the subject for
// them instead of independent truth values.
type cmpAtom struct {
	subj      string
	op        string
	k         int64
	constLeft bool
}

func parseCmp(t *Term) (cmpAtom, bool) {
	if t == nil || t.Op != "bin" || len(t.Args) != 2 {
		return cmpAtom{}, false
	}
	switch t.Val {
	case "==", "<", "<=":
	default:
		return cmpAtom{}, false
	}
	isInt := func(x *Term) (int64, bool) {
		if x.Op != "const" {
			return 0, false
		}
		var k int64
		if _, err := fmt.Sscanf(x.Val, "%d", &k); err != nil || fmt.Sprint(k) != x.Val {
			return 0, false
		}
		return k, true
	}
	if k, ok := isInt(t.Args[1]); ok {
		if _, both := isInt(t.Args[0]); both {
			return cmpAtom{}, false
		}
		return cmpAtom{subj: t.Args[0].String(), op: t.Val, k: k}, true
	}
	if k, ok := isInt(t.Args[0]); ok {
		return cmpAtom{subj: t.Args[1].String(), op: t.Val, k: k, constLeft: true}, true
	}
	return cmpAtom{}, false
}

func (c cmpAtom) eval(v int64) bool {
	l, r := v, c.k
	if c.constLeft {
		l, r = c.k, v
	}
	switch c.op {
	case "==":
		return l == r
	case "<":
		return l < r
	}
	return l <= r
}

// Compare decides whether f and g are equivalent. Independent atoms are enumerated by truth value; atoms
// that compare one subject term with integer constants are enumerated by value of the subject (the
// constants and their neighbours), which is exact for such comparisons. It returns the atoms on which they
// were compared and, when they differ, one distinguishing assignment.
func Compare(f, g *Formula) (equal bool, witness string, atoms []string) {
	terms := map[string]*Term{}
	for a, t := range f.Atoms() {
		terms[a] = t
	}
	for a, t := range g.Atoms() {
		if _, ok := terms[a]; !ok || terms[a] == nil {
			terms[a] = t
		}
	}
	for a := range terms {
		atoms = append(atoms, a)
	}
	sort.Strings(atoms)
	groups := map[string][]string{}
	parsed := map[string]cmpAtom{}
	for _, a := range atoms {
		if c, ok := parseCmp(terms[a]); ok {
			parsed[a] = c
			groups[c.subj] = append(groups[c.subj], a)
		}
	}
	var free []string
	var subjects []string
	for _, a := range atoms {
		c, ok := parsed[a]
		if ok && len(groups[c.subj]) >= 2 {
			continue
		}
		free = append(free, a)
	}
	for sname, as := range groups {
		if len(as) >= 2 {
			subjects = append(subjects, sname)
		}
	}
	sort.Strings(subjects)
	cands := map[string][]int64{}
	total := 1 << uint(len(free))
	if len(free) > 16 {
		return false, "too many atoms", atoms
	}
	for _, sname := range subjects {
		set := map[int64]bool{}
		for _, a := range groups[sname] {
			k := parsed[a].k
			set[k-1], set[k], set[k+1] = true, true, true
		}
		var vs []int64
		for v := range set {
			vs = append(vs, v)
		}
		sort.Slice(vs, func(i, j int) bool {
			if (vs[i] < 0) != (vs[j] < 0) {
				return vs[j] < 0
			}
			return vs[i] < vs[j]
		})
		cands[sname] = vs
		total *= len(vs)
		if total > 1<<20 {
			return false, "too many cases", atoms
		}
	}
	as := map[string]bool{}
	idx := make([]int, len(subjects))
	for {
		for si, sname := range subjects {
			v := cands[sname][idx[si]]
			for _, a := range groups[sname] {
				as[a] = parsed[a].eval(v)
			}
		}
		for m := 0; m < 1<<uint(len(free)); m++ {
			for i, a := range free {
				as[a] = m&(1<<uint(i)) != 0
			}
			if f.Eval(as) != g.Eval(as) {
				var ss []string
				for si, sname := range subjects {
					ss = append(ss, fmt.Sprintf("%s=%d", sname, cands[sname][idx[si]]))
				}
				for _, a := range free {
					ss = append(ss, fmt.Sprintf("%s=%v", a, as[a]))
				}
				return false, fmt.Sprintf("%s: got %v, required %v", strings.Join(ss, ", "), f.Eval(as), g.Eval(as)), atoms
			}
		}
		// next combination of subject values
		k := 0
		for k < len(subjects) {
			idx[k]++
			if idx[k] < len(cands[subjects[k]]) {
				break
			}
			idx[k] = 0
			k++
		}
		if k == len(subjects) {
			break
		}
	}
	return true, "", atoms
}

// Linked reports whether atom a compares the same subject with a constant as some atom of the set.
func Linked(a *Term, set map[string]*Term) bool {
	c, ok := parseCmp(a)
	if !ok {
		return false
	}
	for _, t := range set {
		if d, ok := parseCmp(t); ok && d.subj == c.subj {
			return true
		}
	}
	return false
}

// DependsOn reports whether the truth value of f can change with the given atom.
func (f *Formula) DependsOn(atom string) bool {
	eq, _, _ := Compare(f.Assign(atom, true), f.Assign(atom, false))
	return !eq
}

// Satisfiable by truth table.
func (f *Formula) Satisfiable() bool {
	eq, _, _ := Compare(f, FFalse())
	return !eq
}

// ---------------------------------------------------------------------------
// from SSA

// Bool turns a boolean SSA value into a formula. Comparisons are normalised:
//
//	a != b → !(a == b);  a > b → b < a;  a >= b → b <= a;  constants on the right for ==;
//	for unsigned/len operands: x > 0, x >= 1, x != 0 → !(x == 0);  x < 1, x <= 0 → x == 0;
//	len(s) == 0 for a string s → s == "".
func (e *Eval) Bool(v ssa.Value) *Formula {
	return e.boolDepth(v, 0)
}

func (e *Eval) boolDepth(v ssa.Value, depth int) *Formula {
	if depth > 12 {
		t := e.Term(v)
		return FAtom(t.String(), t)
	}
	switch x := v.(type) {
	case *ssa.Const:
		if x.Value != nil {
			return &Formula{Op: "const", B: x.Value.ExactString() == "true"}
		}
	case *ssa.UnOp:
		if x.Op == token.NOT {
			return FNot(e.boolDepth(x.X, depth+1))
		}
	case *ssa.Phi:
		if f := e.phiFormula(x, depth); f != nil {
			return f
		}
	case *ssa.BinOp:
		if f := e.cmpFormula(x, depth); f != nil {
			return f
		}
	}
	t := e.Term(v)
	return FAtom(t.String(), t)
}

func isNonNegative(v ssa.Value) bool {
	if b, ok := v.Type().Underlying().(*types.Basic); ok && b.Info()&types.IsUnsigned != 0 {
		return true
	}
	if c, ok := v.(*ssa.Call); ok {
		if bi, ok := c.Call.Value.(*ssa.Builtin); ok && (bi.Name() == "len" || bi.Name() == "cap") {
			return true
		}
	}
	return false
}

func isBoolType(t types.Type) bool {
	b, ok := t.Underlying().(*types.Basic)
	return ok && b.Info()&types.IsBoolean != 0
}

func (e *Eval) cmpFormula(x *ssa.BinOp, depth int) *Formula {
	L, R, op := x.X, x.Y, x.Op
	switch op {
	case token.EQL, token.NEQ, token.LSS, token.LEQ, token.GTR, token.GEQ:
	case token.AND, token.OR:
		if isBoolType(x.Type()) {
			a, b := e.boolDepth(L, depth+1), e.boolDepth(R, depth+1)
			if op == token.AND {
				return FAnd(a, b)
			}
			return FOr(a, b)
		}
		return nil
	default:
		return nil
	}
	if isBoolType(L.Type()) && (op == token.EQL || op == token.NEQ) {
		a, b := e.boolDepth(L, depth+1), e.boolDepth(R, depth+1)
		eq := FOr(FAnd(a, b), FAnd(FNot(a), FNot(b)))
		if op == token.NEQ {
			return FNot(eq)
		}
		return eq
	}
	neg := false
	switch op {
	case token.NEQ:
		op, neg = token.EQL, true
	case token.GTR:
		L, R, op = R, L, token.LSS
	case token.GEQ:
		L, R, op = R, L, token.LEQ
	}
	lt, rt := e.Term(L), e.Term(R)
	kL, okL := constInt(L)
	kR, okR := constInt(R)
	// zero tests on non-negative operands
	if op == token.LSS && okL && kL == 0 && isNonNegative(R) { // 0 < x
		return maybeNot(!neg, e.eqZero(R, rt, x))
	}
	if op == token.LEQ && okL && kL == 1 && isNonNegative(R) { // 1 <= x
		return maybeNot(!neg, e.eqZero(R, rt, x))
	}
	if op == token.LSS && okR && kR == 1 && isNonNegative(L) { // x < 1
		return maybeNot(neg, e.eqZero(L, lt, x))
	}
	if op == token.LEQ && okR && kR == 0 && isNonNegative(L) { // x <= 0
		return maybeNot(neg, e.eqZero(L, lt, x))
	}
	if op == token.EQL {
		if okR && kR == 0 && isNonNegative(L) {
			return maybeNot(neg, e.eqZero(L, lt, x))
		}
		if okL && kL == 0 && isNonNegative(R) {
			return maybeNot(neg, e.eqZero(R, rt, x))
		}
		// constant (or lexicographically larger) operand on the right
		if _, isC := L.(*ssa.Const); isC {
			if _, isC2 := R.(*ssa.Const); !isC2 {
				lt, rt = rt, lt
			}
		} else if _, isC2 := R.(*ssa.Const); !isC2 && lt.String() > rt.String() {
			lt, rt = rt, lt
		}
		t := mk("bin", "==", lt, rt)
		t.Src = x
		return maybeNot(neg, FAtom(t.String(), t))
	}
	t := mk("bin", op.String(), lt, rt)
	t.Src = x
	return maybeNot(neg, FAtom(t.String(), t))
}

// eqZero builds the atom "x == 0", mapping len(s)==0 on strings to s == "".
func (e *Eval) eqZero(v ssa.Value, vt *Term, src ssa.Value) *Formula {
	if c, ok := v.(*ssa.Call); ok {
		if bi, ok := c.Call.Value.(*ssa.Builtin); ok && bi.Name() == "len" && len(c.Call.Args) == 1 {
			if b, ok := c.Call.Args[0].Type().Underlying().(*types.Basic); ok && b.Info()&types.IsString != 0 {
				t := mk("bin", "==", e.Term(c.Call.Args[0]), ConstString(""))
				t.Src = src
				return FAtom(t.String(), t)
			}
		}
	}
	t := mk("bin", "==", vt, ConstInt(0))
	t.Src = src
	return FAtom(t.String(), t)
}

func maybeNot(neg bool, f *Formula) *Formula {
	if neg {
		return FNot(f)
	}
	return f
}

func constInt(v ssa.Value) (int64, bool) {
	c, ok := v.(*ssa.Const)
	if !ok || c.Value == nil {
		return 0, false
	}
	if b, ok := c.Type().Underlying().(*types.Basic); !ok || b.Info()&types.IsInteger == 0 {
		return 0, false
	}
	s := c.Value.ExactString()
	var k int64
	if _, err := fmt.Sscan(s, &k); err != nil {
		return 0, false
	}
	return k, true
}

// EdgeCond is the condition under which control flows from block p to its successor s.
func (e *Eval) EdgeCond(p, s *ssa.BasicBlock) *Formula {
	if len(p.Instrs) == 0 {
		return FTrue()
	}
	ifi, ok := p.Instrs[len(p.Instrs)-1].(*ssa.If)
	if !ok || len(p.Succs) != 2 || p.Succs[0] == p.Succs[1] {
		return FTrue()
	}
	c := e.Bool(ifi.Cond)
	if p.Succs[0] == s {
		return c
	}
	return FNot(c)
}

// PathCond is the condition under which block b is reached from block `from` (which must dominate b),
// ignoring back edges (i.e. for the first arrival). from == nil means the function entry.
func (e *Eval) PathCond(b, from *ssa.BasicBlock) *Formula {
	if from == nil {
		from = e.Fn.Blocks[0]
	}
	memo := map[*ssa.BasicBlock]*Formula{}
	var pc func(x *ssa.BasicBlock, depth int) *Formula
	pc = func(x *ssa.BasicBlock, depth int) *Formula {
		if x == from {
			return FTrue()
		}
		if f, ok := memo[x]; ok {
			return f
		}
		memo[x] = FFalse() // cycle guard
		var alts []*Formula
		for _, p := range x.Preds {
			if x.Dominates(p) { // back edge
				continue
			}
			if !from.Dominates(p) {
				continue
			}
			alts = append(alts, FAnd(pc(p, depth+1), e.EdgeCond(p, x)))
		}
		f := FOr(alts...)
		memo[x] = f
		return f
	}
	return pc(b, 0)
}

// phiFormula: OR over incoming edges of (edge condition relative to the immediate dominator ∧ value).
func (e *Eval) phiFormula(p *ssa.Phi, depth int) *Formula {
	b := p.Block()
	d := b.Idom()
	if d == nil {
		return nil
	}
	var alts []*Formula
	for i, ed := range p.Edges {
		pr := b.Preds[i]
		if b.Dominates(pr) {
			return nil // loop-carried boolean
		}
		alts = append(alts, FAnd(e.PathCond(pr, d), e.EdgeCond(pr, b), e.boolDepth(ed, depth+1)))
	}
	return FOr(alts...)
}

// gatedMerge turns a value merge into nested ite terms by Shannon expansion of the edge conditions
// (relative to the immediate dominator of the merge block).
func (e *Eval) gatedMerge(b *ssa.BasicBlock, preds []*ssa.BasicBlock, ts []*Term) *Term {
	d := b.Idom()
	if d == nil {
		return nil
	}
	type alt struct {
		f *Formula
		t *Term
	}
	var alts []alt
	atomTerm := map[string]*Term{}
	var order []string
	for i, pr := range preds {
		if b.Dominates(pr) {
			return nil
		}
		f := FAnd(e.PathCond(pr, d), e.EdgeCond(pr, b))
		for a, t := range f.Atoms() {
			if _, ok := atomTerm[a]; !ok {
				atomTerm[a] = t
				order = append(order, a)
			}
		}
		alts = append(alts, alt{f, ts[i]})
	}
	// deterministic atom order: by position of the defining instruction, then by name
	sort.SliceStable(order, func(i, j int) bool {
		pi, pj := token.NoPos, token.NoPos
		if t := atomTerm[order[i]]; t != nil && t.Src != nil {
			pi = t.Src.Pos()
		}
		if t := atomTerm[order[j]]; t != nil && t.Src != nil {
			pj = t.Src.Pos()
		}
		if pi != pj {
			return pi < pj
		}
		return order[i] < order[j]
	})
	var build func(as []alt, atoms []string, depth int) *Term
	build = func(as []alt, atoms []string, depth int) *Term {
		var live []alt
		for _, a := range as {
			if a.f.Satisfiable() {
				live = append(live, a)
			}
		}
		if len(live) == 0 {
			return nil
		}
		same := true
		for _, a := range live[1:] {
			if !a.t.Equal(live[0].t) {
				same = false
			}
		}
		if same {
			return live[0].t
		}
		if depth > 6 {
			return nil
		}
		// pick the first atom some alternative depends on
		for ai, at := range atoms {
			used := false
			for _, a := range live {
				if a.f.DependsOn(at) {
					used = true
				}
			}
			if !used {
				continue
			}
			var T, F []alt
			for _, a := range live {
				T = append(T, alt{a.f.Assign(at, true), a.t})
				F = append(F, alt{a.f.Assign(at, false), a.t})
			}
			rest := append(append([]string{}, atoms[:ai]...), atoms[ai+1:]...)
			tt, ft := build(T, rest, depth+1), build(F, rest, depth+1)
			if tt == nil || ft == nil {
				if tt == nil && ft != nil {
					return ft
				}
				if ft == nil && tt != nil {
					return tt
				}
				return nil
			}
			if tt.Equal(ft) {
				return tt
			}
			c := atomTerm[at]
			if c == nil {
				c = mk("opaque", at)
			}
			return mk("ite", "", c, tt, ft)
		}
		return nil
	}
	return build(alts, order, 0)
}

// Fact is a branch condition that holds at a program point.
type Fact struct {
	F *Formula
}

// DomFacts returns the formulas implied by the branches that dominate block b (conjunction holds in b).
func (e *Eval) DomFacts(b *ssa.BasicBlock) []*Formula {
	var out []*Formula
	for x := b; x != nil; x = x.Idom() {
		d := x.Idom()
		if d == nil {
			break
		}
		if len(d.Instrs) == 0 {
			continue
		}
		ifi, ok := d.Instrs[len(d.Instrs)-1].(*ssa.If)
		if !ok || len(d.Succs) != 2 {
			continue
		}
		t, f := d.Succs[0], d.Succs[1]
		if t == f {
			continue
		}
		if len(t.Preds) == 1 && t.Dominates(x) {
			out = append(out, e.Bool(ifi.Cond))
		} else if len(f.Preds) == 1 && f.Dominates(x) {
			out = append(out, FNot(e.Bool(ifi.Cond)))
		}
	}
	return out
}

// Implies decides f ⇒ g by truth table.
func Implies(f, g *Formula) bool {
	eq, _, _ := Compare(FAnd(f, FNot(g)), FFalse())
	return eq
}

// NilTest is the atom "v == nil" in canonical form.
func (e *Eval) NilTest(v ssa.Value) *Formula {
	t := mk("bin", "==", e.Term(v), Nil())
	return FAtom(t.String(), t)
}

// AtomOf wraps a boolean term as an atom.
func AtomOf(t *Term) *Formula { return FAtom(t.String(), t) }

// Eq builds the canonical equality atom (a == b) with the operand order used by Bool: constants on the
// right, otherwise lexicographic.
func Eq(a, b *Term) *Formula {
	if a.Op == "const" && b.Op != "const" {
		a, b = b, a
	} else if a.Op != "const" && b.Op != "const" && a.String() > b.String() {
		a, b = b, a
	}
	t := mk("bin", "==", a, b)
	return FAtom(t.String(), t)
}

// Bin builds a binary term.
func Bin(op string, a, b *Term) *Term { return mk("bin", op, a, b) }

// Call builds a call term.
func Call(name string, args ...*Term) *Term { return mk("call", name, args...) }

// Extract builds t#i.
func Extract(t *Term, i int) *Term { return mk("extract", fmt.Sprint(i), t) }

// Assert builds x.(T).
func Assert(x *Term, typ string) *Term { return mk("assert", typ, x) }

// Deref builds deref(t).
func Deref(t *Term) *Term { return mk("deref", "", t) }

// SliceOf builds t[lo:hi] ("" for an absent bound).
func SliceOf(t *Term, lo, hi *Term) *Term {
	if lo == nil {
		lo = mk("const", "")
	}
	if hi == nil {
		hi = mk("const", "")
	}
	return mk("slice", "", t, lo, hi)
}

// Conv builds conv<T>(t).
func Conv(typ string, t *Term) *Term { return mk("conv", typ, t) }

// After builds after(callee; t): the content of an object after a call that may have modified it.
func After(callee string, t *Term) *Term { return mk("after", callee, t) }

// CopyOf builds copyof(t): the content of an object after copy(obj[:], t).
func CopyOf(t *Term) *Term { return mk("copyof", "", t) }

// Addr builds addr(t): the address of the object whose content/designator is t.
func Addr(t *Term) *Term { return mk("addr", "", t) }

// Pretty renders an equivalent, minimised disjunctive normal form (Quine–McCluskey with a greedy cover)
// for display; formulas over more than 10 atoms are printed as they are.
func (f *Formula) Pretty() string {
	am := f.Atoms()
	atoms := make([]string, 0, len(am))
	for a := range am {
		atoms = append(atoms, a)
	}
	sort.Strings(atoms)
	n := len(atoms)
	if n == 0 {
		return fmt.Sprint(f.Eval(nil))
	}
	if n > 10 {
		return f.String()
	}
	type imp struct{ val, mask uint } // mask bit set = don't care
	var minterms []uint
	as := map[string]bool{}
	for m := uint(0); m < 1<<uint(n); m++ {
		for i, a := range atoms {
			as[a] = m&(1<<uint(i)) != 0
		}
		if f.Eval(as) {
			minterms = append(minterms, m)
		}
	}
	if len(minterms) == 0 {
		return "false"
	}
	if len(minterms) == 1<<uint(n) {
		return "true"
	}
	cur := map[imp]bool{}
	for _, m := range minterms {
		cur[imp{m, 0}] = true
	}
	var primes []imp
	for len(cur) > 0 {
		next := map[imp]bool{}
		used := map[imp]bool{}
		list := make([]imp, 0, len(cur))
		for x := range cur {
			list = append(list, x)
		}
		for i := 0; i < len(list); i++ {
			for j := i + 1; j < len(list); j++ {
				a, b := list[i], list[j]
				if a.mask != b.mask {
					continue
				}
				d := a.val ^ b.val
				if d != 0 && d&(d-1) == 0 {
					next[imp{a.val &^ d, a.mask | d}] = true
					used[a], used[b] = true, true
				}
			}
		}
		for _, x := range list {
			if !used[x] {
				primes = append(primes, x)
			}
		}
		cur = next
	}
	covers := func(p imp, m uint) bool { return (m &^ p.mask) == p.val }
	sort.Slice(primes, func(i, j int) bool {
		if primes[i].mask != primes[j].mask {
			return primes[i].mask > primes[j].mask
		}
		return primes[i].val < primes[j].val
	})
	left := map[uint]bool{}
	for _, m := range minterms {
		left[m] = true
	}
	var chosen []imp
	for len(left) > 0 {
		best, bestN := -1, 0
		for i, p := range primes {
			k := 0
			for m := range left {
				if covers(p, m) {
					k++
				}
			}
			if k > bestN {
				best, bestN = i, k
			}
		}
		if best < 0 {
			break
		}
		chosen = append(chosen, primes[best])
		for m := range left {
			if covers(primes[best], m) {
				delete(left, m)
			}
		}
	}
	var terms []string
	for _, p := range chosen {
		var lits []string
		for i, a := range atoms {
			bit := uint(1) << uint(i)
			if p.mask&bit != 0 {
				continue
			}
			if p.val&bit != 0 {
				lits = append(lits, a)
			} else {
				lits = append(lits, "!"+a)
			}
		}
		if len(lits) == 0 {
			return "true"
		}
		terms = append(terms, strings.Join(lits, " && "))
	}
	sort.Strings(terms)
	if len(terms) == 1 {
		return terms[0]
	}
	return "(" + strings.Join(terms, ") || (") + ")"
}

// ---------------------------------------------------------------------------
// helper success facts

// MapTerms rebuilds the formula with f applied to the term behind every atom (equalities are re-canonicalised).
func (f *Formula) MapTerms(fn func(*Term) *Term) *Formula {
	switch f.Op {
	case "const":
		return f
	case "atom":
		if f.T == nil {
			return f
		}
		t := fn(f.T)
		if t.Op == "bin" && t.Val == "==" && len(t.Args) == 2 {
			g := Eq(t.Args[0], t.Args[1])
			g.T.Src = f.T.Src
			return g
		}
		return FAtom(t.String(), t)
	case "not":
		return FNot(f.Args[0].MapTerms(fn))
	}
	var as []*Formula
	for _, a := range f.Args {
		as = append(as, a.MapTerms(fn))
	}
	if f.Op == "and" {
		return FAnd(as...)
	}
	return FOr(as...)
}

var successBusy = map[*ssa.Function]bool{}

// definitelyNonNilError: the returned error value cannot be nil at this return.
func (e *Eval) definitelyNonNilError(r *ssa.Return, v ssa.Value) bool {
	if IsNilConst(v) {
		return false
	}
	if _, isMI := v.(*ssa.MakeInterface); isMI {
		return true // a concrete value stored into the error (a typed error): never the nil interface
	}
	pc := e.PathCond(r.Block(), nil)
	t := e.Select(v, nil, r)
	if t.Op == "call" {
		switch t.Val {
		case "errors.New", "fmt.Errorf", "pkgerrors.New", "pkgerrors.Errorf":
			return true
		case "pkgerrors.Wrap", "pkgerrors.Wrapf", "pkgerrors.WithStack", "pkgerrors.WithMessage":
			// Wrap(nil, …) is nil: the wrapped value must be known non-nil here
			if c, ok := v.(*ssa.Call); ok && len(c.Call.Args) > 0 {
				return Implies(pc, FNot(e.NilTest(c.Call.Args[0])))
			}
			return false
		}
	}
	if g, ok := v.(*ssa.UnOp); ok && g.Op == token.MUL {
		if _, isG := g.X.(*ssa.Global); isG {
			return true // a package-level error variable (assumed initialised, as everywhere in these rules)
		}
	}
	return Implies(pc, FNot(e.NilTest(v)))
}

// successCond: for an in-module function with a trailing error result, a formula over its own parameters that holds
// whenever it returns a nil error: the disjunction of the path conditions of the returns whose error may be nil.
// Atoms over values that are not functions of the parameters (memory merges, opaque values) are quantified away
// (weakening). nil when nothing useful is known.
func successCond(g *ssa.Function) *Formula {
	if g == nil || !InModule(g) || successBusy[g] {
		return nil
	}
	res := g.Signature.Results()
	if res.Len() == 0 || !IsErrorType(res.At(res.Len()-1).Type()) {
		return nil
	}
	successBusy[g] = true
	defer delete(successBusy, g)
	ge := For(g)
	out := FFalse()
	n := 0
	for _, b := range g.Blocks {
		r, ok := b.Instrs[len(b.Instrs)-1].(*ssa.Return)
		if !ok {
			continue
		}
		n++
		if ge.definitelyNonNilError(r, r.Results[res.Len()-1]) {
			continue
		}
		out = FOr(out, ge.Strengthen(ge.PathCond(b, nil)))
	}
	if n == 0 {
		return nil
	}
	// quantify away atoms that are not pure functions of the parameters
	for i := 0; i < 8; i++ {
		dirty := ""
		for name, t := range out.Atoms() {
			if t == nil || t.IsUnknown() || t.Has(func(x *Term) bool {
				switch x.Op {
				case "opaque", "phi", "loop", "alloc", "closure", "after", "copyof", "makeslice", "makemap", "deref":
					return true
				}
				return false
			}) {
				if dirty == "" || name < dirty {
					dirty = name
				}
			}
		}
		if dirty == "" {
			break
		}
		out = FOr(out.Assign(dirty, true), out.Assign(dirty, false))
	}
	if len(out.Atoms()) > 6 {
		return nil
	}
	return out
}

// Strengthen conjoins, for every atom of pc that says "the error of a call of an in-module helper is nil", the fact
// that this implies: the helper's success condition with the arguments substituted. It lets a rule about
// `v, err := helper(x); if err != nil { return err }; use(v)` conclude what held inside the helper on its
// successful return (e.g. that the library call it wraps did not fail).
func (e *Eval) Strengthen(pc *Formula) *Formula {
	if pc == nil {
		return pc
	}
	atoms := pc.Atoms()
	if len(atoms) == 0 {
		return pc
	}
	if e.errAtoms == nil {
		e.errAtoms = map[string]*ssa.Call{}
		for _, b := range e.Fn.Blocks {
			for _, ins := range b.Instrs {
				c, ok := ins.(*ssa.Call)
				if !ok {
					continue
				}
				g := c.Call.StaticCallee()
				if g == nil || !InModule(g) || g == e.Fn {
					continue
				}
				res := g.Signature.Results()
				if res.Len() == 0 || !IsErrorType(res.At(res.Len()-1).Type()) {
					continue
				}
				var ev ssa.Value
				if res.Len() == 1 {
					ev = c
				} else if refs := c.Referrers(); refs != nil {
					for _, rr := range *refs {
						if ex, ok := rr.(*ssa.Extract); ok && ex.Index == res.Len()-1 {
							ev = ex
						}
					}
				}
				if ev != nil {
					e.errAtoms[e.NilTest(ev).Atom] = c
				}
			}
		}
	}
	var names []string
	for name := range atoms {
		if _, ok := e.errAtoms[name]; ok {
			names = append(names, name)
		}
	}
	sort.Strings(names)
	out := pc
	for _, name := range names {
		c := e.errAtoms[name]
		g := c.Call.StaticCallee()
		s := successCond(g)
		if s == nil || len(g.Params) != len(c.Call.Args) {
			continue
		}
		var args []*Term
		for _, a := range c.Call.Args {
			arg := e.argTerm(a, c)
			if arg.Op == "addr" && len(arg.Args) == 1 {
				arg = arg.Args[0]
			}
			args = append(args, arg)
		}
		inst := s.MapTerms(func(t *Term) *Term {
			o := t
			for i := range args {
				o = o.Subst(Param(i), mk("param", fmt.Sprintf("__%d", i)))
			}
			for i, a := range args {
				o = o.Subst(mk("param", fmt.Sprintf("__%d", i)), a)
			}
			return SelectRecFields(o)
		})
		out = FAnd(out, FOr(FNot(FAtom(name, atoms[name])), inst))
	}
	return out
}

// PathCondS is PathCond from the function entry, strengthened with helper success facts (see Strengthen).
func (e *Eval) PathCondS(b *ssa.BasicBlock) *Formula { return e.Strengthen(e.PathCond(b, nil)) }
