package flow

import (
	"go/ast"
	"go/importer"
	"go/parser"
	"go/token"
	"go/types"

	"golang.org/x/tools/go/ssa"
	"golang.org/x/tools/go/ssa/ssautil"
)

// BuildFixture type-checks a single-file package given as source text (standard-library imports only) and
// builds its SSA in process. It is used for the positive fixtures that show a matcher can fire; nothing
// is executed.
func BuildFixture(path, src string) (*ssa.Package, *types.Info, *ast.File, error) {
	fset := token.NewFileSet()
	f, err := parser.ParseFile(fset, path+".go", src, parser.ParseComments)
	if err != nil {
		return nil, nil, nil, err
	}
	pkg := types.NewPackage(path, f.Name.Name)
	imp := importer.ForCompiler(fset, "source", nil)
	sp, info, err := ssautil.BuildPackage(&types.Config{Importer: imp}, fset, pkg, []*ast.File{f}, ssa.InstantiateGenerics)
	if err != nil {
		return nil, nil, nil, err
	}
	return sp, info, f, nil
}

// FixtureFunc finds a function or method ("T.M") of a fixture package.
func FixtureFunc(sp *ssa.Package, name string) *ssa.Function {
	for i := 0; i < len(name); i++ {
		if name[i] == '.' {
			tn, _ := sp.Pkg.Scope().Lookup(name[:i]).(*types.TypeName)
			if tn == nil {
				return nil
			}
			for _, T := range []types.Type{tn.Type(), types.NewPointer(tn.Type())} {
				ms := sp.Prog.MethodSets.MethodSet(T)
				for k := 0; k < ms.Len(); k++ {
					if ms.At(k).Obj().Name() == name[i+1:] {
						if fn := sp.Prog.MethodValue(ms.At(k)); fn != nil && fn.Synthetic == "" {
							return fn
						}
					}
				}
			}
			return nil
		}
	}
	return sp.Func(name)
}
