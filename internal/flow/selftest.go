package flow

import (
	"go/ast"

	"golang.org/x/tools/go/packages"
	"golang.org/x/tools/go/ssa"
)

// fxSrc is the positive fixture of the flow engine: small functions that contain exactly the defects the
// matchers look for (and their correct twins). It is analysed, never executed.
const fxSrc = `package fx

import (
	"errors"
	"math"
)

type Req struct{ Sender, Receiver string; ID uint32; Opt bool }
type Ans struct{ Sender, Receiver string; ID uint32; Code string }
type Keys struct{ Nwk, App [16]byte }

type ctx struct {
	req   Req
	other Req
	keys  Keys
	nonce uint32
	out   Ans
}

var ErrBad = errors.New("bad")

func derive(opt bool, key [16]byte, nonce uint32) ([16]byte, error) { return key, nil }

// ---- provenance through locals, struct literals and conditional stores
func Mirror(r Req, err error) Ans {
	base := Ans{Sender: r.Receiver, Receiver: r.Sender, ID: r.ID}
	a := Ans{Code: "Success"}
	if err != nil {
		code := "Other"
		if err == ErrBad {
			code = "Bad"
		}
		a = Ans{Code: code}
	}
	a.Sender = base.Sender
	a.Receiver = base.Receiver
	a.ID = base.ID
	return a
}

func NotMirrored(r Req) Ans { return Ans{Sender: r.Sender, Receiver: r.Receiver, ID: r.ID} }

// ---- gated argument
func PickKey(c *ctx) ([16]byte, error) {
	k := c.keys.Nwk
	if c.req.Opt {
		k = c.keys.App
	}
	return derive(c.req.Opt, k, c.nonce)
}

func nwkOf(c *ctx) [16]byte { return c.keys.Nwk }

func ViaHelper(c *ctx) ([16]byte, error) { return derive(c.req.Opt, nwkOf(c), c.nonce) }

// ---- error discipline
func step(c *ctx) error { return nil }

func Swallows(c *ctx) error {
	if err := step(c); err != nil {
		return nil
	}
	return nil
}

func Propagates(c *ctx) error {
	if err := step(c); err != nil {
		return err
	}
	return nil
}

// ---- guards
func Guard(label string, kek []byte) int {
	if label == "" || len(kek) == 0 {
		return 0
	}
	return 1
}

func GuardWeak(label string, kek []byte) int {
	if len(kek) == 0 {
		return 0
	}
	return 1
}

func GuardRewritten(label string, kek []byte) int {
	if !(len(label) > 0 && len(kek) >= 1) {
		return 0
	}
	return 1
}

func Port(p *uint8, up bool) bool { return !up && p != nil && *p > 0 }
func PortGt1(p *uint8, up bool) bool { return !up && p != nil && *p > 1 }

// ---- float
func Trunc(f float64) int { return int(f * 100) }
func Rounded(f float64) int { return int(math.Round(f * 100)) }

// ---- pipelines
func setReq(c *ctx) error   { c.nonce = c.req.ID; return nil }
func useOther(c *ctx) error { if c.other.Opt { c.out.Code = "x" }; return nil }
func finish(c *ctx) error   { c.out.ID = c.nonce; return nil }

var good = []func(*ctx) error{setReq, finish}
var bad = []func(*ctx) error{setReq, useOther, finish}

func runGood(r Req) (Ans, error) {
	c := ctx{req: r}
	for _, f := range good {
		if err := f(&c); err != nil {
			return c.out, err
		}
	}
	return c.out, nil
}

func runBad(r Req) (Ans, error) {
	c := ctx{req: r}
	for _, f := range bad {
		if err := f(&c); err != nil {
			return c.out, err
		}
	}
	return c.out, nil
}

// ---- ordering on paths
func a(c *ctx) {}
func b(c *ctx) {}

func Ordered(c *ctx, x bool) {
	if x {
		a(c)
	} else {
		a(c)
	}
	b(c)
}

func Bypass(c *ctx, x bool) {
	if x {
		a(c)
	}
	b(c)
}

// ---- loops
func Blocks(dst, src []byte) {
	for i := 0; i < len(src)/16; i++ {
		o := i * 16
		copy(dst[o:o+16], src[o:o+16])
	}
}
`

// SelfResult is the outcome of one matcher on the fixture.
type SelfResult struct {
	Name  string
	Fired bool // the matcher reported the seeded defect and stayed silent on the correct twin
	Got   string
}

// SelfTest runs the matchers on the built-in fixture. Properties whose rules are expected to report nothing
// on the real tree call it on every run: a matcher that cannot fire is a broken check, not a pass.
func SelfTest() ([]SelfResult, error) {
	old := ModulePrefix
	ModulePrefix = "fx"
	defer func() { ModulePrefix = old }()
	sp, info, file, err := BuildFixture("fx", fxSrc)
	if err != nil {
		return nil, err
	}
	var out []SelfResult
	add := func(name string, fired bool, got string) { out = append(out, SelfResult{name, fired, got}) }

	// error swallow
	_, b1 := ErrSwallows(sp.Func("Swallows"))
	_, b2 := ErrSwallows(sp.Func("Propagates"))
	add("err-swallow", len(b1) == 1 && len(b2) == 0, "")

	// field provenance (id mirroring)
	sel := func(fn string, f string) string {
		r := Returns(sp.Func(fn))[0]
		return For(sp.Func(fn)).Select(r.Results[0], []string{f}, r).String()
	}
	add("field-provenance", sel("Mirror", "Sender") == "$0.Receiver" && sel("NotMirrored", "Sender") == "$0.Sender", sel("Mirror", "Sender")+" / "+sel("NotMirrored", "Sender"))

	// gated argument and helper inlining
	s := Calls(sp.Func("PickKey"), Named("fx.derive"))
	h := Calls(sp.Func("ViaHelper"), Named("fx.derive"))
	okArg := len(s) == 1 && len(h) == 1 &&
		s[0].Args[1].Specialise(s[0].Args[0], true).String() == "$0.keys.App" &&
		s[0].Args[1].Specialise(s[0].Args[0], false).String() == "$0.keys.Nwk" &&
		h[0].Args[1].String() == "$0.keys.Nwk"
	add("argument-provenance", okArg, "")

	// guards by truth table
	guard := func(fn string) *Formula {
		e := For(sp.Func(fn))
		f := FFalse()
		for _, r := range Returns(sp.Func(fn)) {
			if e.Select(r.Results[0], nil, r).String() == "0" {
				f = FOr(f, e.PathCond(r.Block(), nil))
			}
		}
		return f
	}
	want := FOr(Eq(Param(0), ConstString("")), Eq(Call("len", Param(1)), ConstInt(0)))
	e1, _, _ := Compare(guard("Guard"), want)
	e2, _, _ := Compare(guard("GuardWeak"), want)
	e3, _, _ := Compare(guard("GuardRewritten"), want)
	add("guard-truth-table", e1 && !e2 && e3, "")

	// pipeline def-use
	pk := &packages.Package{Syntax: []*ast.File{file}, TypesInfo: info, Types: sp.Pkg}
	unw := map[string][]string{}
	for _, tl := range TaskLists(pk, sp.Prog, sp) {
		loops := FindListLoops(tl, PackageFuncs(sp.Prog, sp))
		if len(loops) != 1 || len(tl.Problems) > 0 {
			continue
		}
		e := For(loops[0].Fn)
		var written [][]string
		for _, f := range StructFields(loops[0].Ctx.Type()) {
			if e.SelectAddr(loops[0].Ctx, []string{f}, loops[0].Load).Op != "zero" {
				written = append(written, []string{f})
			}
		}
		unw[tl.Name] = []string{}
		for _, task := range tl.Tasks {
			acc, _ := ParamAccesses(task, 0, InModule)
			for _, a := range acc {
				if a.Kind != "read" {
					continue
				}
				ok := false
				for _, w := range written {
					if Covers(w, a.Path) {
						ok = true
					}
				}
				if !ok {
					unw[tl.Name] = append(unw[tl.Name], task.Name()+":"+a.PathString())
				}
			}
			for _, a := range acc {
				if a.Kind != "read" {
					written = append(written, a.Path)
				}
			}
		}
	}
	g, okG := unw["good"]
	bd, okB := unw["bad"]
	add("pipeline-def-use", okG && okB && len(g) == 0 && len(bd) == 1 && bd[0] == "useOther:other.Opt", "")

	// ordering on all paths
	paths := func(fn string) bool {
		f := sp.Func(fn)
		var through []ssa.Instruction
		for _, s := range Calls(f, Named("fx.a")) {
			through = append(through, s.Instr)
		}
		return AllPathsThrough(f, through, Calls(f, Named("fx.b"))[0].Instr)
	}
	add("all-paths-through", paths("Ordered") && !paths("Bypass"), "")
	return out, nil
}
