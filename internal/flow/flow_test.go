package flow

import (
	"go/ast"
	"strings"
	"testing"

	"golang.org/x/tools/go/packages"
	"golang.org/x/tools/go/ssa"
)

// The fixture (selftest.go: fxSrc) is Go source text that is type-checked and turned into SSA in process;
// nothing is run.

func build(t *testing.T) *ssa.Package {
	t.Helper()
	old := ModulePrefix
	ModulePrefix = "fx"
	t.Cleanup(func() { ModulePrefix = old })
	sp, _, _, err := BuildFixture("fx", fxSrc)
	if err != nil {
		t.Fatal(err)
	}
	return sp
}

func resultField(t *testing.T, fn *ssa.Function, path ...string) []string {
	e := For(fn)
	var out []string
	for _, r := range Returns(fn) {
		out = append(out, e.Select(r.Results[0], path, r).String())
	}
	return out
}

func TestFieldProvenance(t *testing.T) {
	sp := build(t)
	fn := sp.Func("Mirror")
	if got := resultField(t, fn, "Sender"); len(got) != 1 || got[0] != "$0.Receiver" {
		t.Errorf("Mirror Sender = %v", got)
	}
	if got := resultField(t, fn, "Receiver"); got[0] != "$0.Sender" {
		t.Errorf("Mirror Receiver = %v", got)
	}
	code := For(fn).Select(Returns(fn)[0].Results[0], []string{"Code"}, Returns(fn)[0])
	errNil := Bin("==", Param(1), Nil())
	isBad := Bin("==", Param(1), Global("fx.ErrBad"))
	if got := code.Specialise(errNil, true).String(); got != `"Success"` {
		t.Errorf("code on success = %s (term %s)", got, code)
	}
	if got := code.Specialise(errNil, false).Specialise(isBad, true).String(); got != `"Bad"` {
		t.Errorf("code on ErrBad = %s (term %s)", got, code)
	}
	if got := code.Specialise(errNil, false).Specialise(isBad, false).String(); got != `"Other"` {
		t.Errorf("code on other errors = %s (term %s)", got, code)
	}
	// the matcher can fire: ids not swapped
	if got := resultField(t, sp.Func("NotMirrored"), "Sender"); got[0] != "$0.Sender" {
		t.Errorf("NotMirrored Sender = %v", got)
	}
}

func TestGatedArgumentAndInlining(t *testing.T) {
	sp := build(t)
	fn := sp.Func("PickKey")
	s := Calls(fn, Named("fx.derive"))
	if len(s) != 1 {
		t.Fatalf("sites: %d", len(s))
	}
	flag := s[0].Args[0]
	if flag.String() != "$0.req.Opt" {
		t.Errorf("flag = %s", flag)
	}
	if got := s[0].Args[1].Specialise(flag, true).String(); got != "$0.keys.App" {
		t.Errorf("key under opt = %s (%s)", got, s[0].Args[1])
	}
	if got := s[0].Args[1].Specialise(flag, false).String(); got != "$0.keys.Nwk" {
		t.Errorf("key under !opt = %s (%s)", got, s[0].Args[1])
	}
	h := Calls(sp.Func("ViaHelper"), Named("fx.derive"))
	if got := h[0].Args[1].String(); got != "$0.keys.Nwk" {
		t.Errorf("helper not inlined: %s", got)
	}
}

func TestErrSwallow(t *testing.T) {
	sp := build(t)
	if n, bad := ErrSwallows(sp.Func("Swallows")); n != 1 || len(bad) != 1 {
		t.Errorf("Swallows: branches=%d bad=%d", n, len(bad))
	}
	if n, bad := ErrSwallows(sp.Func("Propagates")); n != 1 || len(bad) != 0 {
		t.Errorf("Propagates: branches=%d bad=%d", n, len(bad))
	}
}

func guardOf(fn *ssa.Function, want string) *Formula {
	e := For(fn)
	f := FFalse()
	for _, r := range Returns(fn) {
		if e.Select(r.Results[0], nil, r).String() == want {
			f = FOr(f, e.PathCond(r.Block(), nil))
		}
	}
	return f
}

func TestGuardTruthTables(t *testing.T) {
	sp := build(t)
	A := Eq(Param(0), ConstString(""))
	B := Eq(Call("len", Param(1)), ConstInt(0))
	want := FOr(A, B)
	if eq, w, _ := Compare(guardOf(sp.Func("Guard"), "0"), want); !eq {
		t.Errorf("Guard differs: %s", w)
	}
	if eq, _, _ := Compare(guardOf(sp.Func("GuardWeak"), "0"), want); eq {
		t.Errorf("GuardWeak must differ from label==\"\" || len(kek)==0")
	}
	if eq, w, _ := Compare(guardOf(sp.Func("GuardRewritten"), "0"), want); !eq {
		t.Errorf("De Morgan / len rewrite must be equivalent: %s", w)
	}
	// linked comparison atoms: *p > 0 vs *p > 1 differ, decided by value enumeration
	e0, e1 := For(sp.Func("Port")), For(sp.Func("PortGt1"))
	f0 := e0.Bool(Returns(sp.Func("Port"))[0].Results[0])
	f1 := e1.Bool(Returns(sp.Func("PortGt1"))[0].Results[0])
	if eq, _, _ := Compare(f0, f1); eq {
		t.Errorf("*p > 0 and *p > 1 must not be equivalent:\n %s\n %s", f0, f1)
	}
	wantPort := FAnd(FNot(AtomOf(Param(1))), FNot(Eq(Param(0), Nil())), FNot(Eq(Deref(Param(0)), ConstInt(0))))
	if eq, w, _ := Compare(f0, wantPort); !eq {
		t.Errorf("Port guard: %s\n got %s", w, f0)
	}
	if !strings.Contains(want.Pretty(), "||") {
		t.Errorf("Pretty: %s", want.Pretty())
	}
}

func TestPipelineDefUse(t *testing.T) {
	sp := build(t)
	_, info, file, err := BuildFixture("fx", fxSrc)
	if err != nil {
		t.Fatal(err)
	}
	_ = info
	// TaskLists needs the typed AST of the same build as the SSA package: rebuild both together
	sp2, info2, file2, err := BuildFixture("fx", fxSrc)
	if err != nil {
		t.Fatal(err)
	}
	_, _ = sp, file
	pk := &packages.Package{Syntax: []*ast.File{file2}, TypesInfo: info2, Types: sp2.Pkg}
	old := ModulePrefix
	ModulePrefix = "fx"
	defer func() { ModulePrefix = old }()
	lists := TaskLists(pk, sp2.Prog, sp2)
	if len(lists) != 2 {
		t.Fatalf("lists: %d", len(lists))
	}
	unwritten := func(tl *TaskList) []string {
		loops := FindListLoops(tl, PackageFuncs(sp2.Prog, sp2))
		if len(loops) != 1 {
			t.Fatalf("%s: %d loops", tl.Name, len(loops))
		}
		e := For(loops[0].Fn)
		written := [][]string{}
		for _, f := range StructFields(loops[0].Ctx.Type()) {
			if e.SelectAddr(loops[0].Ctx, []string{f}, loops[0].Load).Op != "zero" {
				written = append(written, []string{f})
			}
		}
		var out []string
		for _, task := range tl.Tasks {
			acc, prob := ParamAccesses(task, 0, InModule)
			if len(prob) > 0 {
				t.Fatalf("%s: %v", task.Name(), prob)
			}
			for _, a := range acc {
				if a.Kind != "read" {
					continue
				}
				ok := false
				for _, w := range written {
					if Covers(w, a.Path) {
						ok = true
					}
				}
				if !ok {
					out = append(out, task.Name()+":"+a.PathString())
				}
			}
			for _, a := range acc {
				if a.Kind == "write" || a.Kind == "passed" {
					written = append(written, a.Path)
				}
			}
		}
		return out
	}
	for _, tl := range lists {
		if len(tl.Problems) > 0 {
			t.Fatalf("%s: %v", tl.Name, tl.Problems)
		}
		u := unwritten(tl)
		switch tl.Name {
		case "good":
			if len(u) != 0 {
				t.Errorf("good: unexpected unwritten reads %v", u)
			}
		case "bad":
			if len(u) != 1 || u[0] != "useOther:other.Opt" {
				t.Errorf("bad: want [useOther:other.Opt], got %v", u)
			}
		}
	}
}

func TestAllPathsThrough(t *testing.T) {
	sp := build(t)
	for _, c := range []struct {
		fn   string
		want bool
	}{{"Ordered", true}, {"Bypass", false}} {
		fn := sp.Func(c.fn)
		var through []ssa.Instruction
		for _, s := range Calls(fn, Named("fx.a")) {
			through = append(through, s.Instr)
		}
		to := Calls(fn, Named("fx.b"))[0].Instr
		if got := AllPathsThrough(fn, through, to); got != c.want {
			t.Errorf("%s: AllPathsThrough = %v", c.fn, got)
		}
	}
}

func TestLoopVarAndFloat(t *testing.T) {
	sp := build(t)
	fn := sp.Func("Blocks")
	found := false
	for _, b := range fn.Blocks {
		for _, ins := range b.Instrs {
			if ph, ok := ins.(*ssa.Phi); ok {
				if init, step, ok := LoopVar(ph); ok && init.String() == "0" && step == 1 {
					found = true
				}
			}
		}
	}
	if !found {
		t.Errorf("counting loop variable not recognised")
	}
	s := Calls(fn, Named("copy"))
	if len(s) != 1 || !InLoop(s[0].Instr.Block()) {
		t.Errorf("copy site not in loop")
	}
}
