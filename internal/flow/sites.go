package flow

import (
	"go/token"
	"go/types"
	"sort"
	"strings"

	"golang.org/x/tools/go/ssa"
)

// Site is one call instruction with its evaluated arguments.
type Site struct {
	Fn     *ssa.Function
	Instr  ssa.CallInstruction
	Callee string
	Static *ssa.Function // nil for builtins, invokes and dynamic calls
	Args   []*Term       // receiver first for static method calls (as in SSA)
	Recv   *Term         // interface receiver of an invoke, function value of a dynamic call
}

// Value returns the call as a value (nil for go/defer).
func (s Site) Value() ssa.Value {
	if c, ok := s.Instr.(*ssa.Call); ok {
		return c
	}
	return nil
}

// Calls lists the call sites of fn whose callee name satisfies match, in block/instruction order.
func Calls(fn *ssa.Function, match func(name string) bool) []Site {
	e := For(fn)
	var out []Site
	for _, b := range fn.Blocks {
		for _, ins := range b.Instrs {
			c, ok := ins.(ssa.CallInstruction)
			if !ok {
				continue
			}
			name := CalleeName(c.Common())
			if match != nil && !match(name) {
				continue
			}
			s := Site{Fn: fn, Instr: c, Callee: name, Static: c.Common().StaticCallee()}
			s.Args = e.ArgTerms(c)
			if c.Common().IsInvoke() || name == "dyn" {
				s.Recv = e.Select(c.Common().Value, nil, c)
			}
			out = append(out, s)
		}
	}
	return out
}

// Named matches a set of exact callee names.
func Named(names ...string) func(string) bool {
	set := map[string]bool{}
	for _, n := range names {
		set[n] = true
	}
	return func(s string) bool { return set[s] }
}

// Returns lists the return instructions of fn.
func Returns(fn *ssa.Function) []*ssa.Return {
	var out []*ssa.Return
	for _, b := range fn.Blocks {
		for _, ins := range b.Instrs {
			if r, ok := ins.(*ssa.Return); ok {
				out = append(out, r)
			}
		}
	}
	return out
}

// StaticReach returns fn and every function reachable from it through static calls that satisfy keep
// (typically: in the analysed module).
func StaticReach(fn *ssa.Function, keep func(*ssa.Function) bool) []*ssa.Function {
	seen := map[*ssa.Function]bool{}
	var out []*ssa.Function
	var walk func(f *ssa.Function)
	walk = func(f *ssa.Function) {
		if f == nil || seen[f] || f.Blocks == nil {
			return
		}
		seen[f] = true
		out = append(out, f)
		for _, b := range f.Blocks {
			for _, ins := range b.Instrs {
				if c, ok := ins.(ssa.CallInstruction); ok {
					if g := c.Common().StaticCallee(); g != nil && keep(g) {
						walk(g)
					}
				}
				if mc, ok := ins.(*ssa.MakeClosure); ok {
					if g, ok := mc.Fn.(*ssa.Function); ok {
						walk(g)
					}
				}
			}
		}
	}
	walk(fn)
	return out
}

// CallsTransitively reports whether fn (or a kept static callee) calls a function matched by match.
func CallsTransitively(fn *ssa.Function, keep func(*ssa.Function) bool, match func(string) bool) bool {
	for _, f := range StaticReach(fn, keep) {
		if len(Calls(f, match)) > 0 {
			return true
		}
	}
	return false
}

// IsNilConst reports whether v is the nil constant.
func IsNilConst(v ssa.Value) bool {
	c, ok := v.(*ssa.Const)
	return ok && c.Value == nil
}

var errorType = types.Universe.Lookup("error").Type()

// IsErrorType reports whether t is the predeclared error interface.
func IsErrorType(t types.Type) bool { return types.Identical(t, errorType) }

// ErrBranch describes a branch on `x != nil` / `x == nil` for an error-typed x.
type ErrBranch struct {
	If      *ssa.If
	Err     ssa.Value
	OnError *ssa.BasicBlock // successor taken when the error is non-nil
	OnNil   *ssa.BasicBlock
}

// ErrBranches lists the error tests of fn.
func ErrBranches(fn *ssa.Function) []ErrBranch {
	var out []ErrBranch
	for _, b := range fn.Blocks {
		if len(b.Instrs) == 0 {
			continue
		}
		ifi, ok := b.Instrs[len(b.Instrs)-1].(*ssa.If)
		if !ok {
			continue
		}
		bo, ok := ifi.Cond.(*ssa.BinOp)
		if !ok || (bo.Op != token.NEQ && bo.Op != token.EQL) {
			continue
		}
		var x ssa.Value
		switch {
		case IsNilConst(bo.Y) && IsErrorType(bo.X.Type()):
			x = bo.X
		case IsNilConst(bo.X) && IsErrorType(bo.Y.Type()):
			x = bo.Y
		default:
			continue
		}
		eb := ErrBranch{If: ifi, Err: x}
		if bo.Op == token.NEQ {
			eb.OnError, eb.OnNil = b.Succs[0], b.Succs[1]
		} else {
			eb.OnError, eb.OnNil = b.Succs[1], b.Succs[0]
		}
		out = append(out, eb)
	}
	return out
}

// Swallow is an error branch from which a return with a nil error result is reachable.
type Swallow struct {
	Branch ErrBranch
	Ret    *ssa.Return
}

// ErrSwallows checks every error branch of fn (whose last result is an error): no return reachable from
// the error successor may carry the nil constant as its error result. It returns the number of branches
// examined and the offending (branch, return) pairs.
func ErrSwallows(fn *ssa.Function) (int, []Swallow) {
	res := fn.Signature.Results()
	if res.Len() == 0 || !IsErrorType(res.At(res.Len()-1).Type()) {
		return 0, nil
	}
	ei := res.Len() - 1
	var bad []Swallow
	brs := ErrBranches(fn)
	for _, br := range brs {
		seen := map[*ssa.BasicBlock]bool{}
		stack := []*ssa.BasicBlock{br.OnError}
		for len(stack) > 0 {
			x := stack[len(stack)-1]
			stack = stack[:len(stack)-1]
			if seen[x] {
				continue
			}
			seen[x] = true
			if len(x.Instrs) > 0 {
				if r, ok := x.Instrs[len(x.Instrs)-1].(*ssa.Return); ok && len(r.Results) > ei {
					if IsNilConst(r.Results[ei]) {
						bad = append(bad, Swallow{br, r})
					}
				}
			}
			stack = append(stack, x.Succs...)
		}
	}
	return len(brs), bad
}

// AllPathsThrough reports whether every path from the function entry to instruction `to` executes at
// least one of the instructions in `through` first.
func AllPathsThrough(fn *ssa.Function, through []ssa.Instruction, to ssa.Instruction) bool {
	e := For(fn)
	cut := map[*ssa.BasicBlock]int{} // block -> smallest index of a through-instruction
	for _, t := range through {
		b := t.Block()
		if i, ok := cut[b]; !ok || e.idx[t] < i {
			cut[b] = e.idx[t]
		}
	}
	tb := to.Block()
	// walk from entry; a block is "passed" (we leave it un-cut) if it has no through-instruction;
	// reaching `to` inside a block before that block's cut index means a bypassing path exists.
	seen := map[*ssa.BasicBlock]bool{}
	stack := []*ssa.BasicBlock{fn.Blocks[0]}
	for len(stack) > 0 {
		x := stack[len(stack)-1]
		stack = stack[:len(stack)-1]
		if seen[x] {
			continue
		}
		seen[x] = true
		ci, hasCut := cut[x]
		if x == tb {
			if !hasCut || e.idx[to] < ci {
				return false
			}
		}
		if hasCut {
			continue // every continuation of this path has executed a through-instruction
		}
		stack = append(stack, x.Succs...)
	}
	return true
}

// SuccessDominates reports whether block b can only be reached after the test of the error value v took
// its "v == nil" outcome. known is false when the shape of the test is outside the supported subset
// (the nil successor is a join block); yes=false, known=true includes the case that v is never tested.
func SuccessDominates(fn *ssa.Function, v ssa.Value, b *ssa.BasicBlock) (yes, known bool) {
	known = true
	for _, br := range ErrBranches(fn) {
		if br.Err != v {
			continue
		}
		if br.OnNil == br.OnError {
			continue
		}
		if len(br.OnNil.Preds) == 1 {
			if br.OnNil.Dominates(b) {
				return true, true
			}
			continue
		}
		known = false
	}
	return false, known
}

// ---------------------------------------------------------------------------

// PackageFuncs lists the source functions and methods (and their anonymous functions) of an SSA package,
// sorted by name.
func PackageFuncs(prog *ssa.Program, sp *ssa.Package) []*ssa.Function {
	seen := map[*ssa.Function]bool{}
	var out []*ssa.Function
	var add func(f *ssa.Function)
	add = func(f *ssa.Function) {
		if f == nil || seen[f] || f.Blocks == nil || f.Synthetic != "" {
			return
		}
		seen[f] = true
		out = append(out, f)
		for _, a := range f.AnonFuncs {
			add(a)
		}
	}
	for _, m := range sp.Members {
		switch x := m.(type) {
		case *ssa.Function:
			add(x)
		case *ssa.Type:
			for _, T := range []types.Type{x.Type(), types.NewPointer(x.Type())} {
				ms := prog.MethodSets.MethodSet(T)
				for i := 0; i < ms.Len(); i++ {
					if fn := prog.MethodValue(ms.At(i)); fn != nil && fn.Pkg == sp {
						add(fn)
					}
				}
			}
		}
	}
	sort.Slice(out, func(i, j int) bool { return FuncName(out[i]) < FuncName(out[j]) })
	return out
}

// ShortFunc renders a function name without the package path: Func or Recv.Method.
func ShortFunc(fn *ssa.Function) string {
	s := FuncName(fn)
	if i := strings.LastIndex(s, "/"); i >= 0 {
		s = s[i+1:]
	}
	// (pkg.T).M or (*pkg.T).M or pkg.F
	s = strings.NewReplacer("(", "", ")", "", "*", "").Replace(s)
	if i := strings.Index(s, "."); i >= 0 {
		s = s[i+1:]
	}
	return s
}

// LoopVar recognises a counting loop variable: a two-edge phi whose back-edge value is phi + k for a
// constant k. It returns the initial value term and the step.
func LoopVar(v ssa.Value) (init *Term, step int64, ok bool) {
	p, isPhi := v.(*ssa.Phi)
	if !isPhi || len(p.Edges) != 2 {
		return nil, 0, false
	}
	b := p.Block()
	e := For(p.Parent())
	for i, ed := range p.Edges {
		if !b.Dominates(b.Preds[i]) {
			continue
		}
		bo, isBin := ed.(*ssa.BinOp)
		if !isBin || bo.Op != token.ADD {
			return nil, 0, false
		}
		var k int64
		var okc bool
		if bo.X == ssa.Value(p) {
			k, okc = constInt(bo.Y)
		} else if bo.Y == ssa.Value(p) {
			k, okc = constInt(bo.X)
		}
		if !okc {
			return nil, 0, false
		}
		return e.Term(p.Edges[1-i]), k, true
	}
	return nil, 0, false
}

// InLoop reports whether the block lies on a cycle.
func InLoop(b *ssa.BasicBlock) bool { return For(b.Parent()).reach[b][b] }
