// Package absint is engine E1: a bit-precise abstract interpreter for the codec functions of /repo.
//
// Abstract domain: every scalar is a vector of boolean functions (reduced ordered BDDs) over the bits of the
// program's symbolic inputs (struct fields, input bytes) — exact for masks, shifts, or/xor/and, additions and
// comparisons with constants, gated merges — plus an optional linear form (Σ coeff·vector + k) used only to cancel
// multiplications/divisions by constants. Control flow is if-converted (predicated execution with a `live`
// condition); constant-trip loops are unrolled; nothing is executed concretely and no path is enumerated.
package absint

import "fmt"

// Node is a BDD node id. 0 = false, 1 = true.
type Node int32

const (
	False Node = 0
	True  Node = 1
)

type bddNode struct {
	v      int32 // variable index (order = index)
	lo, hi Node
}

type iteKey struct{ f, g, h Node }

// BDD is a small ROBDD manager with hash-consing and an ITE cache.
type BDD struct {
	nodes   []bddNode
	unique  map[bddNode]Node
	cache   map[iteKey]Node
	varName []string
	Budget  int
}

type BudgetExceeded struct{ Nodes int }

func (b BudgetExceeded) Error() string {
	return fmt.Sprintf("BDD node budget exceeded (%d nodes)", b.Nodes)
}

func NewBDD() *BDD {
	m := &BDD{unique: map[bddNode]Node{}, cache: map[iteKey]Node{}, Budget: 4_000_000}
	m.nodes = append(m.nodes, bddNode{v: 1 << 30}, bddNode{v: 1 << 30}) // terminals
	return m
}

// NewVar creates the next variable in the order and returns its node.
func (m *BDD) NewVar(name string) Node {
	v := int32(len(m.varName))
	m.varName = append(m.varName, name)
	return m.mk(v, False, True)
}

// VarNode returns the node of variable i.
func (m *BDD) VarNode(i int) Node { return m.mk(int32(i), False, True) }

func (m *BDD) NumVars() int         { return len(m.varName) }
func (m *BDD) VarName(i int) string { return m.varName[i] }
func (m *BDD) Size() int            { return len(m.nodes) }

func (m *BDD) mk(v int32, lo, hi Node) Node {
	if lo == hi {
		return lo
	}
	k := bddNode{v, lo, hi}
	if n, ok := m.unique[k]; ok {
		return n
	}
	if len(m.nodes) > m.Budget {
		panic(BudgetExceeded{len(m.nodes)})
	}
	n := Node(len(m.nodes))
	m.nodes = append(m.nodes, k)
	m.unique[k] = n
	return n
}

func (m *BDD) topVar(f Node) int32 { return m.nodes[f].v }

func (m *BDD) cof(f Node, v int32) (Node, Node) {
	n := m.nodes[f]
	if n.v == v {
		return n.lo, n.hi
	}
	return f, f
}

// ITE computes if f then g else h.
func (m *BDD) ITE(f, g, h Node) Node {
	switch {
	case f == True:
		return g
	case f == False:
		return h
	case g == h:
		return g
	case g == True && h == False:
		return f
	}
	k := iteKey{f, g, h}
	if r, ok := m.cache[k]; ok {
		return r
	}
	v := m.topVar(f)
	if x := m.topVar(g); x < v {
		v = x
	}
	if x := m.topVar(h); x < v {
		v = x
	}
	f0, f1 := m.cof(f, v)
	g0, g1 := m.cof(g, v)
	h0, h1 := m.cof(h, v)
	r := m.mk(v, m.ITE(f0, g0, h0), m.ITE(f1, g1, h1))
	m.cache[k] = r
	return r
}

func (m *BDD) Not(f Node) Node    { return m.ITE(f, False, True) }
func (m *BDD) And(f, g Node) Node { return m.ITE(f, g, False) }
func (m *BDD) Or(f, g Node) Node  { return m.ITE(f, True, g) }
func (m *BDD) Xor(f, g Node) Node { return m.ITE(f, m.Not(g), g) }
func (m *BDD) Imp(f, g Node) Node { return m.ITE(f, g, True) }
func (m *BDD) Eqv(f, g Node) Node { return m.ITE(f, g, m.Not(g)) }

// Implies reports whether f ⇒ g is a tautology.
func (m *BDD) Implies(f, g Node) bool { return m.And(f, m.Not(g)) == False }

// AnySat returns one satisfying assignment of f as var index -> value (only the variables on the path).
func (m *BDD) AnySat(f Node) (map[int]bool, bool) {
	if f == False {
		return nil, false
	}
	out := map[int]bool{}
	for f != True {
		n := m.nodes[f]
		if n.lo != False {
			out[int(n.v)] = false
			f = n.lo
		} else {
			out[int(n.v)] = true
			f = n.hi
		}
	}
	return out, true
}

// Support returns the variable indices f depends on.
func (m *BDD) Support(f Node) []int {
	seen := map[Node]bool{}
	vars := map[int]bool{}
	var walk func(Node)
	walk = func(n Node) {
		if n <= True || seen[n] {
			return
		}
		seen[n] = true
		vars[int(m.nodes[n].v)] = true
		walk(m.nodes[n].lo)
		walk(m.nodes[n].hi)
	}
	walk(f)
	var out []int
	for v := range vars {
		out = append(out, v)
	}
	sortInts(out)
	return out
}

// Restrict fixes variable v to val in f.
func (m *BDD) Restrict(f Node, v int, val bool) Node {
	memo := map[Node]Node{}
	var rec func(Node) Node
	rec = func(n Node) Node {
		if n <= True {
			return n
		}
		nd := m.nodes[n]
		if int(nd.v) > v {
			return n
		}
		if r, ok := memo[n]; ok {
			return r
		}
		var r Node
		if int(nd.v) == v {
			if val {
				r = nd.hi
			} else {
				r = nd.lo
			}
		} else {
			r = m.mk(nd.v, rec(nd.lo), rec(nd.hi))
		}
		memo[n] = r
		return r
	}
	return rec(f)
}

// Compose substitutes functions for variables: subst[v] replaces variable v (missing = unchanged).
func (m *BDD) Compose(f Node, subst map[int]Node) Node {
	memo := map[Node]Node{}
	var rec func(Node) Node
	rec = func(n Node) Node {
		if n <= True {
			return n
		}
		if r, ok := memo[n]; ok {
			return r
		}
		nd := m.nodes[n]
		lo, hi := rec(nd.lo), rec(nd.hi)
		var sel Node
		if s, ok := subst[int(nd.v)]; ok {
			sel = s
		} else {
			sel = m.mk(nd.v, False, True)
		}
		r := m.ITE(sel, hi, lo)
		memo[n] = r
		return r
	}
	return rec(f)
}

// Simplify returns a function that agrees with f wherever care holds (Coudert/Madre restrict); used for display
// and for recognising values that are plain variables under the accept condition.
func (m *BDD) Simplify(f, care Node) Node {
	type key struct{ f, c Node }
	memo := map[key]Node{}
	var rec func(f, c Node) Node
	rec = func(f, c Node) Node {
		if c == False {
			return False
		}
		if c == True || f <= True {
			return f
		}
		k := key{f, c}
		if r, ok := memo[k]; ok {
			return r
		}
		vf, vc := m.topVar(f), m.topVar(c)
		var r Node
		if vc < vf {
			cn := m.nodes[c]
			r = rec(f, m.Or(cn.lo, cn.hi))
		} else {
			f0, f1 := m.cof(f, vf)
			c0, c1 := m.cof(c, vf)
			switch {
			case c0 == False:
				r = rec(f1, c1)
			case c1 == False:
				r = rec(f0, c0)
			default:
				r = m.mk(vf, rec(f0, c0), rec(f1, c1))
			}
		}
		memo[k] = r
		return r
	}
	return rec(f, care)
}

func sortInts(a []int) {
	for i := 1; i < len(a); i++ {
		for j := i; j > 0 && a[j] < a[j-1]; j-- {
			a[j], a[j-1] = a[j-1], a[j]
		}
	}
}
