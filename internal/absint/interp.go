package absint

import (
	"fmt"
	"go/ast"
	"go/constant"
	"go/token"
	"go/types"
	"strconv"
	"strings"

	"golang.org/x/tools/go/packages"

	"lwverif/internal/load"
)

type funcInfo struct {
	decl *ast.FuncDecl
	pkg  *packages.Package
}

type retRec struct {
	cond Node
	vals []Value
}

// loopCtl collects the path conditions under which control left the current iteration (cont) or the whole
// statement (brk) through continue / break; those paths rejoin at the end of the iteration / statement.
type loopCtl struct {
	loop      bool // for/range (false: switch, which only takes break)
	brk, cont Node
}

type frame struct {
	pkg     *packages.Package
	env     map[types.Object]*Cell
	rets    []retRec
	results *types.Tuple
	named   []*Cell // named results
	fn      string
}

// Interp interprets function bodies of /repo on the abstract domain.
type Interp struct {
	D          *Dom
	onceDone   map[*Cell]Node // sync.Once cells -> condition under which Do has already run its function
	Prog       *load.Program
	funcs      map[types.Object]funcInfo
	live       Node
	logs       []map[*Cell]Value      // write logs of the enclosing symbolic branches
	rawIte     bool                   // ite without simplification under the path condition (see store)
	forced     map[*ast.IndexExpr]int // index expressions pinned to one element while a symbolic-index store is expanded
	frames     []*frame
	ctl        []*loopCtl // enclosing breakable statements of all activations (innermost last)
	ctlBase    int        // first entry of ctl that belongs to the current function activation
	initsDone  map[*packages.Package]bool
	depth      int
	Steps      int
	Called     map[string]bool // functions interpreted (for evidence)
	globals    map[types.Object]*Cell
	opaqueIDs  map[string]int
	OpaqueDesc map[int]OpaqueTerm
	// Hook lets a client intercept calls (return handled=true to supply the result).
	Hook func(in *Interp, fn *types.Func, recv Value, args []Value) (res []Value, handled bool)
}

func NewInterp(p *load.Program) *Interp {
	in := &Interp{D: NewDom(), Prog: p, funcs: map[types.Object]funcInfo{}, live: True, Called: map[string]bool{}, globals: map[types.Object]*Cell{}}
	for _, pk := range p.Pkgs {
		for _, f := range pk.Syntax {
			for _, d := range f.Decls {
				if fd, ok := d.(*ast.FuncDecl); ok && fd.Body != nil {
					if o := pk.TypesInfo.Defs[fd.Name]; o != nil {
						in.funcs[o] = funcInfo{fd, pk}
					}
				}
			}
		}
	}
	return in
}

func (in *Interp) Live() Node { return in.live }

// SetLive sets the initial path condition (e.g. a region constraint on the inputs).
func (in *Interp) SetLive(c Node) { in.live = c; in.D.Cond = c }

func (in *Interp) pos(n ast.Node) string {
	if len(in.frames) == 0 {
		return ""
	}
	return in.Prog.Rel(n.Pos())
}

func (in *Interp) fail(n ast.Node, f string, a ...interface{}) {
	panic(Unsupported{fmt.Sprintf("%s: %s", in.pos(n), fmt.Sprintf(f, a...))})
}

func (in *Interp) fr() *frame        { return in.frames[len(in.frames)-1] }
func (in *Interp) info() *types.Info { return in.fr().pkg.TypesInfo }

// symbolicIndexIn finds, in an assignment target such as t[i].f or (*p).t[i], the slice/array index expression whose
// index is not a constant on the executing paths; returns it with the index value and the table length.
func (in *Interp) symbolicIndexIn(l ast.Expr) (*ast.IndexExpr, *Bits, int) {
	for e := l; e != nil; {
		switch x := e.(type) {
		case *ast.ParenExpr:
			e = x.X
		case *ast.SelectorExpr:
			if sel, ok := in.info().Selections[x]; !ok || sel.Kind() != types.FieldVal {
				return nil, nil, 0
			}
			e = x.X
		case *ast.StarExpr:
			e = x.X
		case *ast.IndexExpr:
			if _, isMap := in.info().TypeOf(x.X).Underlying().(*types.Map); isMap {
				return nil, nil, 0
			}
			idx, ok := in.expr(x.Index).(*Bits)
			if !ok {
				return nil, nil, 0
			}
			if _, isConst := in.constLive(idx); isConst {
				e = x.X
				continue
			}
			var base Value
			if in.addressable(x.X) {
				base = in.lvalue(x.X).V
			} else {
				base = in.expr(x.X)
			}
			if p, ok := base.(*Ptr); ok {
				base = p.To.V
			}
			switch b := base.(type) {
			case *Array:
				return x, idx, len(b.E)
			case *Slice:
				return x, idx, b.Len()
			}
			return nil, nil, 0
		default:
			return nil, nil, 0
		}
	}
	return nil, nil, 0
}

// store writes a cell, recording the old value in the innermost branch log.
func (in *Interp) store(c *Cell, v Value) {
	if n := len(in.logs); n > 0 {
		if _, seen := in.logs[n-1][c]; !seen {
			in.logs[n-1][c] = c.V
		}
	}
	// paths that left an enclosing loop iteration or switch through break/continue rejoin later and must still see
	// the old content: the write only takes effect on the other paths
	if len(in.ctl) > 0 && c.V != nil {
		if esc := in.escaped(); esc != False {
			// this merge serves the paths that are NOT executing now (they rejoin after the loop / switch): it must not
			// be simplified under the current path condition
			in.rawIte = true
			v = in.ite(esc, c.V, v)
			in.rawIte = false
		}
	}
	c.V = v
}

// ---------------------------------------------------------------------------
// calls

// CallMethod interprets method `name` of named type T (receiver value or pointer as the method requires).
func (in *Interp) CallMethod(recvCell *Cell, T types.Type, name string, args ...Value) []Value {
	obj, _, _ := types.LookupFieldOrMethod(types.NewPointer(T), true, nil, name)
	if obj == nil {
		// unexported method: look up with the type's package
		if n, ok := T.(*types.Named); ok {
			obj, _, _ = types.LookupFieldOrMethod(types.NewPointer(T), true, n.Obj().Pkg(), name)
		}
	}
	fn, ok := obj.(*types.Func)
	if !ok {
		unsupported("method %s.%s not found", T, name)
	}
	return in.callFunc(fn, recvCell, nil, args)
}

// CallFunc interprets a package-level function.
func (in *Interp) CallFunc(rel, name string, args ...Value) []Value {
	pk := in.Prog.Pkg(rel)
	fn, ok := pk.Types.Scope().Lookup(name).(*types.Func)
	if !ok {
		unsupported("function %s not found", name)
	}
	return in.callFunc(fn, nil, nil, args)
}

// callFunc: recvCell is the addressable receiver storage (or nil with recvVal set).
func (in *Interp) callFunc(fn *types.Func, recvCell *Cell, recvVal Value, args []Value) []Value {
	if in.Hook != nil {
		rv := recvVal
		if rv == nil && recvCell != nil {
			rv = recvCell.V
		}
		if res, ok := in.Hook(in, fn, rv, args); ok {
			return res
		}
	}
	fi, ok := in.funcs[fn.Origin()]
	if !ok {
		unsupported("no source for %s", fn.FullName())
	}
	if in.depth > 24 {
		unsupported("call depth exceeded at %s", fn.FullName())
	}
	in.Called[fn.FullName()] = true
	sig := fn.Type().(*types.Signature)
	f := &frame{pkg: fi.pkg, env: map[types.Object]*Cell{}, results: sig.Results(), fn: fn.FullName()}
	info := fi.pkg.TypesInfo
	if fi.decl.Recv != nil && len(fi.decl.Recv.List) == 1 {
		rf := fi.decl.Recv.List[0]
		_, isPtr := sig.Recv().Type().(*types.Pointer)
		var rv Value
		if isPtr {
			switch {
			case recvCell != nil:
				if p, ok := recvCell.V.(*Ptr); ok && recvVal == nil && !isStructLike(recvCell.V) {
					rv = p
				} else {
					rv = &Ptr{To: recvCell, T: sig.Recv().Type().(*types.Pointer).Elem()}
				}
			case recvVal != nil:
				if p, ok := recvVal.(*Ptr); ok {
					rv = p
				} else {
					rv = &Ptr{To: &Cell{recvVal}, T: sig.Recv().Type().(*types.Pointer).Elem()}
				}
			}
		} else {
			v := recvVal
			if v == nil && recvCell != nil {
				v = recvCell.V
			}
			if p, ok := v.(*Ptr); ok {
				v = p.To.V
			}
			rv = Copy(v)
		}
		if len(rf.Names) == 1 && rf.Names[0].Name != "_" {
			f.env[info.Defs[rf.Names[0]]] = &Cell{rv}
		}
	}
	i := 0
	for _, pf := range fi.decl.Type.Params.List {
		if len(pf.Names) == 0 {
			i++
			continue
		}
		for _, n := range pf.Names {
			if i >= len(args) {
				unsupported("arity mismatch calling %s", fn.FullName())
			}
			if n.Name != "_" {
				f.env[info.Defs[n]] = &Cell{Copy(args[i])}
			}
			i++
		}
	}
	if fi.decl.Type.Results != nil {
		for _, rf := range fi.decl.Type.Results.List {
			for _, n := range rf.Names {
				c := &Cell{in.Zero(info.Defs[n].Type())}
				f.env[info.Defs[n]] = c
				f.named = append(f.named, c)
			}
		}
	}
	savedLive := in.live
	savedBase := in.ctlBase
	in.ctlBase = len(in.ctl)
	in.frames = append(in.frames, f)
	in.depth++
	in.block(fi.decl.Body.List)
	in.depth--
	in.frames = in.frames[:len(in.frames)-1]
	in.ctlBase = savedBase
	endLive := in.live
	in.live = savedLive
	in.D.Cond = savedLive
	if endLive != False && sig.Results().Len() > 0 && len(f.named) == 0 {
		unsupported("%s can fall off its end", fn.FullName())
	}
	return in.mergeReturns(f, sig)
}

func isStructLike(v Value) bool {
	switch v.(type) {
	case *Struct, *Array:
		return true
	}
	return false
}

func (in *Interp) mergeReturns(f *frame, sig *types.Signature) []Value {
	n := sig.Results().Len()
	if n == 0 {
		return nil
	}
	out := make([]Value, n)
	errIdx := -1
	if isErrorType(sig.Results().At(n - 1).Type()) {
		errIdx = n - 1
	}
	set := make([]bool, n)
	for i := 0; i < n; i++ {
		out[i] = in.Zero(sig.Results().At(i).Type())
		if i == errIdx {
			set[i] = true
		}
	}
	for _, r := range f.rets {
		constErr := false
		if errIdx >= 0 {
			if e, ok := asErr(r.vals[errIdx]).(*ErrVal); ok && in.D.M.Implies(r.cond, e.NonNil) {
				constErr = true
			}
		}
		for i := 0; i < n; i++ {
			if constErr && i != errIdx {
				continue // data results of an error return are don't-care
			}
			v := r.vals[i]
			if i == errIdx {
				v = asErr(v)
			}
			if !set[i] {
				// first data-carrying return: on the other (error) paths the data result is don't-care
				out[i] = v
				set[i] = true
				continue
			}
			out[i] = in.ite(r.cond, v, out[i])
		}
	}
	return out
}

func asErr(v Value) Value {
	switch x := v.(type) {
	case NilVal:
		return &ErrVal{NonNil: False}
	case *Iface:
		if _, ok := x.Dyn.(NilVal); ok {
			return &ErrVal{NonNil: False}
		}
		if e, ok := x.Dyn.(*ErrVal); ok {
			return e
		}
	}
	return v
}

// ---------------------------------------------------------------------------
// statements

func (in *Interp) block(list []ast.Stmt) {
	for _, s := range list {
		if in.live == False {
			return
		}
		in.stmt(s)
	}
}

// branch executes then/else under a symbolic condition with write-log based merging.
func (in *Interp) branch(c Node, thenF, elseF func()) {
	saved := in.live
	lt := in.D.M.And(saved, c)
	le := in.D.M.And(saved, in.D.M.Not(c))
	if lt == False {
		if elseF != nil {
			elseF()
		}
		return
	}
	if le == False {
		thenF()
		return
	}
	fr := in.fr()
	run := func(l Node, f func()) (map[*Cell]Value, map[*Cell]Value, Node, bool) {
		log := map[*Cell]Value{}
		in.logs = append(in.logs, log)
		in.live = l
		in.D.Cond = l
		nret := len(fr.rets)
		escBefore := in.escaped()
		if f != nil {
			f()
		}
		// paths that left this arm through break/continue still carry its writes
		end := in.D.M.Or(in.live, in.D.M.And(in.escaped(), in.D.M.Not(escBefore)))
		in.logs = in.logs[:len(in.logs)-1]
		vals := map[*Cell]Value{}
		for cell, old := range log {
			vals[cell] = cell.V
			cell.V = old // undo
		}
		errOnly := true
		for _, r := range fr.rets[nret:] {
			ok := false
			if n := len(r.vals); n > 0 {
				if e, isE := asErr(r.vals[n-1]).(*ErrVal); isE && in.D.M.Implies(r.cond, e.NonNil) {
					ok = true
				}
			}
			if !ok {
				errOnly = false
			}
		}
		return log, vals, end, errOnly
	}
	logT, valT, endT, errT := run(lt, thenF)
	logE, valE, endE, errE := run(le, elseF)
	cells := map[*Cell]bool{}
	for c := range logT {
		cells[c] = true
	}
	for c := range logE {
		cells[c] = true
	}
	// the merged values are observed under the path condition of the whole statement
	in.live = saved
	in.D.Cond = saved
	for cell := range cells {
		old := cell.V
		tv, ok := valT[cell]
		if !ok {
			tv = old
		}
		ev, ok := valE[cell]
		if !ok {
			ev = old
		}
		var nv Value
		switch {
		case endT == False && errT:
			nv = ev // the then-arm left through error returns only: its writes are unobservable on success paths
		case endE == False && errE:
			nv = tv
		default:
			nv = in.ite(c, tv, ev)
		}
		in.store(cell, nv)
	}
	in.live = in.D.M.And(in.D.M.Or(endT, endE), in.D.M.Not(in.escaped()))
	in.D.Cond = in.live
}

// escaped: the paths that have left the enclosing breakable statements of this activation through break/continue.
func (in *Interp) escaped() Node {
	n := False
	for _, c := range in.ctl {
		n = in.D.M.Or(n, in.D.M.Or(c.brk, c.cont))
	}
	return n
}

func (in *Interp) stmt(s ast.Stmt) {
	in.Steps++
	if in.Steps > 2_000_000 {
		unsupported("step budget exceeded")
	}
	in.D.Cond = in.live
	info := in.info()
	switch x := s.(type) {
	case *ast.BlockStmt:
		in.block(x.List)
	case *ast.EmptyStmt:
	case *ast.ExprStmt:
		in.expr(x.X)
	case *ast.DeclStmt:
		gd := x.Decl.(*ast.GenDecl)
		for _, sp := range gd.Specs {
			vs, ok := sp.(*ast.ValueSpec)
			if !ok {
				continue
			}
			for i, n := range vs.Names {
				var v Value
				if i < len(vs.Values) {
					v = Copy(in.toType(in.expr(vs.Values[i]), info.TypeOf(vs.Values[i]), info.Defs[n].Type()))
				} else {
					v = in.Zero(info.Defs[n].Type())
				}
				in.fr().env[info.Defs[n]] = &Cell{v}
			}
		}
	case *ast.AssignStmt:
		in.assignStmt(x)
	case *ast.IncDecStmt:
		cur, ok := in.expr(x.X).(*Bits)
		if !ok {
			in.fail(x, "inc/dec of non-integer")
		}
		op := token.ADD
		if x.Tok == token.DEC {
			op = token.SUB
		}
		in.store(in.lvalue(x.X), in.D.AddSub(op, cur, in.D.Const(1, cur.W, cur.Signed)))
	case *ast.ReturnStmt:
		fr := in.fr()
		var vals []Value
		if len(x.Results) == 0 {
			for _, c := range fr.named {
				vals = append(vals, c.V)
			}
		} else if len(x.Results) == 1 && fr.results.Len() > 1 {
			t, ok := in.expr(x.Results[0]).(Tuple)
			if !ok {
				in.fail(x, "multi-value return from non-call")
			}
			vals = t
		} else {
			for i, r := range x.Results {
				vals = append(vals, Copy(in.toType(in.expr(r), info.TypeOf(r), fr.results.At(i).Type())))
			}
		}
		fr.rets = append(fr.rets, retRec{in.live, vals})
		in.live = False
	case *ast.IfStmt:
		if x.Init != nil {
			in.stmt(x.Init)
		}
		c := in.cond(x.Cond)
		in.branch(c, func() { in.block(x.Body.List) }, func() {
			if x.Else != nil {
				in.stmt(x.Else)
			}
		})
	case *ast.ForStmt:
		if x.Init != nil {
			in.stmt(x.Init)
		}
		lc := &loopCtl{loop: true, brk: False, cont: False}
		in.ctl = append(in.ctl, lc)
		bodyAndPost := func() {
			lc.cont = False
			in.block(x.Body.List)
			in.live = in.D.M.Or(in.live, lc.cont) // continue rejoins before the post statement
			lc.cont = False
			if x.Post != nil && in.live != False {
				in.stmt(x.Post)
			}
		}
		symbolic := 0
		var run func(iter int)
		run = func(iter int) {
			for ; ; iter++ {
				if iter > 4096 {
					in.fail(x, "loop does not terminate within 4096 unrolled iterations")
				}
				if in.live == False {
					return
				}
				if x.Cond != nil {
					c0 := in.cond(x.Cond)
					c := in.D.M.And(c0, in.live)
					if c == False {
						return
					}
					if c != in.live {
						// the condition depends on the input: `for c { body }` is `if c { body; for c { body } }`; the
						// paths on which it is false leave the loop here and are merged back by the branch
						symbolic++
						if symbolic > 48 {
							in.fail(x, "loop condition is symbolic on more than 48 iterations")
						}
						in.branch(c0, func() {
							bodyAndPost()
							run(iter + 1)
						}, nil)
						return
					}
				}
				bodyAndPost()
			}
		}
		run(0)
		in.ctl = in.ctl[:len(in.ctl)-1]
		in.live = in.D.M.Or(in.live, lc.brk)
		in.D.Cond = in.live
	case *ast.RangeStmt:
		coll := in.expr(x.X)
		var n int
		var at func(i int) Value
		var mapKeys []Value
		switch cv := coll.(type) {
		case *Array:
			n = len(cv.E)
			cp := Copy(cv).(*Array) // range evaluates the array once
			at = func(i int) Value { return cp.E[i].V }
		case *Slice:
			n = cv.Len()
			at = func(i int) Value { return cv.At(i).V }
		case *Ptr:
			arr, ok := cv.To.V.(*Array)
			if !ok {
				in.fail(x, "range over pointer to %T", cv.To.V)
			}
			n = len(arr.E)
			at = func(i int) Value { return arr.E[i].V }
		case NilVal:
			n = 0
		case *MapVal:
			// entries in insertion order (Go's order is unspecified: code whose result depends on it is outside the model)
			var keys []Value
			var vals []Value
			for _, k := range cv.Order {
				c := cv.E[k]
				if c == nil || c.V == nil {
					continue
				}
				var kv Value
				switch {
				case strings.HasPrefix(k, "i:"):
					iv, _ := strconv.ParseInt(k[2:], 10, 64)
					if w, sg, ok := widthOf(cv.KT); ok {
						kv = in.D.Const(iv, w, sg)
					} else {
						kv = in.D.Const(iv, 64, true)
					}
				default:
					kv = &StrVal{Known: true, S: k[2:]}
				}
				keys = append(keys, kv)
				vals = append(vals, c.V)
			}
			n = len(keys)
			mapKeys = keys
			at = func(i int) Value { return vals[i] }
		default:
			in.fail(x, "range over %T", coll)
		}
		lc := &loopCtl{loop: true, brk: False, cont: False}
		in.ctl = append(in.ctl, lc)
		for i := 0; i < n; i++ {
			if in.live == False {
				break
			}
			bind := func(e ast.Expr, v Value) {
				if e == nil {
					return
				}
				id, ok := e.(*ast.Ident)
				if !ok {
					in.fail(x, "range variable is not an identifier")
				}
				if id.Name == "_" {
					return
				}
				if x.Tok == token.DEFINE {
					in.fr().env[info.Defs[id]] = &Cell{Copy(v)}
				} else {
					in.store(in.lvalue(id), Copy(v))
				}
			}
			if mapKeys != nil {
				bind(x.Key, mapKeys[i])
			} else {
				bind(x.Key, in.D.Const(int64(i), 64, true))
			}
			if x.Value != nil {
				bind(x.Value, at(i))
			}
			lc.cont = False
			in.block(x.Body.List)
			in.live = in.D.M.Or(in.live, lc.cont)
			lc.cont = False
		}
		in.ctl = in.ctl[:len(in.ctl)-1]
		in.live = in.D.M.Or(in.live, lc.brk)
		in.D.Cond = in.live
	case *ast.SwitchStmt:
		if x.Init != nil {
			in.stmt(x.Init)
		}
		var tag Value
		if x.Tag != nil {
			tag = in.expr(x.Tag)
		}
		var clauses []*ast.CaseClause
		var def *ast.CaseClause
		for _, cc := range x.Body.List {
			c := cc.(*ast.CaseClause)
			if c.List == nil {
				def = c
			} else {
				clauses = append(clauses, c)
			}
		}
		var run func(i int)
		run = func(i int) {
			if i == len(clauses) {
				if def != nil {
					in.switchBody(def.Body)
				}
				return
			}
			c := clauses[i]
			cnd := False
			for _, e := range c.List {
				var ce Node
				if tag != nil {
					ce = in.equal(tag, in.expr(e), e)
				} else {
					ce = in.cond(e)
				}
				cnd = in.D.M.Or(cnd, ce)
			}
			in.branch(cnd, func() { in.switchBody(c.Body) }, func() { run(i + 1) })
		}
		lc := &loopCtl{brk: False, cont: False}
		in.ctl = append(in.ctl, lc)
		run(0)
		in.ctl = in.ctl[:len(in.ctl)-1]
		in.live = in.D.M.Or(in.live, lc.brk)
		in.D.Cond = in.live
	case *ast.TypeSwitchStmt:
		lc := &loopCtl{brk: False, cont: False}
		in.ctl = append(in.ctl, lc)
		in.typeSwitch(x)
		in.ctl = in.ctl[:len(in.ctl)-1]
		in.live = in.D.M.Or(in.live, lc.brk)
		in.D.Cond = in.live
	case *ast.BranchStmt:
		if x.Label != nil {
			in.fail(x, "labelled %s", x.Tok)
		}
		switch x.Tok {
		case token.BREAK:
			if len(in.ctl) <= in.ctlBase {
				in.fail(x, "break outside a loop or switch")
			}
			lc := in.ctl[len(in.ctl)-1]
			lc.brk = in.D.M.Or(lc.brk, in.live)
			in.live = False
		case token.CONTINUE:
			var lc *loopCtl
			for i := len(in.ctl) - 1; i >= in.ctlBase; i-- {
				if in.ctl[i].loop {
					lc = in.ctl[i]
					break
				}
			}
			if lc == nil {
				in.fail(x, "continue outside a loop")
			}
			lc.cont = in.D.M.Or(lc.cont, in.live)
			in.live = False
		default:
			in.fail(x, "%s outside the supported subset", x.Tok)
		}
	case *ast.DeferStmt:
		// deferred unlocks and the like have no effect on the abstract values tracked here
		if call, ok := x.Call.Fun.(*ast.SelectorExpr); ok && strings.HasSuffix(call.Sel.Name, "nlock") {
			return
		}
		// handing a pooled object back when the function returns: no effect on the values of this activation
		if call, ok := x.Call.Fun.(*ast.SelectorExpr); ok {
			if s, ok := in.info().Selections[call]; ok && s.Kind() == types.MethodVal {
				if fn, ok := s.Obj().(*types.Func); ok && fn.FullName() == "(*sync.Pool).Put" {
					return
				}
			}
		}
		in.fail(x, "defer")
	default:
		in.fail(s, "statement %T outside subset", s)
	}
}

// switchBody runs a case body; a trailing `break` is allowed.
func (in *Interp) switchBody(list []ast.Stmt) {
	for _, s := range list {
		if b, ok := s.(*ast.BranchStmt); ok && b.Tok == token.BREAK {
			return
		}
		if in.live == False {
			return
		}
		in.stmt(s)
	}
}

func (in *Interp) typeSwitch(x *ast.TypeSwitchStmt) {
	info := in.info()
	var bind *ast.Ident
	var subject ast.Expr
	switch a := x.Assign.(type) {
	case *ast.AssignStmt:
		bind = a.Lhs[0].(*ast.Ident)
		subject = a.Rhs[0].(*ast.TypeAssertExpr).X
	case *ast.ExprStmt:
		subject = a.X.(*ast.TypeAssertExpr).X
	}
	v := in.expr(subject)
	dynT, dyn := in.dynamic(v, subject)
	var def *ast.CaseClause
	for _, cc := range x.Body.List {
		c := cc.(*ast.CaseClause)
		if c.List == nil {
			def = c
			continue
		}
		for _, te := range c.List {
			if id, ok := te.(*ast.Ident); ok && id.Name == "nil" {
				if dynT == nil {
					in.block(c.Body)
					return
				}
				continue
			}
			T := info.TypeOf(te)
			if dynT != nil && typeMatches(dynT, T) {
				if bind != nil {
					if o := info.Implicits[c]; o != nil {
						in.fr().env[o] = &Cell{dyn}
					}
				}
				in.block(c.Body)
				return
			}
		}
	}
	if def != nil {
		if bind != nil {
			if o := info.Implicits[def]; o != nil {
				in.fr().env[o] = &Cell{v}
			}
		}
		in.block(def.Body)
	}
}

func typeMatches(dyn, T types.Type) bool {
	if types.Identical(dyn, T) {
		return true
	}
	if it, ok := T.Underlying().(*types.Interface); ok {
		return types.Implements(dyn, it)
	}
	return false
}

// dynamic returns the dynamic type and value of an interface-typed abstract value.
func (in *Interp) dynamic(v Value, at ast.Node) (types.Type, Value) {
	switch x := v.(type) {
	case *Iface:
		if _, isNil := x.Dyn.(NilVal); isNil {
			return nil, nil
		}
		return x.DynT, x.Dyn
	case NilVal:
		return nil, nil
	case *ErrVal:
		in.fail(at, "type switch on an error value")
	}
	in.fail(at, "dynamic type of %T unknown", v)
	return nil, nil
}

func (in *Interp) assignStmt(x *ast.AssignStmt) {
	info := in.info()
	define := x.Tok == token.DEFINE
	setToT := func(l ast.Expr, v Value, from types.Type) {
		if id, ok := l.(*ast.Ident); ok {
			if id.Name == "_" {
				return
			}
			if define {
				if o := info.Defs[id]; o != nil {
					in.fr().env[o] = &Cell{Copy(in.toType(v, from, o.Type()))}
					return
				}
			}
		}
		t := info.TypeOf(l)
		nv := Copy(in.toType(v, from, t))
		// table[i]… = v with a symbolic i: every element k receives ite(i == k, v, old) (an index that can be out of
		// range on an executing path is a run-time panic there)
		if ix, idx, n := in.symbolicIndexIn(l); ix != nil {
			oor := in.D.M.Not(in.D.Cmp(token.LSS, idx, in.D.Const(int64(n), idx.W, idx.Signed)))
			if idx.Signed {
				oor = in.D.M.Or(oor, in.D.Cmp(token.LSS, idx, in.D.Const(0, idx.W, true)))
			}
			if w := in.D.M.And(in.live, oor); w != False {
				panic(Panic{Why: fmt.Sprintf("%s: index out of range [0,%d) for some values", in.pos(ix), n), Cond: w})
			}
			if in.forced == nil {
				in.forced = map[*ast.IndexExpr]int{}
			}
			for k := 0; k < n; k++ {
				c := in.D.Cmp(token.EQL, idx, in.D.Const(int64(k), idx.W, idx.Signed))
				if in.D.M.And(in.live, c) == False {
					continue
				}
				in.forced[ix] = k
				cell := in.lvalue(l)
				delete(in.forced, ix)
				in.store(cell, in.ite(c, Copy(nv), cell.V))
			}
			return
		}
		in.store(in.lvalue(l), nv)
	}
	setTo := func(l ast.Expr, v Value) { setToT(l, v, nil) }
	if len(x.Lhs) > 1 && len(x.Rhs) == 1 {
		var t Tuple
		switch r := x.Rhs[0].(type) {
		case *ast.IndexExpr:
			v, present, isMap := in.mapLookup(r)
			if !isMap {
				in.fail(x, "comma-ok on a non-map index")
			}
			if present {
				t = Tuple{v, in.D.Bool(True)}
			} else {
				t = Tuple{v, in.D.Bool(False)}
			}
		case *ast.TypeAssertExpr:
			v := in.expr(r.X)
			dynT, dyn := in.dynamic(v, r)
			T := info.TypeOf(r.Type)
			if dynT != nil && typeMatches(dynT, T) {
				t = Tuple{dyn, in.D.Bool(True)}
			} else {
				t = Tuple{in.Zero(T), in.D.Bool(False)}
			}
		default:
			tv, ok := in.expr(x.Rhs[0]).(Tuple)
			if !ok {
				in.fail(x, "tuple assignment from %T", x.Rhs[0])
			}
			t = tv
		}
		if len(t) != len(x.Lhs) {
			in.fail(x, "tuple arity")
		}
		for i, l := range x.Lhs {
			setTo(l, t[i])
		}
		return
	}
	vals := make([]Value, len(x.Rhs))
	for i, r := range x.Rhs {
		v := in.expr(r)
		if x.Tok != token.ASSIGN && x.Tok != token.DEFINE {
			op := map[token.Token]token.Token{token.OR_ASSIGN: token.OR, token.XOR_ASSIGN: token.XOR, token.AND_ASSIGN: token.AND,
				token.ADD_ASSIGN: token.ADD, token.SUB_ASSIGN: token.SUB, token.AND_NOT_ASSIGN: token.AND_NOT,
				token.SHL_ASSIGN: token.SHL, token.SHR_ASSIGN: token.SHR, token.MUL_ASSIGN: token.MUL, token.QUO_ASSIGN: token.QUO, token.REM_ASSIGN: token.REM}[x.Tok]
			v = in.binop(op, in.expr(x.Lhs[i]), v, info.TypeOf(x.Lhs[i]), x)
		}
		vals[i] = v
	}
	for i, l := range x.Lhs {
		setToT(l, vals[i], info.TypeOf(x.Rhs[i]))
	}
}

// conv adapts a value to a static type where representation differs (untyped constants, nil, errors).
func (in *Interp) conv(v Value, t types.Type) Value {
	if t == nil {
		return v
	}
	switch x := v.(type) {
	case *Bits:
		if w, s, ok := widthOf(t); ok && (w != x.W || s != x.Signed) {
			return in.D.Resize(x, w, s)
		}
	case NilVal:
		if isErrorType(t) {
			return &ErrVal{NonNil: False}
		}
		switch u := t.Underlying().(type) {
		case *types.Slice:
			return &Slice{Nil: true, Elem: u.Elem(), Back: &Backing{}}
		case *types.Interface:
			return &Iface{Dyn: NilVal{}}
		}
	case *ErrVal:
		return x
	default:
		if _, isIface := t.Underlying().(*types.Interface); isIface && !isErrorType(t) {
			if _, already := v.(*Iface); !already {
				return v // dynamic type attached at the conversion site (see expr)
			}
		}
	}
	return v
}

// ---------------------------------------------------------------------------
// lvalues

func (in *Interp) lvalue(e ast.Expr) *Cell {
	info := in.info()
	switch x := e.(type) {
	case *ast.ParenExpr:
		return in.lvalue(x.X)
	case *ast.Ident:
		o := info.Uses[x]
		if o == nil {
			o = info.Defs[x]
		}
		if c, ok := in.fr().env[o]; ok {
			return c
		}
		if c := in.global(o, x); c != nil {
			return c
		}
		in.fail(x, "unbound identifier %s", x.Name)
	case *ast.SelectorExpr:
		sel, ok := info.Selections[x]
		if !ok || sel.Kind() != types.FieldVal {
			if o, isVar := info.Uses[x.Sel].(*types.Var); isVar {
				if c := in.global(o, x); c != nil {
					return c
				}
			}
			in.fail(x, "selector is not a field")
		}
		var base Value
		isMapElem := false
		if ix, ok := unparen(x.X).(*ast.IndexExpr); ok {
			if _, isMap := info.TypeOf(ix.X).Underlying().(*types.Map); isMap {
				isMapElem = true // a map element is a value (the zero value for a missing key), not a location
			}
		}
		if !isMapElem && in.addressable(x.X) {
			base = in.lvalue(x.X).V
		} else {
			base = in.expr(x.X)
		}
		t := sel.Recv()
		var cell *Cell
		for _, idx := range sel.Index() {
			if p, ok := base.(*Ptr); ok {
				base = p.To.V
			}
			if pt, ok := t.Underlying().(*types.Pointer); ok {
				t = pt.Elem()
			}
			st, ok := t.Underlying().(*types.Struct)
			sv, ok2 := base.(*Struct)
			if !ok || !ok2 {
				if _, isNil := base.(NilVal); isNil {
					in.crash(x, "field access through a nil pointer")
				}
				in.fail(x, "field selection on %T", base)
			}
			f := st.Field(idx)
			cell = sv.F[f.Name()]
			if cell == nil {
				in.fail(x, "no field %s", f.Name())
			}
			base = cell.V
			t = f.Type()
		}
		return cell
	case *ast.IndexExpr:
		var base Value
		if in.addressable(x.X) {
			base = in.lvalue(x.X).V
		} else {
			base = in.expr(x.X)
		}
		if mt, isMap := in.info().TypeOf(x.X).Underlying().(*types.Map); isMap {
			m, ok := base.(*MapVal)
			if !ok {
				if _, isNil := base.(NilVal); isNil {
					in.crash(x, "assignment to entry in nil map")
				}
				in.fail(x, "map store on %T", base)
			}
			k, ok := in.mapKey(in.toType(in.expr(x.Index), in.info().TypeOf(x.Index), mt.Key()))
			if !ok {
				in.fail(x, "map store with a symbolic key")
			}
			c := m.E[k]
			if c == nil {
				if len(in.logs) > 0 || in.escaped() != False {
					in.fail(x, "insertion of a new map key under a symbolic condition")
				}
				c = &Cell{}
				m.E[k] = c
				m.Order = append(m.Order, k)
			}
			return c
		}
		var k int64
		if fk, forced := in.forced[x]; forced {
			k = int64(fk)
		} else {
			idx, ok := in.expr(x.Index).(*Bits)
			if !ok {
				in.fail(x, "index is not an integer")
			}
			var isConst bool
			k, isConst = in.constLive(idx)
			if !isConst {
				in.fail(x, "store/address through a symbolic index")
			}
		}
		switch b := base.(type) {
		case *Array:
			if k < 0 || int(k) >= len(b.E) {
				in.crash(x, "array index %d out of range", k)
			}
			return b.E[k]
		case *Slice:
			return b.At(int(k))
		case *Ptr:
			if arr, ok := b.To.V.(*Array); ok && k >= 0 && int(k) < len(arr.E) {
				return arr.E[k]
			}
		}
		in.fail(x, "index on %T", base)
	case *ast.StarExpr:
		pv := in.expr(x.X)
		p, ok := pv.(*Ptr)
		if !ok {
			if _, isNil := pv.(NilVal); isNil {
				in.crash(x, "nil pointer dereference")
			}
			in.fail(x, "dereference of an unknown pointer (%T)", pv)
		}
		return p.To
	}
	in.fail(e, "expression %T is not addressable in the subset", e)
	return nil
}

func (in *Interp) addressable(e ast.Expr) bool {
	switch x := e.(type) {
	case *ast.ParenExpr:
		return in.addressable(x.X)
	case *ast.Ident:
		return x.Name != "nil"
	case *ast.SelectorExpr:
		if sel, ok := in.info().Selections[x]; ok && sel.Kind() == types.FieldVal {
			return true
		}
		if _, isVar := in.info().Uses[x.Sel].(*types.Var); isVar {
			return true
		}
		return false
	case *ast.IndexExpr:
		return true
	case *ast.StarExpr:
		return true
	}
	return false
}

// global returns the cell of a package-level variable of the module (initialiser evaluated once).
func (in *Interp) global(o types.Object, at ast.Node) *Cell {
	v, ok := o.(*types.Var)
	if !ok || v.Pkg() == nil || v.Parent() != v.Pkg().Scope() {
		return nil
	}
	if c, ok := in.globals[o]; ok {
		return c
	}
	pk := in.Prog.Pkgs[v.Pkg().Path()]
	if pk == nil {
		return nil
	}
	for _, f := range pk.Syntax {
		for _, d := range f.Decls {
			gd, ok := d.(*ast.GenDecl)
			if !ok || gd.Tok != token.VAR {
				continue
			}
			for _, sp := range gd.Specs {
				vs := sp.(*ast.ValueSpec)
				for i, n := range vs.Names {
					if pk.TypesInfo.Defs[n] != o {
						continue
					}
					c := &Cell{}
					in.globals[o] = c
					if len(vs.Values) == 1 && len(vs.Names) > 1 {
						// var a, b = f(): one call initialises all the names
						cells := make([]*Cell, len(vs.Names))
						for k, nk := range vs.Names {
							if k == i {
								cells[k] = c
								continue
							}
							cells[k] = &Cell{}
							if ok := pk.TypesInfo.Defs[nk]; ok != nil {
								in.globals[ok] = cells[k]
							}
						}
						in.frames = append(in.frames, &frame{pkg: pk, env: map[types.Object]*Cell{}, fn: "init:" + n.Name})
						saved := in.live
						in.live = True
						tv, isT := in.expr(vs.Values[0]).(Tuple)
						in.live = saved
						in.frames = in.frames[:len(in.frames)-1]
						if !isT || len(tv) != len(cells) {
							unsupported("multi-value initialiser of %s", n.Name)
						}
						for k := range cells {
							cells[k].V = tv[k]
						}
						in.runInits(pk)
						return c
					}
					if i < len(vs.Values) {
						in.frames = append(in.frames, &frame{pkg: pk, env: map[types.Object]*Cell{}, fn: "init:" + n.Name})
						saved := in.live
						in.live = True
						c.V = in.expr(vs.Values[i])
						in.live = saved
						in.frames = in.frames[:len(in.frames)-1]
					} else {
						c.V = in.Zero(o.Type())
					}
					in.runInits(pk)
					return c
				}
			}
		}
	}
	return nil
}

// runInits interprets the init functions of a package once, before the first of its variables is handed out (Go runs
// them after all variable initialisers; variables they touch are evaluated on demand).
func (in *Interp) runInits(pk *packages.Package) {
	if in.initsDone == nil {
		in.initsDone = map[*packages.Package]bool{}
	}
	if in.initsDone[pk] {
		return
	}
	in.initsDone[pk] = true
	for _, f := range pk.Syntax {
		for _, d := range f.Decls {
			fd, ok := d.(*ast.FuncDecl)
			if !ok || fd.Recv != nil || fd.Name.Name != "init" || fd.Body == nil {
				continue
			}
			savedLive, savedBase, savedLogs := in.live, in.ctlBase, in.logs
			in.live, in.logs = True, nil
			in.ctlBase = len(in.ctl)
			in.frames = append(in.frames, &frame{pkg: pk, env: map[types.Object]*Cell{}, fn: "init", results: types.NewTuple()})
			in.block(fd.Body.List)
			in.frames = in.frames[:len(in.frames)-1]
			in.live, in.ctlBase, in.logs = savedLive, savedBase, savedLogs
			in.D.Cond = savedLive
		}
	}
}

// cond evaluates a boolean expression to a BDD node.
func (in *Interp) cond(e ast.Expr) Node {
	v := in.expr(e)
	b, ok := v.(*Bits)
	if !ok || b.W != 1 {
		in.fail(e, "condition is %T", v)
	}
	return b.Bits()[0]
}

func constToBits(d *Dom, cv constant.Value, t types.Type) (Value, bool) {
	switch cv.Kind() {
	case constant.Bool:
		if constant.BoolVal(cv) {
			return d.Bool(True), true
		}
		return d.Bool(False), true
	case constant.Int:
		w, s, ok := widthOf(t)
		if !ok {
			w, s = 64, true
		}
		if i, ok := constant.Int64Val(cv); ok {
			return d.Const(i, w, s), true
		}
		if u, ok := constant.Uint64Val(cv); ok {
			return d.Const(int64(u), w, s), true
		}
	case constant.String:
		return &StrVal{S: constant.StringVal(cv), Known: true}, true
	case constant.Float:
		if w, s, ok := widthOf(t); ok {
			if i, ok := constant.Int64Val(constant.ToInt(cv)); ok {
				return d.Const(i, w, s), true
			}
		}
	}
	return nil, false
}

// Try runs f and converts Unsupported / BudgetExceeded panics into an error.
func (in *Interp) Try(f func()) (err error) {
	defer func() {
		if r := recover(); r != nil {
			switch e := r.(type) {
			case Unsupported:
				err = e
			case BudgetExceeded:
				err = e
			case SplitRequest:
				err = e
			case Panic:
				if e.Cond == 0 {
					e.Cond = in.live
				}
				err = e
			default:
				panic(r)
			}
			in.frames = nil
			in.logs = nil
			in.ctl = nil
			in.ctlBase = 0
			in.depth = 0
			in.forced = nil
			in.rawIte = false
		}
	}()
	f()
	return nil
}

// NamedType looks up a named type of a module package.
func (in *Interp) NamedType(rel, name string) types.Type {
	pk := in.Prog.Pkg(rel)
	if pk == nil {
		return nil
	}
	o := pk.Types.Scope().Lookup(name)
	if o == nil {
		return nil
	}
	return o.Type()
}

// crash reports a definite runtime panic of the interpreted code under the current live condition.
func (in *Interp) crash(n ast.Node, f string, a ...interface{}) {
	panic(Panic{Why: fmt.Sprintf("%s: %s", in.pos(n), fmt.Sprintf(f, a...)), Cond: in.live})
}

// callFuncLit interprets an immediately invoked function literal `func(params) results { … }(args)`: a frame that
// shares the cells of the enclosing activation (closures capture by reference) plus its own parameters and results.
func (in *Interp) callFuncLit(lit *ast.FuncLit, args []Value) []Value {
	outer := in.fr()
	return in.callLit(lit, outer.pkg, outer.env, outer.fn+".func", args)
}

// callFuncVal calls a function value with the arguments of call expression x.
func (in *Interp) callFuncVal(fv *FuncVal, x *ast.CallExpr) []Value {
	if fv.MethodExpr != nil {
		// T.M(recv, args…): the same as recv.M(args…)
		if len(x.Args) == 0 {
			unsupported("method expression called without a receiver")
		}
		fn := fv.MethodExpr
		shifted := &ast.CallExpr{Fun: x.Fun, Lparen: x.Lparen, Args: x.Args[1:], Ellipsis: x.Ellipsis, Rparen: x.Rparen}
		rv := in.expr(x.Args[0])
		if o, ok := rv.(*Opaque); ok {
			return in.opaqueMethod(o, fn.Name(), shifted)
		}
		sig := fn.Type().(*types.Signature)
		if fn.Pkg() == nil || !strings.HasPrefix(fn.Pkg().Path(), "github.com/brocaar/lorawan") {
			return in.foreign(fn, rv, shifted)
		}
		if iface, isI := rv.(*Iface); isI {
			dynT, dyn := in.dynamic(iface, x)
			if dynT == nil {
				in.crash(x, "method call on a nil interface")
			}
			obj, _, _ := types.LookupFieldOrMethod(dynT, true, fn.Pkg(), fn.Name())
			cf, ok := obj.(*types.Func)
			if !ok {
				unsupported("dynamic type %s has no method %s", dynT, fn.Name())
			}
			if p, ok := dyn.(*Ptr); ok {
				return in.callFunc(cf, p.To, nil, in.argsPacked(shifted, cf.Type().(*types.Signature)))
			}
			return in.callFunc(cf, nil, dyn, in.argsPacked(shifted, cf.Type().(*types.Signature)))
		}
		if p, ok := rv.(*Ptr); ok {
			return in.callFunc(fn, p.To, nil, in.argsPacked(shifted, sig))
		}
		return in.callFunc(fn, nil, rv, in.argsPacked(shifted, sig))
	}
	if fv.BoundOpaque != nil {
		return in.opaqueMethod(fv.BoundOpaque, fv.OpaqueMethod, x)
	}
	if fv.Bound != nil {
		return in.callFunc(fv.Bound, fv.RecvCell, fv.RecvVal, in.argsPacked(x, fv.Bound.Type().(*types.Signature)))
	}
	if fv.Decl != nil {
		return in.callFunc(fv.Decl, nil, nil, in.argsPacked(x, fv.Decl.Type().(*types.Signature)))
	}
	sig, _ := fv.Pkg.TypesInfo.TypeOf(fv.Lit).(*types.Signature)
	return in.callLit(fv.Lit, fv.Pkg, fv.Env, "func literal", in.argsPacked(x, sig))
}

// callLit interprets a function literal in the environment it captured (cells shared: capture by reference).
func (in *Interp) callLit(lit *ast.FuncLit, pk *packages.Package, env map[types.Object]*Cell, name string, args []Value) []Value {
	info := pk.TypesInfo
	sig, ok := info.TypeOf(lit).(*types.Signature)
	if !ok {
		unsupported("function literal without a signature")
	}
	if in.depth > 24 {
		unsupported("call depth")
	}
	f := &frame{pkg: pk, env: map[types.Object]*Cell{}, results: sig.Results(), fn: name}
	for o, c := range env {
		f.env[o] = c
	}
	i := 0
	if lit.Type.Params != nil {
		for _, pf := range lit.Type.Params.List {
			if len(pf.Names) == 0 {
				i++
				continue
			}
			for _, n := range pf.Names {
				if i >= len(args) {
					unsupported("arity mismatch calling a function literal")
				}
				if n.Name != "_" {
					f.env[info.Defs[n]] = &Cell{Copy(args[i])}
				}
				i++
			}
		}
	}
	if lit.Type.Results != nil {
		for _, rf := range lit.Type.Results.List {
			for _, n := range rf.Names {
				c := &Cell{in.Zero(info.Defs[n].Type())}
				f.env[info.Defs[n]] = c
				f.named = append(f.named, c)
			}
		}
	}
	savedLive, savedBase := in.live, in.ctlBase
	in.ctlBase = len(in.ctl)
	in.frames = append(in.frames, f)
	in.depth++
	in.block(lit.Body.List)
	in.depth--
	in.frames = in.frames[:len(in.frames)-1]
	in.ctlBase = savedBase
	endLive := in.live
	in.live = savedLive
	in.D.Cond = savedLive
	if endLive != False && sig.Results().Len() > 0 && len(f.named) == 0 {
		unsupported("function literal can fall off its end")
	}
	if endLive != False && len(f.named) > 0 {
		// falling off the end of a function with named results returns them
		var vals []Value
		for _, c := range f.named {
			vals = append(vals, c.V)
		}
		f.rets = append(f.rets, retRec{endLive, vals})
	}
	return in.mergeReturns(f, sig)
}
