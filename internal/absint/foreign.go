package absint

import (
	"fmt"
	"go/ast"
	"go/token"
	"go/types"
	"strings"
	"time"
)

// foreign models calls into the standard library and third-party packages (trusted primitives).
func (in *Interp) foreign(fn *types.Func, recv Value, x *ast.CallExpr) []Value {
	name := fn.FullName()
	sig := fn.Type().(*types.Signature)
	switch name {
	case "errors.New", "fmt.Errorf", "github.com/pkg/errors.New", "github.com/pkg/errors.Errorf":
		tag := ""
		if name == "fmt.Errorf" && len(x.Args) > 0 {
			// %w builds a wrapper: a new non-nil error object (whatever it wraps) that errors.Is / errors.Unwrap see
			// through; that chain is not modelled — the value carries the cause marker "%w?", and every operation that
			// would look through it (errors.Is, errors.Cause, errors.Unwrap) leaves the subset when it meets the marker
			wraps := false
			if fr := in.fr(); fr != nil {
				if tv, ok := fr.pkg.TypesInfo.Types[x.Args[0]]; ok && tv.Value != nil {
					wraps = strings.Contains(tv.Value.ExactString(), "%w")
				} else if sv, ok := in.expr(x.Args[0]).(*StrVal); !ok || !sv.Known {
					in.fail(x, "fmt.Errorf with a format that is not a known string")
				} else {
					wraps = strings.Contains(sv.S, "%w")
				}
			}
			if wraps {
				for _, a := range x.Args[1:] {
					in.expr(a) // evaluate the operands for their effects
				}
				pos := ""
				if fr := in.fr(); fr != nil {
					pos = fr.pkg.Fset.Position(x.Pos()).String()
				}
				return []Value{&ErrVal{NonNil: True, Tag: "fmtwrap@" + pos, Cause: "%w?"}}
			}
		}
		if fr := in.fr(); fr != nil && strings.HasPrefix(fr.fn, "init:") {
			tag = fr.fn + "@" + fr.pkg.Fset.Position(x.Pos()).String() // a package-level sentinel
		}
		return []Value{&ErrVal{NonNil: True, Tag: tag}}
	case "github.com/pkg/errors.Wrap", "github.com/pkg/errors.Wrapf", "github.com/pkg/errors.WithStack":
		// a new error object (nil for a nil argument) that remembers what it wraps
		if ev, ok := asErr(in.expr(x.Args[0])).(*ErrVal); ok {
			cause := ev.Cause
			if cause == "" {
				cause = ev.Tag
			}
			if cause == "?" {
				return []Value{&ErrVal{NonNil: ev.NonNil, Cause: "?", CauseG: errCauseConds(ev)}}
			}
			return []Value{&ErrVal{NonNil: ev.NonNil, Cause: cause}}
		}
		return []Value{asErr(in.expr(x.Args[0]))}
	case "errors.Is":
		// true iff the chain err, Unwrap(err), … contains target. The chains this interpreter builds have at most two
		// links that can be a sentinel: the error itself and what pkg/errors wrapped (its Cause); both nil: true.
		ev, ok1 := asErr(in.expr(x.Args[0])).(*ErrVal)
		tv, ok2 := asErr(in.expr(x.Args[1])).(*ErrVal)
		if ok1 {
			in.noFmtWrap(x, ev, "errors.Is")
		}
		if ok1 && ok2 && tv.Tag != "" && tv.Tag != "?" {
			is := False
			if c, ok := errTagConds(ev)[tv.Tag]; ok {
				is = in.D.M.Or(is, c)
			}
			if c, ok := errCauseConds(ev)[tv.Tag]; ok {
				is = in.D.M.Or(is, c)
			}
			is = in.D.M.And(is, tv.NonNil)
			is = in.D.M.Or(is, in.D.M.And(in.D.M.Not(ev.NonNil), in.D.M.Not(tv.NonNil)))
			return []Value{in.D.Bool(is)}
		}
		in.fail(x, "errors.Is with a target that is not a package-level sentinel")
		return nil
	case "github.com/pkg/errors.Cause":
		if ev, ok := asErr(in.expr(x.Args[0])).(*ErrVal); ok {
			in.noFmtWrap(x, ev, "errors.Cause")
			tag := ev.Cause
			if tag == "" {
				tag = ev.Tag
			}
			if tag == "?" {
				return []Value{&ErrVal{NonNil: ev.NonNil, Tag: "?", TagG: errCauseConds(ev)}}
			}
			return []Value{&ErrVal{NonNil: ev.NonNil, Tag: tag}}
		}
		return []Value{asErr(in.expr(x.Args[0]))}
	case "fmt.Sprintf", "fmt.Sprint":
		return []Value{&StrVal{}}
	case "log.Printf", "log.Println", "log.Print":
		return nil
	case "(*sync.RWMutex).RLock", "(*sync.RWMutex).RUnlock", "(*sync.RWMutex).Lock", "(*sync.RWMutex).Unlock",
		"(*sync.Mutex).Lock", "(*sync.Mutex).Unlock":
		return nil
	case "(encoding/binary.littleEndian).PutUint16", "(encoding/binary.littleEndian).PutUint32", "(encoding/binary.littleEndian).PutUint64",
		"(encoding/binary.bigEndian).PutUint16", "(encoding/binary.bigEndian).PutUint32", "(encoding/binary.bigEndian).PutUint64":
		args := in.args(x, sig)
		dst, ok := args[0].(*Slice)
		v, ok2 := args[1].(*Bits)
		if !ok || !ok2 {
			in.fail(x, "PutUint on %T, %T", args[0], args[1])
		}
		n := v.W / 8
		if dst.Len() < n {
			in.crash(x, "PutUint%d into %d bytes", v.W, dst.Len())
		}
		big := strings.Contains(name, "bigEndian")
		for i := 0; i < n; i++ {
			byteIdx := i
			if big {
				byteIdx = n - 1 - i
			}
			src := v
			k := i
			in.store(dst.At(byteIdx), in.extractByte(src, k))
		}
		return nil
	case "(encoding/binary.littleEndian).Uint16", "(encoding/binary.littleEndian).Uint32", "(encoding/binary.littleEndian).Uint64",
		"(encoding/binary.bigEndian).Uint16", "(encoding/binary.bigEndian).Uint32", "(encoding/binary.bigEndian).Uint64":
		args := in.args(x, sig)
		src, ok := args[0].(*Slice)
		if !ok {
			in.fail(x, "Uint of %T", args[0])
		}
		w, _, _ := widthOf(sig.Results().At(0).Type())
		n := w / 8
		if src.Len() < n {
			in.crash(x, "Uint%d of %d bytes", w, src.Len())
		}
		big := strings.Contains(name, "bigEndian")
		b := make([]Node, 0, w)
		for i := 0; i < n; i++ {
			byteIdx := i
			if big {
				byteIdx = n - 1 - i
			}
			bv, ok := src.At(byteIdx).V.(*Bits)
			if !ok {
				in.fail(x, "byte is %T", src.At(byteIdx).V)
			}
			b = append(b, bv.Bits()...)
		}
		return []Value{&Bits{W: w, b: b}}
	case "encoding/hex.EncodeToString":
		// two characters per byte, each an uninterpreted function of that byte (hex.DecodeString inverts them)
		args := in.args(x, sig)
		src, ok := args[0].(*Slice)
		if !ok {
			return []Value{&StrVal{}}
		}
		if src.Len() == 0 {
			return []Value{&StrVal{Known: true}}
		}
		var chars []Value
		for i := 0; i < src.Len(); i++ {
			chars = append(chars, in.OpaqueBytes("hexchar", [][]Value{{src.At(i).V}}, 2, "hex digits")...)
		}
		return []Value{&StrVal{Chars: chars}}
	case "(*encoding/base64.Encoding).EncodeToString":
		return []Value{&StrVal{}}
	case "encoding/hex.EncodedLen", "encoding/hex.DecodedLen":
		args := in.args(x, sig)
		n, ok := args[0].(*Bits)
		if !ok {
			in.fail(x, "hex length of %T", args[0])
		}
		if name == "encoding/hex.EncodedLen" {
			return []Value{in.D.MulConst(n, 2)}
		}
		return []Value{in.D.DivModConst(n, 2, false)}
	case "bytes.HasPrefix":
		args := in.args(x, sig)
		a, ok1 := args[0].(*Slice)
		b, ok2 := args[1].(*Slice)
		if !ok1 || !ok2 {
			in.fail(x, "bytes.HasPrefix on %T, %T", args[0], args[1])
		}
		if a.Len() < b.Len() {
			return []Value{in.D.Bool(False)}
		}
		has := True
		for i := 0; i < b.Len(); i++ {
			has = in.D.M.And(has, in.equal(a.At(i).V, b.At(i).V, x))
		}
		return []Value{in.D.Bool(has)}
	case "encoding/hex.Decode":
		args := in.args(x, sig)
		dst, ok1 := args[0].(*Slice)
		src, ok2 := args[1].(*Slice)
		if !ok1 || !ok2 {
			in.fail(x, "hex.Decode on %T, %T", args[0], args[1])
		}
		var chars []Value
		for i := 0; i < src.Len(); i++ {
			chars = append(chars, src.At(i).V)
		}
		vals, invalid := in.hexDecodeChars(chars)
		if len(vals) > dst.Len() {
			in.crash(x, "hex.Decode: destination of %d bytes for %d decoded bytes", dst.Len(), len(vals))
		}
		for i, v := range vals {
			in.store(dst.At(i), v)
		}
		if len(chars)%2 != 0 {
			return []Value{in.D.Const(int64(len(vals)), 64, true), &ErrVal{NonNil: True}}
		}
		return []Value{in.D.Const(int64(len(vals)), 64, true), &ErrVal{NonNil: invalid}}
	case "encoding/hex.DecodeString":
		args := in.args(x, sig)
		sv, ok := args[0].(*StrVal)
		if !ok || (sv.Chars == nil && !sv.Known) {
			in.fail(x, "hex.DecodeString of a string with unknown content")
		}
		chars := sv.Chars
		if sv.Known {
			chars = nil
			for i := 0; i < len(sv.S); i++ {
				chars = append(chars, in.D.Const(int64(sv.S[i]), 8, false))
			}
		}
		bk := &Backing{}
		if len(chars)%2 != 0 {
			// hex.ErrLength (the decoded prefix is returned as well; callers test the error)
			return []Value{&Slice{Back: bk, Elem: types.Typ[types.Uint8]}, &ErrVal{NonNil: True}}
		}
		invalid := False
		for i := 0; i+1 < len(chars); i += 2 {
			// the digits of one encoded byte decode to that byte
			if id1, k1, ok1 := in.OpaqueOf(chars[i]); ok1 && k1 == 0 {
				if id2, k2, ok2 := in.OpaqueOf(chars[i+1]); ok2 && id2 == id1 && k2 == 1 {
					if t, ok := in.OpaqueDesc[id1]; ok && t.Kind == "hexchar" && len(t.Inputs) == 1 && len(t.Inputs[0]) == 1 {
						bk.E = append(bk.E, &Cell{t.Inputs[0][0]})
						continue
					}
				}
			}
			// two constant characters decode concretely
			if c1, ok1 := chars[i].(*Bits); ok1 {
				if c2, ok2 := chars[i+1].(*Bits); ok2 {
					if k1, isC1 := in.D.ConstVal(c1); isC1 {
						if k2, isC2 := in.D.ConstVal(c2); isC2 {
							hv := func(c int64) int64 {
								switch {
								case c >= '0' && c <= '9':
									return c - '0'
								case c >= 'a' && c <= 'f':
									return c - 'a' + 10
								case c >= 'A' && c <= 'F':
									return c - 'A' + 10
								}
								return -1
							}
							h, l := hv(k1), hv(k2)
							if h < 0 || l < 0 {
								invalid = True
								bk.E = append(bk.E, &Cell{in.D.Const(0, 8, false)})
							} else {
								bk.E = append(bk.E, &Cell{in.D.Const(h<<4|l, 8, false)})
							}
							continue
						}
					}
				}
			}
			out := in.OpaqueBytes("hexval", [][]Value{{chars[i], chars[i+1]}}, 2, "hex value / validity")
			bk.E = append(bk.E, &Cell{out[0]})
			invalid = in.D.M.Or(invalid, out[1].(*Bits).Bits()[0]) // an uninterpreted "not two hex digits" bit
		}
		return []Value{&Slice{Back: bk, Hi: len(bk.E), Cap: len(bk.E), Elem: types.Typ[types.Uint8]}, &ErrVal{NonNil: invalid}}
	case "strings.TrimPrefix":
		args := in.args(x, sig)
		sv, ok1 := args[0].(*StrVal)
		pre, ok2 := args[1].(*StrVal)
		if !ok1 || !ok2 || !pre.Known || (sv.Chars == nil && !sv.Known) {
			return []Value{&StrVal{}}
		}
		if sv.Known {
			return []Value{&StrVal{Known: true, S: strings.TrimPrefix(sv.S, pre.S)}}
		}
		if len(sv.Chars) < len(pre.S) {
			return []Value{sv}
		}
		has := True
		for i := 0; i < len(pre.S); i++ {
			// hex.EncodeToString emits only the characters 0-9a-f
			if id, _, ok := in.OpaqueOf(sv.Chars[i]); ok && in.OpaqueDesc[id].Kind == "hexchar" && !strings.ContainsRune("0123456789abcdef", rune(pre.S[i])) {
				has = False
				break
			}
			has = in.D.M.And(has, in.D.Cmp(token.EQL, sv.Chars[i].(*Bits), in.D.Const(int64(pre.S[i]), 8, false)))
		}
		switch {
		case in.D.M.And(in.live, in.D.M.Not(has)) == False:
			return []Value{&StrVal{Chars: sv.Chars[len(pre.S):]}}
		case in.D.M.And(in.live, has) == False:
			return []Value{sv}
		}
		panic(SplitRequest{Cond: has, Why: "string prefix depends on symbolic characters"})
	case "strings.ToLower", "strings.ToUpper":
		return []Value{&StrVal{}}
	case "math/bits.OnesCount", "math/bits.OnesCount8", "math/bits.OnesCount16", "math/bits.OnesCount32", "math/bits.OnesCount64":
		args := in.args(x, sig)
		v, ok := args[0].(*Bits)
		if !ok {
			in.fail(x, "OnesCount on %T", args[0])
		}
		sum := in.D.Const(0, 64, true)
		for _, b := range v.Bits() {
			sum = in.D.AddSub(token.ADD, sum, in.D.Resize(in.D.Bool(b), 64, true))
		}
		return []Value{sum}
	case "time.Date":
		// constant calendar arguments (the location argument is taken to be UTC, which is what the tables use)
		var k [7]int
		for i := 0; i < 7; i++ {
			k[i] = in.constInt(x.Args[i], "time.Date argument")
		}
		if sel, ok := unparen(x.Args[7]).(*ast.SelectorExpr); !ok || sel.Sel.Name != "UTC" {
			in.fail(x, "time.Date with a location other than time.UTC")
		}
		tm := time.Date(k[0], time.Month(k[1]), k[2], k[3], k[4], k[5], k[6], time.UTC)
		return []Value{in.TimeValue(in.D.Const(tm.UnixNano(), 64, true), sig.Results().At(0).Type())}
	case "(time.Time).Before", "(time.Time).After", "(time.Time).Equal":
		a, ok1 := TimeNS(recv)
		b, ok2 := TimeNS(in.expr(x.Args[0]))
		if !ok1 || !ok2 {
			in.fail(x, "time comparison on %T", recv)
		}
		op := map[string]token.Token{"(time.Time).Before": token.LSS, "(time.Time).After": token.GTR, "(time.Time).Equal": token.EQL}[name]
		return []Value{in.D.Bool(in.D.Cmp(op, a, b))}
	case "(time.Time).Add":
		a, ok1 := TimeNS(recv)
		dv, ok2 := in.expr(x.Args[0]).(*Bits)
		if !ok1 || !ok2 {
			in.fail(x, "time.Add on %T", recv)
		}
		return []Value{in.TimeValue(in.D.AddSub(token.ADD, a, in.D.Resize(dv, 64, true)), sig.Results().At(0).Type())}
	case "(time.Time).Sub":
		a, ok1 := TimeNS(recv)
		b, ok2 := TimeNS(in.expr(x.Args[0]))
		if !ok1 || !ok2 {
			in.fail(x, "time.Sub on %T", recv)
		}
		return []Value{in.D.AddSub(token.SUB, a, b)}
	case "(time.Time).UTC":
		return []Value{recv}
	case "(time.Duration).Round", "(time.Duration).Truncate":
		// the library's definitions for a positive constant multiple m, away from the overflow corner:
		//   Truncate: d - d%m;   Round: r := d%m; |r|+|r| < m ? d - r : d - r ± m   (halves round away from zero)
		dv, ok1 := recv.(*Bits)
		mv, ok2 := in.expr(x.Args[0]).(*Bits)
		if !ok1 || !ok2 {
			in.fail(x, "Duration rounding on %T", recv)
		}
		mlo, mhi := in.D.Range(mv.Bits(), true)
		if mlo.Cmp(mhi) != 0 || !mlo.IsInt64() || mlo.Int64() <= 0 {
			in.fail(x, "Duration rounding to a multiple that is not a positive constant")
		}
		m := mlo.Int64()
		dv = in.D.Resize(dv, 64, true)
		lo, hi := in.D.RangeOf(dv)
		if !lo.IsInt64() || !hi.IsInt64() || lo.Int64() < -(1<<62) || hi.Int64() > 1<<62 || m > 1<<61 {
			in.fail(x, "Duration rounding near the overflow boundary")
		}
		r := in.D.DivModConst(dv, m, true) // sign of the dividend
		trunc := in.D.AddSub(token.SUB, dv, r)
		if name == "(time.Duration).Truncate" {
			return []Value{trunc}
		}
		zero := in.D.Const(0, 64, true)
		neg := False
		if lo.Sign() < 0 {
			neg = in.D.Cmp(token.LSS, dv, zero)
		}
		ra := r
		if neg != False {
			ra = in.D.ITE(neg, in.D.AddSub(token.SUB, zero, r), r)
		}
		lessThanHalf := in.D.Cmp(token.LSS, in.D.AddSub(token.ADD, ra, ra), in.D.Const(m, 64, true))
		mc := in.D.Const(m, 64, true)
		if in.D.M.And(in.live, neg) == False {
			// non-negative: trunc + m·[not less than half], which keeps the value a linear form (an if-then-else over the
			// 64 result bits would not)
			up := in.D.Resize(in.D.Bool(in.D.M.Not(lessThanHalf)), 64, true)
			return []Value{in.D.AddSub(token.ADD, trunc, in.D.MulConst(up, m))}
		}
		away := in.D.ITE(neg, in.D.AddSub(token.SUB, trunc, mc), in.D.AddSub(token.ADD, trunc, mc))
		return []Value{in.D.ITE(lessThanHalf, trunc, away)}
	case "math/bits.LeadingZeros8", "math/bits.LeadingZeros16", "math/bits.LeadingZeros32", "math/bits.LeadingZeros64",
		"math/bits.TrailingZeros8", "math/bits.TrailingZeros16", "math/bits.TrailingZeros32", "math/bits.TrailingZeros64",
		"math/bits.Len8", "math/bits.Len16", "math/bits.Len32", "math/bits.Len64":
		args := in.args(x, sig)
		v, ok := args[0].(*Bits)
		if !ok {
			in.fail(x, "%s on %T", name, args[0])
		}
		bs := v.Bits()
		w := len(bs)
		// result = number of zeros before the first set bit scanning from the top (leading) / bottom (trailing)
		res := in.D.Const(int64(w), 64, true)
		trailing := strings.Contains(name, "Trailing")
		// build as a priority chain from the last scanned bit to the first
		for k := w - 1; k >= 0; k-- {
			idx := k
			if !trailing {
				idx = w - 1 - k
			}
			res = in.D.ITE(bs[idx], in.D.Const(int64(k), 64, true), res)
		}
		if strings.Contains(name, ".Len") {
			res = in.D.AddSub(token.SUB, in.D.Const(int64(w), 64, true), res)
		}
		return []Value{res}
	case "crypto/subtle.ConstantTimeCompare":
		args := in.args(x, sig)
		a, ok1 := args[0].(*Slice)
		b, ok2 := args[1].(*Slice)
		if !ok1 || !ok2 {
			in.fail(x, "ConstantTimeCompare on %T, %T", args[0], args[1])
		}
		if a.Len() != b.Len() {
			return []Value{in.D.Const(0, 64, true)}
		}
		eq := True
		for i := 0; i < a.Len(); i++ {
			eq = in.D.M.And(eq, in.equal(a.At(i).V, b.At(i).V, x))
		}
		return []Value{in.D.ITE(eq, in.D.Const(1, 64, true), in.D.Const(0, 64, true))}
	case "bytes.Equal":
		args := in.args(x, sig)
		toS := func(v Value) *Slice {
			switch s := v.(type) {
			case *Slice:
				return s
			case NilVal:
				return &Slice{Back: &Backing{}}
			}
			in.fail(x, "bytes.Equal on %T", v)
			return nil
		}
		a, b := toS(args[0]), toS(args[1])
		if a.Len() != b.Len() {
			return []Value{in.D.Bool(False)}
		}
		eq := True
		for i := 0; i < a.Len(); i++ {
			eq = in.D.M.And(eq, in.equal(a.At(i).V, b.At(i).V, x))
		}
		return []Value{in.D.Bool(eq)}
	case "crypto/aes.NewCipher":
		args := in.args(x, sig)
		key, ok := args[0].(*Slice)
		if !ok {
			in.fail(x, "aes key is %T", args[0])
		}
		if key.Len() != 16 && key.Len() != 24 && key.Len() != 32 {
			return []Value{NilVal{}, &ErrVal{NonNil: True}}
		}
		return []Value{&Opaque{Kind: "aes", Args: in.snapshot(key)}, &ErrVal{NonNil: False}}
	case "github.com/NickBall/go-aes-key-wrap.Wrap":
		// RFC 3394 key wrap as an uninterpreted function of (key, plaintext): n+8 bytes; Unwrap inverts exactly these
		args := in.args(x, sig)
		blk, ok := args[0].(*Opaque)
		cek, ok2 := args[1].(*Slice)
		if !ok || !ok2 || blk.Kind != "aes" {
			in.fail(x, "keywrap.Wrap over %T, %T", args[0], args[1])
		}
		if cek.Len()%8 != 0 {
			return []Value{&Slice{Back: &Backing{}, Elem: types.Typ[types.Uint8]}, &ErrVal{NonNil: True}}
		}
		out := in.OpaqueBytes("KWrap", [][]Value{blk.Args, in.snapshot(cek)}, cek.Len()+8, "RFC 3394 wrap")
		return []Value{&Slice{Back: &Backing{E: cellsOf(out)}, Hi: len(out), Cap: len(out), Elem: types.Typ[types.Uint8]}, &ErrVal{NonNil: False}}
	case "github.com/NickBall/go-aes-key-wrap.Unwrap":
		args := in.args(x, sig)
		blk, ok := args[0].(*Opaque)
		ct, ok2 := args[1].(*Slice)
		if !ok || !ok2 || blk.Kind != "aes" {
			in.fail(x, "keywrap.Unwrap over %T, %T", args[0], args[1])
		}
		if ct.Len() < 16 {
			in.crash(x, "keywrap.Unwrap of %d bytes (the library slices cipherText[:8] and concatenates at least one block)", ct.Len())
		}
		n := ct.Len()/8 - 1
		cts := in.snapshot(ct)[:8*(n+1)]
		// the output of Wrap under the same key unwraps to its plaintext and passes the integrity check
		if id0, k0, ok0 := in.OpaqueOf(cts[0]); ok0 && k0 == 0 {
			if t, okT := in.OpaqueDesc[id0]; okT && t.Kind == "KWrap" && len(t.Inputs) == 2 && len(t.Inputs[1])+8 == len(cts) && in.termKey(t.Inputs[0]) == in.termKey(blk.Args) {
				all := true
				for i := 1; i < len(cts); i++ {
					if id, k, okI := in.OpaqueOf(cts[i]); !okI || id != id0 || k != i {
						all = false
						break
					}
				}
				if all {
					pl := append([]Value{}, t.Inputs[1]...)
					return []Value{&Slice{Back: &Backing{E: cellsOf(pl)}, Hi: len(pl), Cap: len(pl), Elem: types.Typ[types.Uint8]}, &ErrVal{NonNil: False}}
				}
			}
		}
		out := in.OpaqueBytes("KUnwrap", [][]Value{blk.Args, cts}, 8*n+1, "RFC 3394 unwrap / integrity bit")
		bad := out[8*n].(*Bits).Bits()[0]
		return []Value{&Slice{Back: &Backing{E: cellsOf(out[:8*n])}, Hi: 8 * n, Cap: 8 * n, Elem: types.Typ[types.Uint8]}, &ErrVal{NonNil: bad}}
	case "(*bytes.Buffer).Write", "(*bytes.Buffer).WriteByte", "(*bytes.Buffer).WriteString", "(*bytes.Buffer).Len", "(*bytes.Buffer).Bytes", "(*bytes.Buffer).Reset":
		// a write-only buffer (nothing is read back through the io.Reader side): its content is the slice in field buf;
		// every write allocates (the capacity of what Bytes returns is an implementation detail)
		var bs *Struct
		switch r := recv.(type) {
		case *Struct:
			bs = r
		case *Ptr:
			bs, _ = r.To.V.(*Struct)
		}
		if bs == nil || bs.F["buf"] == nil {
			in.fail(x, "bytes.Buffer method on %T", recv)
		}
		if off, ok := bs.F["off"]; ok {
			if ob, isB := off.V.(*Bits); !isB {
				in.fail(x, "bytes.Buffer with an undetermined read offset")
			} else if k, isK := in.D.ConstVal(ob); !isK || k != 0 {
				in.fail(x, "bytes.Buffer that has been read from")
			}
		}
		var cur []Value
		switch c := bs.F["buf"].V.(type) {
		case *Slice:
			for i := 0; i < c.Len(); i++ {
				cur = append(cur, c.At(i).V)
			}
		case NilVal, nil:
		default:
			in.fail(x, "bytes.Buffer content is %T", c)
		}
		u8 := types.Typ[types.Uint8]
		mk := func(vs []Value) *Slice {
			return &Slice{Back: &Backing{E: cellsOf(vs)}, Hi: len(vs), Cap: len(vs), Elem: u8, CapUnknown: true}
		}
		method := name[strings.LastIndex(name, ".")+1:]
		switch method {
		case "Len":
			return []Value{in.D.Const(int64(len(cur)), 64, true)}
		case "Bytes":
			if len(cur) == 0 {
				if _, isNil := bs.F["buf"].V.(NilVal); isNil || bs.F["buf"].V == nil {
					return []Value{NilVal{}}
				}
			}
			out := make([]Value, len(cur))
			for i, v := range cur {
				out[i] = Copy(v)
			}
			return []Value{mk(out)}
		case "Reset":
			in.store(bs.F["buf"], mk(nil))
			return nil
		}
		var add []Value
		a0 := in.expr(x.Args[0])
		switch method {
		case "Write":
			switch src := a0.(type) {
			case *Slice:
				for j := 0; j < src.Len(); j++ {
					add = append(add, Copy(src.At(j).V))
				}
			case NilVal:
			default:
				in.fail(x, "bytes.Buffer.Write of %T", a0)
			}
		case "WriteByte":
			b, ok := a0.(*Bits)
			if !ok {
				in.fail(x, "bytes.Buffer.WriteByte of %T", a0)
			}
			add = append(add, in.D.Resize(b, 8, false))
		case "WriteString":
			sv, ok := a0.(*StrVal)
			if !ok || !sv.Known {
				in.fail(x, "bytes.Buffer.WriteString of an unknown string")
			}
			for j := 0; j < len(sv.S); j++ {
				add = append(add, in.D.Const(int64(sv.S[j]), 8, false))
			}
		}
		next := make([]Value, 0, len(cur)+len(add))
		for _, v := range cur {
			next = append(next, Copy(v))
		}
		next = append(next, add...)
		in.store(bs.F["buf"], mk(next))
		if method == "WriteByte" {
			return []Value{&ErrVal{NonNil: False}}
		}
		return []Value{in.D.Const(int64(len(add)), 64, true), &ErrVal{NonNil: False}}
	case "(*sync.Pool).Get":
		// a pooled object has the shape of what New builds and the content its previous user left: every leaf is
		// Stale until this user stores into it; an operation on a Stale value leaves the interpreter's subset
		var ps *Struct
		switch r := recv.(type) {
		case *Struct:
			ps = r
		case *Ptr:
			ps, _ = r.To.V.(*Struct)
		}
		if ps == nil || ps.F["New"] == nil {
			in.fail(x, "sync.Pool.Get on %T", recv)
		}
		fv, ok := ps.F["New"].V.(*FuncVal)
		if !ok {
			in.fail(x, "sync.Pool without a New function (Get may return nil)")
		}
		var res []Value
		if fv.Decl != nil {
			res = in.callFunc(fv.Decl, nil, nil, nil)
		} else if fv.Lit != nil {
			res = in.callLit(fv.Lit, fv.Pkg, fv.Env, "func literal", nil)
		} else {
			in.fail(x, "sync.Pool New function value")
		}
		if len(res) != 1 {
			in.fail(x, "sync.Pool New result")
		}
		obj := res[0]
		if ifc, ok := obj.(*Iface); ok {
			obj = ifc.Dyn
		}
		p, ok := obj.(*Ptr)
		if !ok {
			in.fail(x, "sync.Pool object is %T, not a pointer", obj)
		}
		p.To.V = staleValue(p.To.V)
		return res
	case "(*sync.Pool).Put":
		in.args(x, sig)
		return nil
	case "(*sync.Once).Do":
		// the function runs on the paths on which this Once has not fired yet
		p, okp := recv.(*Ptr)
		fv, okf := in.expr(x.Args[0]).(*FuncVal)
		if !okp || !okf {
			in.fail(x, "sync.Once.Do on %T with %T", recv, in.expr(x.Args[0]))
		}
		if in.onceDone == nil {
			in.onceDone = map[*Cell]Node{}
		}
		done, seen := in.onceDone[p.To]
		if !seen {
			done = False
		}
		saved := in.live
		need := in.D.M.And(saved, in.D.M.Not(done))
		in.onceDone[p.To] = in.D.M.Or(done, saved)
		if need != False {
			in.live = need
			in.D.Cond = need
			if fv.Decl != nil {
				in.callFunc(fv.Decl, nil, nil, nil)
			} else if fv.Lit != nil {
				in.callLit(fv.Lit, fv.Pkg, fv.Env, "func literal", nil)
			} else {
				in.fail(x, "sync.Once.Do function value")
			}
			in.live = saved
			in.D.Cond = saved
		}
		return nil
	case "sort.Search":
		// the library's binary search, unrolled: i, j := 0, n; while i < j { h := (i+j)/2; if !f(h) { i = h+1 } else { j = h } }
		// with i, j as symbolic integers and every step predicated on i < j
		nv, ok := in.expr(x.Args[0]).(*Bits)
		fv, ok2 := in.expr(x.Args[1]).(*FuncVal)
		if !ok || !ok2 {
			in.fail(x, "sort.Search arguments")
		}
		_, hiN := in.D.Range(nv.Bits(), nv.Signed)
		if !hiN.IsInt64() || hiN.Int64() > 1<<20 {
			in.fail(x, "sort.Search over an unbounded range")
		}
		steps := 1
		for k := hiN.Int64(); k > 0; k >>= 1 {
			steps++
		}
		w := nv.W
		i := in.D.Const(0, w, true)
		j := in.D.Resize(nv, w, true)
		saved := in.live
		for it := 0; it < steps; it++ {
			c := in.D.Cmp(token.LSS, i, j)
			lc := in.D.M.And(saved, c)
			if lc == False {
				break
			}
			h := in.D.Shift(token.SHR, in.D.AddSub(token.ADD, i, j), 1)
			in.live = lc
			in.D.Cond = lc
			var res []Value
			if fv.Decl != nil {
				res = in.callFunc(fv.Decl, nil, nil, []Value{h})
			} else if fv.Lit != nil {
				res = in.callLit(fv.Lit, fv.Pkg, fv.Env, "func literal", []Value{h})
			} else {
				in.fail(x, "sort.Search predicate")
			}
			in.live = saved
			in.D.Cond = saved
			b, okb := res[0].(*Bits)
			if !okb {
				in.fail(x, "sort.Search predicate result")
			}
			t := b.Bits()[0]
			one := in.D.Const(1, w, true)
			ni := in.D.ITE(in.D.M.And(c, in.D.M.Not(t)), in.D.AddSub(token.ADD, h, one), i)
			nj := in.D.ITE(in.D.M.And(c, t), h, j)
			i, j = ni, nj
		}
		if in.D.M.And(saved, in.D.Cmp(token.LSS, i, j)) != False {
			in.fail(x, "sort.Search did not converge within %d steps", steps)
		}
		return []Value{i}
	case "crypto/cipher.NewCBCDecrypter", "crypto/cipher.NewCBCEncrypter":
		args := in.args(x, sig)
		blk, ok := args[0].(*Opaque)
		iv, ok2 := args[1].(*Slice)
		if !ok || !ok2 || blk.Kind != "aes" || iv.Len() != 16 {
			in.fail(x, "CBC mode over %T with iv %T", args[0], args[1])
		}
		kind := "cbcdec"
		if strings.HasSuffix(name, "Encrypter") {
			kind = "cbcenc"
		}
		return []Value{&Opaque{Kind: kind, Args: blk.Args, State: &Cell{&Slice{Back: &Backing{E: cellsOf(in.snapshot(iv))}, Hi: 16, Cap: 16}}}}
	case "github.com/jacobsa/crypto/cmac.New":
		args := in.args(x, sig)
		key, ok := args[0].(*Slice)
		if !ok {
			in.fail(x, "cmac key is %T", args[0])
		}
		if key.Len() != 16 && key.Len() != 24 && key.Len() != 32 {
			return []Value{NilVal{}, &ErrVal{NonNil: True}}
		}
		return []Value{&Opaque{Kind: "cmac", Args: in.snapshot(key), State: &Cell{&Slice{Back: &Backing{}}}}, &ErrVal{NonNil: False}}
	}
	if recv != nil {
		if o, ok := recv.(*Opaque); ok && o.Kind != "extern" {
			return in.opaqueMethod(o, fn.Name(), x)
		}
	}
	in.fail(x, "call of %s is not modelled", name)
	return nil
}

func cellsOf(vs []Value) []*Cell {
	out := make([]*Cell, len(vs))
	for i, v := range vs {
		out[i] = &Cell{v}
	}
	return out
}

// extractByte returns byte k (little-endian numbering) of an integer value, lazily if needed.
func (in *Interp) extractByte(v *Bits, k int) *Bits {
	f := func() []Node {
		b := v.Bits()
		out := make([]Node, 8)
		for j := 0; j < 8; j++ {
			if 8*k+j < len(b) {
				out[j] = b[8*k+j]
			} else {
				out[j] = False
			}
		}
		return out
	}
	if v.Materialised() {
		return &Bits{W: 8, b: f()}
	}
	r := &Bits{W: 8, lazy: f}
	// a one-byte value that is known to fit keeps its linear form
	if k == 0 && v.Lin != nil && in.D.fits(v.Lin, 8, false) {
		r.Lin = v.Lin
	}
	return r
}

// snapshot copies the current abstract bytes of a slice.
func (in *Interp) snapshot(s *Slice) []Value {
	out := make([]Value, s.Len())
	for i := range out {
		out[i] = s.At(i).V
	}
	return out
}

// termKey renders abstract bytes canonically (node ids), for naming opaque results.
func (in *Interp) termKey(vs []Value) string {
	var sb strings.Builder
	for _, v := range vs {
		switch x := v.(type) {
		case *Bits:
			for _, n := range x.Bits() {
				fmt.Fprintf(&sb, "%d.", n)
			}
			sb.WriteString("|")
		default:
			sb.WriteString(in.Show(v) + "|")
		}
	}
	return sb.String()
}

// OpaqueBytes returns n bytes that are an uninterpreted function of the given inputs. Equal inputs give
// equal (the same) symbolic bytes. desc is a readable description used for variable names in reports.
func (in *Interp) OpaqueBytes(kind string, inputs [][]Value, n int, desc string) []Value {
	key := kind
	for _, g := range inputs {
		key += "{" + in.termKey(g) + "}"
	}
	id, ok := in.opaqueIDs[key]
	if !ok && in.live != True && in.live != False {
		// congruence under the path condition: an existing term of the same kind whose inputs are equal on every path
		// that is executing now yields the same outputs on those paths
		for oid := 1; oid <= len(in.OpaqueDesc) && !ok; oid++ {
			t := in.OpaqueDesc[oid]
			if t.Kind != kind || len(t.Inputs) != len(inputs) {
				continue
			}
			same := true
			for g := range inputs {
				if len(t.Inputs[g]) != len(inputs[g]) {
					same = false
					break
				}
				for i := range inputs[g] {
					a, oka := t.Inputs[g][i].(*Bits)
					b, okb := inputs[g][i].(*Bits)
					if !oka || !okb || a.W != b.W {
						same = false
						break
					}
					ab, bb := a.Bits(), b.Bits()
					for j := range ab {
						if ab[j] != bb[j] && in.D.M.And(in.live, in.D.M.Xor(ab[j], bb[j])) != False {
							same = false
							break
						}
					}
					if !same {
						break
					}
				}
				if !same {
					break
				}
			}
			if same {
				id, ok = oid, true
			}
		}
	}
	if !ok {
		if in.opaqueIDs == nil {
			in.opaqueIDs = map[string]int{}
			in.OpaqueDesc = map[int]OpaqueTerm{}
		}
		id = len(in.opaqueIDs) + 1
		in.opaqueIDs[key] = id
		in.OpaqueDesc[id] = OpaqueTerm{Kind: kind, Inputs: inputs, Desc: desc}
	}
	out := make([]Value, n)
	for i := 0; i < n; i++ {
		name := fmt.Sprintf("%s#%d[%d]", kind, id, i)
		if si := in.D.SymInfo(name); si != nil {
			b := make([]Node, 8)
			for j := 0; j < 8; j++ {
				b[j] = in.D.M.mk(int32(si.Vars[j]), False, True)
			}
			out[i] = &Bits{W: 8, b: b}
		} else {
			out[i] = in.D.Sym(name, 8, false, false)
		}
	}
	return out
}

// OpaqueTerm records what an opaque result was computed from (for layout checks of crypto blocks).
type OpaqueTerm struct {
	Kind   string
	Inputs [][]Value
	Desc   string
}

// OpaqueOf returns the opaque term a symbolic byte belongs to (by variable name), or 0.
func (in *Interp) OpaqueOf(v Value) (id int, idx int, ok bool) {
	b, isBits := v.(*Bits)
	if !isBits || b.W != 8 {
		return 0, 0, false
	}
	bs := b.Bits()
	nd := in.D.M.nodes[bs[0]]
	if bs[0] <= True || nd.lo != False || nd.hi != True {
		return 0, 0, false
	}
	name := in.D.M.varName[nd.v] // kind#id[i][0]
	h := strings.Index(name, "#")
	l := strings.Index(name, "[")
	if h < 0 || l < h {
		return 0, 0, false
	}
	var kid, bi, bit int
	if _, err := fmt.Sscanf(name[h:], "#%d[%d][%d]", &kid, &bi, &bit); err != nil || bit != 0 {
		return 0, 0, false
	}
	// all eight bits must be the variables of the same byte
	for j := 1; j < 8; j++ {
		n2 := in.D.M.nodes[bs[j]]
		if bs[j] <= True || n2.lo != False || n2.hi != True || in.D.M.varName[n2.v] != fmt.Sprintf("%s[%d][%d]", name[:l], bi, j) {
			return 0, 0, false
		}
	}
	return kid, bi, true
}

// opaqueMethod models methods of cipher.Block and hash.Hash objects.
func (in *Interp) opaqueMethod(o *Opaque, method string, x *ast.CallExpr) []Value {
	switch o.Kind + "." + method {
	case "aes.Encrypt", "aes.Decrypt":
		dst, ok1 := in.expr(x.Args[0]).(*Slice)
		src, ok2 := in.expr(x.Args[1]).(*Slice)
		if !ok1 || !ok2 {
			in.fail(x, "cipher block arguments")
		}
		if dst.Len() < 16 || src.Len() < 16 {
			in.crash(x, "cipher.Block.%s with dst %d / src %d bytes (needs 16)", method, dst.Len(), src.Len())
		}
		blk := make([]Value, 16)
		for i := range blk {
			blk[i] = src.At(i).V
		}
		kind := "AESenc"
		if method == "Decrypt" {
			kind = "AESdec"
		}
		out := in.OpaqueBytes(kind, [][]Value{o.Args, blk}, 16, kind)
		for i := 0; i < 16; i++ {
			in.store(dst.At(i), out[i])
		}
		return nil
	case "cbcdec.CryptBlocks", "cbcenc.CryptBlocks":
		dst, ok1 := in.expr(x.Args[0]).(*Slice)
		src, ok2 := in.expr(x.Args[1]).(*Slice)
		if !ok1 || !ok2 || src.Len()%16 != 0 || dst.Len() < src.Len() {
			in.fail(x, "CryptBlocks arguments on a live path")
		}
		prev := o.msg()
		srcv := in.snapshot(src)
		for k := 0; k*16 < len(srcv); k++ {
			blk := srcv[k*16 : k*16+16]
			var outb []Value
			if o.Kind == "cbcdec" {
				dec := in.OpaqueBytes("AESdec", [][]Value{o.Args, blk}, 16, "AESdec")
				for j := 0; j < 16; j++ {
					outb = append(outb, in.D.Bitwise(token.XOR, dec[j].(*Bits), prev[j].(*Bits)))
				}
				prev = blk
			} else {
				var xin []Value
				for j := 0; j < 16; j++ {
					xin = append(xin, in.D.Bitwise(token.XOR, blk[j].(*Bits), prev[j].(*Bits)))
				}
				outb = in.OpaqueBytes("AESenc", [][]Value{o.Args, xin}, 16, "AESenc")
				prev = outb
			}
			for j := 0; j < 16; j++ {
				in.store(dst.At(k*16+j), outb[j])
			}
		}
		in.store(o.State, &Slice{Back: &Backing{E: cellsOf(prev)}, Hi: 16, Cap: 16})
		return nil
	case "cbcdec.BlockSize", "cbcenc.BlockSize":
		return []Value{in.D.Const(16, 64, true)}
	case "aes.BlockSize":
		return []Value{in.D.Const(16, 64, true)}
	case "cmac.Write":
		src, ok := in.expr(x.Args[0]).(*Slice)
		if !ok {
			in.fail(x, "hash.Write argument")
		}
		// hash state lives in a cell so that writes under symbolic branches are merged (or split) like any store
		bk := &Backing{}
		for _, v := range append(o.msg(), in.snapshot(src)...) {
			bk.E = append(bk.E, &Cell{v})
		}
		in.store(o.State, &Slice{Back: bk, Hi: len(bk.E), Cap: len(bk.E), Elem: types.Typ[types.Uint8]})
		return []Value{in.D.Const(int64(src.Len()), 64, true), &ErrVal{NonNil: False}}
	case "cmac.Sum":
		pre := in.expr(x.Args[0])
		var prefix []Value
		if s, ok := pre.(*Slice); ok {
			prefix = in.snapshot(s)
		}
		out := in.OpaqueBytes("CMAC", [][]Value{o.Args, o.msg()}, 16, "CMAC")
		bk := &Backing{}
		for _, v := range append(prefix, out...) {
			bk.E = append(bk.E, &Cell{v})
		}
		return []Value{&Slice{Back: bk, Hi: len(bk.E), Cap: len(bk.E), Elem: types.Typ[types.Uint8]}}
	case "cmac.Reset":
		in.store(o.State, &Slice{Back: &Backing{}})
		return nil
	}
	in.fail(x, "method %s on opaque %s is not modelled", method, o.Kind)
	return nil
}

// OpaqueIDsIn returns the ids of the opaque terms whose bytes occur in the support of the given functions.
func (in *Interp) OpaqueIDsIn(ns []Node) map[int]bool {
	out := map[int]bool{}
	for _, n := range ns {
		for _, v := range in.D.M.Support(n) {
			name := in.D.M.VarName(v)
			h := strings.Index(name, "#")
			if h < 0 {
				continue
			}
			var id, bi, bit int
			if _, err := fmt.Sscanf(name[h:], "#%d[%d][%d]", &id, &bi, &bit); err == nil {
				if _, ok := in.OpaqueDesc[id]; ok {
					out[id] = true
				}
			}
		}
	}
	return out
}

// OpaqueSubst maps every variable of opaque term `from` to the corresponding variable of term `to`.
func (in *Interp) OpaqueSubst(from, to int, nbytes int) map[int]Node {
	sub := map[int]Node{}
	kf, kt := in.OpaqueDesc[from].Kind, in.OpaqueDesc[to].Kind
	for i := 0; i < nbytes; i++ {
		sf := in.D.SymInfo(fmt.Sprintf("%s#%d[%d]", kf, from, i))
		st := in.D.SymInfo(fmt.Sprintf("%s#%d[%d]", kt, to, i))
		if sf == nil || st == nil {
			continue
		}
		for j := 0; j < 8; j++ {
			sub[sf.Vars[j]] = in.D.M.VarNode(st.Vars[j])
		}
	}
	return sub
}

// hexDecodeChars decodes pairs of characters: the two digits hex.EncodeToString produced for a byte give that byte back,
// any other pair an uninterpreted byte and an uninterpreted "not two hex digits" bit. A trailing odd character is
// ignored here (the caller reports the length error).
func (in *Interp) hexDecodeChars(chars []Value) ([]Value, Node) {
	var out []Value
	invalid := False
	for i := 0; i+1 < len(chars); i += 2 {
		if id1, k1, ok1 := in.OpaqueOf(chars[i]); ok1 && k1 == 0 {
			if id2, k2, ok2 := in.OpaqueOf(chars[i+1]); ok2 && id2 == id1 && k2 == 1 {
				if t, ok := in.OpaqueDesc[id1]; ok && t.Kind == "hexchar" && len(t.Inputs) == 1 && len(t.Inputs[0]) == 1 {
					out = append(out, t.Inputs[0][0])
					continue
				}
			}
		}
		if c1, ok1 := chars[i].(*Bits); ok1 {
			if c2, ok2 := chars[i+1].(*Bits); ok2 {
				if k1, isC1 := in.D.ConstVal(c1); isC1 {
					if k2, isC2 := in.D.ConstVal(c2); isC2 {
						h, l := hexDigit(k1), hexDigit(k2)
						if h < 0 || l < 0 {
							invalid = True
							out = append(out, in.D.Const(0, 8, false))
						} else {
							out = append(out, in.D.Const(h<<4|l, 8, false))
						}
						continue
					}
				}
			}
		}
		o := in.OpaqueBytes("hexval", [][]Value{{chars[i], chars[i+1]}}, 2, "hex value / validity")
		out = append(out, o[0])
		invalid = in.D.M.Or(invalid, o[1].(*Bits).Bits()[0])
	}
	return out, invalid
}

func hexDigit(c int64) int64 {
	switch {
	case c >= '0' && c <= '9':
		return c - '0'
	case c >= 'a' && c <= 'f':
		return c - 'a' + 10
	case c >= 'A' && c <= 'F':
		return c - 'A' + 10
	}
	return -1
}

// staleValue: v with every leaf replaced by Stale (the aggregate shape is kept, so element and field stores work).
func staleValue(v Value) Value {
	switch x := v.(type) {
	case *Struct:
		n := &Struct{T: x.T, F: map[string]*Cell{}, Order: x.Order}
		for k, c := range x.F {
			n.F[k] = &Cell{staleValue(c.V)}
		}
		return n
	case *Array:
		n := &Array{Elem: x.Elem}
		for _, c := range x.E {
			n.E = append(n.E, &Cell{staleValue(c.V)})
		}
		return n
	}
	return Stale{}
}

// noFmtWrap: the error may have been built by fmt.Errorf with %w on a live path: its unwrap chain is not modelled.
func (in *Interp) noFmtWrap(x ast.Node, ev *ErrVal, what string) {
	if ev.Cause == "%w?" {
		in.fail(x, "%s of an error built by fmt.Errorf with %%w", what)
	}
	if c, ok := errCauseConds(ev)["%w?"]; ok && in.D.M.And(in.live, c) != False {
		in.fail(x, "%s of an error that may have been built by fmt.Errorf with %%w", what)
	}
}
