package absint

import (
	"fmt"
	"go/ast"
	"go/types"
	"golang.org/x/tools/go/packages"
	"os"
	"runtime/debug"
	"sort"
	"strings"
	"time"
)

// Value is an abstract value: *Bits, *ErrVal, NilVal, *StrVal, *Struct, *Array, *Slice, *Ptr, *Iface, *Opaque, Tuple.
type Value interface{}

type Cell struct{ V Value }

// SplitRequest asks the client to partition the input space by Cond and re-run each part
// (trace partitioning): raised when a merge would need a symbolic slice length.
type SplitRequest struct {
	Cond Node
	Why  string
}

func (s SplitRequest) Error() string { return "unsupported: " + s.Why }

// Panic reports that the interpreted code definitely panics (index/slice out of range, nil dereference, short
// buffer handed to a fixed-size primitive, explicit panic) for every input satisfying Cond, which is satisfiable.
type Panic struct {
	Why  string
	Cond Node
}

func (p Panic) Error() string { return "runtime panic on a reachable path: " + p.Why }

// ErrVal is an error value that is non-nil exactly under NonNil.
// ErrVal is an error value: non-nil exactly under NonNil. Tag identifies a sentinel created by a package-level
// initialiser (var ErrX = errors.New(…)); "" for errors created while a function runs.
type ErrVal struct {
	NonNil Node
	Tag    string // "" fresh error object, "?" identity depends on the path (see TagG), else the sentinel's id
	Cause  string // for wrapped errors: the Tag of the wrapped error (errors.Cause); "?" see CauseG
	// TagG / CauseG (with Tag resp. Cause == "?"): sentinel id -> the condition under which this value is that
	// sentinel (resp. wraps it); on all other non-nil paths it is a fresh error object
	TagG, CauseG map[string]Node
}

// restrictErr: the error that is ev under c and nil otherwise (identity and cause are kept).
func (in *Interp) restrictErr(ev *ErrVal, c Node) *ErrVal {
	out := &ErrVal{NonNil: in.D.M.And(c, ev.NonNil), Tag: ev.Tag, Cause: ev.Cause}
	if ev.TagG != nil {
		out.TagG = map[string]Node{}
		for t, n := range ev.TagG {
			out.TagG[t] = in.D.M.And(c, n)
		}
	}
	if ev.CauseG != nil {
		out.CauseG = map[string]Node{}
		for t, n := range ev.CauseG {
			out.CauseG[t] = in.D.M.And(c, n)
		}
	}
	return out
}

// errTagConds: sentinel id -> condition under which ev is that sentinel.
func errTagConds(ev *ErrVal) map[string]Node {
	if ev.Tag == "?" {
		return ev.TagG
	}
	if ev.Tag != "" {
		return map[string]Node{ev.Tag: ev.NonNil}
	}
	return nil
}

// errCauseConds: sentinel id -> condition under which errors.Cause(ev) is that sentinel (an error that wraps nothing
// is its own cause).
func errCauseConds(ev *ErrVal) map[string]Node {
	if ev.Cause == "?" {
		return ev.CauseG
	}
	if ev.Cause != "" {
		return map[string]Node{ev.Cause: ev.NonNil}
	}
	return errTagConds(ev)
}

type NilVal struct{}

// Stale is the content of pooled memory (sync.Pool) that its current user has not overwritten yet.
type Stale struct{}
type StrVal struct {
	Known bool
	S     string
	// Chars, when non-nil, is the symbolic content of a string of known length (one 8-bit value per byte).
	Chars []Value
}
type Struct struct {
	T     types.Type
	F     map[string]*Cell
	Order []string
}
type Array struct {
	Elem types.Type
	E    []*Cell
}
type Backing struct{ E []*Cell }
type Slice struct {
	Back   *Backing
	Lo, Hi int
	Cap    int
	Nil    bool
	Elem   types.Type
	// CapUnknown: the slice comes from an append that had to reallocate; its real capacity is unspecified
	CapUnknown bool
}
type Ptr struct {
	To *Cell
	T  types.Type // pointee type
}
type Iface struct {
	Dyn  Value // NilVal for a nil interface
	DynT types.Type
}

// Opaque is an uninterpreted object or function result (cipher.Block, CMAC state, …).
type Opaque struct {
	Kind  string
	Args  []Value
	State *Cell // hash-like objects: accumulated message as a *Slice (stored through the write log)
}

func (o *Opaque) msg() []Value {
	if o.State == nil || o.State.V == nil {
		return nil
	}
	s := o.State.V.(*Slice)
	out := make([]Value, s.Len())
	for i := range out {
		out[i] = s.At(i).V
	}
	return out
}

type Tuple []Value

func (s *Slice) Len() int { return s.Hi - s.Lo }

func (s *Slice) At(i int) *Cell {
	if i < 0 || s.Lo+i >= s.Hi {
		panic(Panic{Why: fmt.Sprintf("slice index %d out of range [0,%d)", i, s.Len())})
	}
	return s.Back.E[s.Lo+i]
}

// IntBits is the width of int, uint and uintptr (64, or 32 to interpret the code as built for a 32-bit platform).
// Set it before creating the interpreter and restore it afterwards; interpreters are not run concurrently.
var IntBits = 64

func widthOf(t types.Type) (int, bool, bool) {
	b, ok := t.Underlying().(*types.Basic)
	if !ok {
		return 0, false, false
	}
	switch b.Kind() {
	case types.Bool, types.UntypedBool:
		return 1, false, true
	case types.Uint8:
		return 8, false, true
	case types.Int8:
		return 8, true, true
	case types.Uint16:
		return 16, false, true
	case types.Int16:
		return 16, true, true
	case types.Uint32:
		return 32, false, true
	case types.Int32, types.UntypedRune:
		return 32, true, true
	case types.Uint, types.Uintptr:
		return IntBits, false, true
	case types.Int:
		return IntBits, true, true
	case types.Uint64:
		return 64, false, true
	case types.Int64, types.UntypedInt:
		return 64, true, true
	}
	return 0, false, false
}

func isErrorType(t types.Type) bool {
	return t != nil && types.Identical(t, types.Universe.Lookup("error").Type())
}

// Zero builds the zero value of a type.
func (in *Interp) Zero(t types.Type) Value {
	if isErrorType(t) {
		return &ErrVal{NonNil: False}
	}
	if IsTimeType(t) {
		return in.TimeValue(in.D.Const(time.Time{}.UnixNano(), 64, true), t)
	}
	switch u := t.Underlying().(type) {
	case *types.Basic:
		if w, s, ok := widthOf(t); ok {
			return in.D.Const(0, w, s)
		}
		if u.Info()&types.IsString != 0 {
			return &StrVal{Known: true}
		}
		if u.Kind() == types.UnsafePointer {
			return NilVal{} // internal fields of library types (sync.Pool); never dereferenced by interpreted code
		}
		unsupported("zero value of basic type %s", t)
	case *types.Struct:
		st := &Struct{T: t, F: map[string]*Cell{}}
		for i := 0; i < u.NumFields(); i++ {
			f := u.Field(i)
			st.F[f.Name()] = &Cell{in.Zero(f.Type())}
			st.Order = append(st.Order, f.Name())
		}
		return st
	case *types.Array:
		a := &Array{Elem: u.Elem()}
		for i := int64(0); i < u.Len(); i++ {
			a.E = append(a.E, &Cell{in.Zero(u.Elem())})
		}
		return a
	case *types.Slice:
		return &Slice{Nil: true, Elem: u.Elem(), Back: &Backing{}}
	case *types.Pointer, *types.Map, *types.Signature, *types.Chan:
		return NilVal{}
	case *types.Interface:
		return &Iface{Dyn: NilVal{}}
	}
	unsupported("zero value of type %s", t)
	return nil
}

// Copy implements Go value-copy semantics (arrays and structs are copied, references shared).
func Copy(v Value) Value {
	switch x := v.(type) {
	case *Struct:
		n := &Struct{T: x.T, F: map[string]*Cell{}, Order: x.Order}
		for k, c := range x.F {
			n.F[k] = &Cell{Copy(c.V)}
		}
		return n
	case *Array:
		n := &Array{Elem: x.Elem}
		for _, c := range x.E {
			n.E = append(n.E, &Cell{Copy(c.V)})
		}
		return n
	}
	return v
}

// Sym builds a fully symbolic value of type t rooted at path (one symbol per scalar leaf).
// msbFirst selects the BDD variable order of integer leaves.
func (in *Interp) Sym(path string, t types.Type, msbFirst bool) Value {
	switch u := t.Underlying().(type) {
	case *types.Basic:
		if w, s, ok := widthOf(t); ok {
			return in.D.Sym(path, w, s, msbFirst)
		}
	case *types.Struct:
		st := &Struct{T: t, F: map[string]*Cell{}}
		for i := 0; i < u.NumFields(); i++ {
			f := u.Field(i)
			st.F[f.Name()] = &Cell{in.Sym(path+"."+f.Name(), f.Type(), msbFirst)}
			st.Order = append(st.Order, f.Name())
		}
		return st
	case *types.Array:
		a := &Array{Elem: u.Elem()}
		for i := int64(0); i < u.Len(); i++ {
			a.E = append(a.E, &Cell{in.Sym(fmt.Sprintf("%s[%d]", path, i), u.Elem(), msbFirst)})
		}
		return a
	}
	unsupported("symbolic value of type %s at %s", t, path)
	return nil
}

// SymByteArraysInterleaved builds several [n]byte arrays whose variables are interleaved element- and bit-wise.
func (in *Interp) SymByteArraysInterleaved(names []string, n int) []*Array {
	out := make([]*Array, len(names))
	for k := range names {
		out[k] = &Array{Elem: types.Typ[types.Uint8]}
	}
	for i := 0; i < n; i++ {
		var ns []string
		for _, nm := range names {
			ns = append(ns, fmt.Sprintf("%s[%d]", nm, i))
		}
		for k, b := range in.D.SymInterleaved(ns, 8, false) {
			out[k].E = append(out[k].E, &Cell{b})
		}
	}
	return out
}

// SymBytes builds a slice of n symbolic bytes named name[i].
func (in *Interp) SymBytes(name string, n int) *Slice {
	bk := &Backing{}
	for i := 0; i < n; i++ {
		bk.E = append(bk.E, &Cell{in.D.Sym(fmt.Sprintf("%s[%d]", name, i), 8, false, false)})
	}
	return &Slice{Back: bk, Lo: 0, Hi: n, Cap: n, Elem: types.Typ[types.Uint8]}
}

// ite merges two values of the same shape under condition c.
func (in *Interp) ite(c Node, a, b Value) Value {
	if c == True {
		return a
	}
	if c == False {
		return b
	}
	// decided on every path that is executing: the other alternative belongs to dead paths only
	if !in.rawIte && in.live != True && in.live != False {
		if in.D.M.And(in.live, c) == False {
			return b
		}
		if in.D.M.And(in.live, in.D.M.Not(c)) == False {
			return a
		}
	}
	if a == nil {
		return b
	}
	if b == nil {
		return a
	}
	switch x := a.(type) {
	case *MapVal:
		if y, ok := b.(*MapVal); ok && x == y {
			return x
		}
	case *FuncVal:
		if y, ok := b.(*FuncVal); ok && (x == y || (x.Lit == y.Lit && x.Decl == y.Decl)) {
			return x
		}
	case *Bits:
		y, ok := b.(*Bits)
		if !ok {
			unsupported("ite of integer and %T", b)
		}
		if x.W != y.W {
			y = in.D.Resize(y, x.W, x.Signed)
		}
		return in.D.ITE(c, x, y)
	case *ErrVal:
		switch y := b.(type) {
		case *ErrVal:
			pick := func(a, b string) string {
				switch {
				case a == b && a != "?":
					return a
				case x.NonNil == False:
					return b
				case y.NonNil == False:
					return a
				}
				return "?"
			}
			out := &ErrVal{NonNil: in.D.M.ITE(c, x.NonNil, y.NonNil), Tag: pick(x.Tag, y.Tag), Cause: pick(x.Cause, y.Cause)}
			guarded := func(fx, fy map[string]Node) map[string]Node {
				g := map[string]Node{}
				for t, cx := range fx {
					g[t] = in.D.M.And(c, cx)
				}
				for t, cy := range fy {
					g[t] = in.D.M.Or(g[t], in.D.M.And(in.D.M.Not(c), cy))
				}
				return g
			}
			if out.Tag == "?" {
				out.TagG = guarded(errTagConds(x), errTagConds(y))
			} else if x.NonNil == False && y.Tag == "?" {
				out.TagG = y.TagG
			} else if y.NonNil == False && x.Tag == "?" {
				out.TagG = x.TagG
			}
			if out.Cause == "?" {
				out.CauseG = guarded(errCauseConds(x), errCauseConds(y))
				// a side that wraps nothing contributes its own identity, which errCauseConds already returned
			} else if x.NonNil == False && y.Cause == "?" {
				out.CauseG = y.CauseG
			} else if y.NonNil == False && x.Cause == "?" {
				out.CauseG = x.CauseG
			}
			// one side wraps, the other does not: the cause must still be tracked per path
			if out.Cause != "?" && (x.Cause == "") != (y.Cause == "") && x.NonNil != False && y.NonNil != False {
				out.Cause = "?"
				out.CauseG = guarded(errCauseConds(x), errCauseConds(y))
			}
			return out
		case NilVal:
			return in.restrictErr(x, c)
		case *Iface:
			if _, isNil := y.Dyn.(NilVal); isNil {
				return in.restrictErr(x, c)
			}
		}
	case NilVal:
		switch y := b.(type) {
		case NilVal:
			return a
		case *ErrVal:
			return in.restrictErr(y, in.D.M.Not(c))
		case *Slice:
			if y.Len() == 0 {
				return y
			}
		}
	case *Struct:
		y, ok := b.(*Struct)
		if ok {
			n := &Struct{T: x.T, F: map[string]*Cell{}, Order: x.Order}
			for k, cx := range x.F {
				n.F[k] = &Cell{in.ite(c, cx.V, y.F[k].V)}
			}
			return n
		}
	case *Array:
		y, ok := b.(*Array)
		if ok && len(x.E) == len(y.E) {
			n := &Array{Elem: x.Elem}
			for i := range x.E {
				n.E = append(n.E, &Cell{in.ite(c, x.E[i].V, y.E[i].V)})
			}
			return n
		}
	case *Slice:
		switch y := b.(type) {
		case *Slice:
			if x.Back == y.Back && x.Lo == y.Lo && x.Hi == y.Hi {
				return x
			}
			if x.Len() == y.Len() {
				if x.Len() == 0 {
					return x
				}
				bk := &Backing{}
				for i := 0; i < x.Len(); i++ {
					bk.E = append(bk.E, &Cell{in.ite(c, x.At(i).V, y.At(i).V)})
				}
				return &Slice{Back: bk, Lo: 0, Hi: x.Len(), Cap: x.Len(), Elem: x.Elem}
			}
			if os.Getenv("LW_SPLITDEBUG") == "2" {
				fmt.Fprintf(os.Stderr, "SPLIT at\n%s\n", debug.Stack())
			}
			panic(SplitRequest{Cond: c, Why: fmt.Sprintf("slice length depends on a symbolic condition (%d vs %d)", x.Len(), y.Len())})
		case NilVal:
			if x.Len() == 0 {
				return x
			}
		}
	case *Ptr:
		if y, ok := b.(*Ptr); ok && x.To == y.To {
			return x
		}
		panic(SplitRequest{Cond: c, Why: "pointer identity depends on a symbolic condition"})
	case *Iface:
		if y, ok := b.(*Iface); ok {
			_, xn := x.Dyn.(NilVal)
			_, yn := y.Dyn.(NilVal)
			if xn && yn {
				return x
			}
			if !xn && !yn && types.Identical(x.DynT, y.DynT) {
				return &Iface{Dyn: in.ite(c, x.Dyn, y.Dyn), DynT: x.DynT}
			}
		}
		if y, ok := b.(*ErrVal); ok {
			if _, xn := x.Dyn.(NilVal); xn {
				return in.restrictErr(y, in.D.M.Not(c))
			}
		}
		panic(SplitRequest{Cond: c, Why: "interface dynamic type depends on a symbolic condition"})
	case *StrVal:
		if y, ok := b.(*StrVal); ok {
			if x.Known && y.Known && x.S == y.S {
				return x
			}
			return &StrVal{}
		}
	case *Opaque:
		if y, ok := b.(*Opaque); ok && x == y {
			return x
		}
		panic(SplitRequest{Cond: c, Why: "opaque object identity depends on a symbolic condition"})
	case Tuple:
		y := b.(Tuple)
		n := make(Tuple, len(x))
		for i := range x {
			n[i] = in.ite(c, x[i], y[i])
		}
		return n
	}
	panic(SplitRequest{Cond: c, Why: fmt.Sprintf("cannot merge %T with %T under a symbolic condition", a, b)})
}

// Show renders a value for reports (compact).
func (in *Interp) Show(v Value) string {
	switch x := v.(type) {
	case nil:
		return "<unset>"
	case *Bits:
		if k, ok := in.D.ConstVal(x); ok {
			return fmt.Sprint(k)
		}
		if !x.Materialised() && x.Lin != nil {
			return "lin(" + x.Lin.String() + ")"
		}
		var ps []string
		bs := x.Bits()
		hi := len(bs) - 1
		for hi > 0 && bs[hi] == False {
			hi--
		}
		for i := hi; i >= 0; i-- {
			ps = append(ps, in.D.Describe(in.D.M.Simplify(bs[i], in.D.Cond)))
		}
		return "[" + strings.Join(ps, " ") + "]"
	case *ErrVal:
		switch x.NonNil {
		case False:
			return "nil-error"
		case True:
			return "error"
		}
		return "error-iff(" + in.D.Describe(x.NonNil) + ")"
	case NilVal:
		return "nil"
	case *StrVal:
		return fmt.Sprintf("%q", x.S)
	case *Struct:
		var ks []string
		for k := range x.F {
			ks = append(ks, k)
		}
		sort.Strings(ks)
		var ps []string
		for _, k := range ks {
			ps = append(ps, k+":"+in.Show(x.F[k].V))
		}
		return "{" + strings.Join(ps, " ") + "}"
	case *Array:
		var ps []string
		for _, c := range x.E {
			ps = append(ps, in.Show(c.V))
		}
		return "[" + strings.Join(ps, ", ") + "]"
	case *Slice:
		var ps []string
		for i := 0; i < x.Len(); i++ {
			ps = append(ps, in.Show(x.At(i).V))
		}
		return "[]{" + strings.Join(ps, ", ") + "}"
	case *Ptr:
		return "&" + in.Show(x.To.V)
	case *Iface:
		return "iface(" + in.Show(x.Dyn) + ")"
	case *Opaque:
		return x.Kind + "(…)"
	}
	return fmt.Sprintf("%T", v)
}

// time.Time (and named types whose underlying type is time.Time's struct) is modelled as one signed 64-bit count of
// nanoseconds since the Unix epoch, UTC: a Struct with the single pseudo-field "ns". Before/After/Equal are signed
// comparisons, Add/Sub two's-complement addition and subtraction (time.Time.Sub saturates outside ±292 years, which
// the clients exclude through their input domain). Location and the monotonic reading are not modelled.

// IsTimeType reports whether t is time.Time or a named type defined as time.Time.
func IsTimeType(t types.Type) bool {
	st, ok := t.Underlying().(*types.Struct)
	if !ok || st.NumFields() != 3 {
		return false
	}
	f := st.Field(0)
	return f.Pkg() != nil && f.Pkg().Path() == "time" && f.Name() == "wall" && st.Field(1).Name() == "ext" && st.Field(2).Name() == "loc"
}

// TimeValue wraps a nanosecond count as an abstract time.Time of type t.
func (in *Interp) TimeValue(ns *Bits, t types.Type) *Struct {
	return &Struct{T: t, F: map[string]*Cell{"ns": {V: ns}}, Order: []string{"ns"}}
}

// TimeNS returns the nanosecond count of an abstract time value.
func TimeNS(v Value) (*Bits, bool) {
	st, ok := v.(*Struct)
	if !ok || len(st.F) != 1 || st.F["ns"] == nil {
		return nil, false
	}
	b, ok := st.F["ns"].V.(*Bits)
	return b, ok
}

// MapVal is a Go map with constant keys (bool, integer or known string); reference semantics: copies share it.
type MapVal struct {
	KT, VT types.Type
	E      map[string]*Cell
	Order  []string
}

// FuncVal is a function value: a function literal with the cells of the activation it was created in (captured by
// reference), or a named function of the module.
type FuncVal struct {
	Lit  *ast.FuncLit
	Env  map[types.Object]*Cell
	Pkg  *packages.Package
	Decl *types.Func
	// MethodExpr: a method expression T.M (the first argument of a call is the receiver)
	MethodExpr *types.Func
	// Bound: a method value x.M: the method with its receiver (RecvCell for a pointer receiver, RecvVal a copy for a
	// value receiver)
	Bound    *types.Func
	RecvCell *Cell
	RecvVal  Value
	// BoundOpaque: a method value of an uninterpreted object
	BoundOpaque  *Opaque
	OpaqueMethod string
}

// mapKey renders a constant key; ok=false when the key is symbolic.
func (in *Interp) mapKey(v Value) (string, bool) {
	switch x := v.(type) {
	case *Bits:
		if k, ok := in.constLive(x); ok {
			return fmt.Sprintf("i:%d", k), true
		}
	case *StrVal:
		if x.Known {
			return "s:" + x.S, true
		}
	}
	return "", false
}
