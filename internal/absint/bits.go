package absint

import (
	"fmt"
	"go/token"
	"math/big"
	"sort"
	"strings"
)

// Unsupported is raised (panic) when a construct or operation is outside the interpreter's subset.
// The caller reports the whole codec as undecided, never as a violation.
type Unsupported struct{ Why string }

func (u Unsupported) Error() string { return "unsupported: " + u.Why }

func unsupported(f string, a ...interface{}) { panic(Unsupported{fmt.Sprintf(f, a...)}) }

// Dom bundles the BDD manager with the current path condition (used for range queries).
type Dom struct {
	M        *BDD
	Cond     Node // current `live` condition of the interpreter
	rc       map[string][2]*big.Int
	syms     map[string]*SymInfo
	symOrder []string
}

type SymInfo struct {
	Name   string
	W      int
	Signed bool
	Vars   []int // BDD variable index of bit i (LSB = 0)
}

func NewDom() *Dom {
	return &Dom{M: NewBDD(), Cond: True, rc: map[string][2]*big.Int{}, syms: map[string]*SymInfo{}}
}

// LinTerm is coeff * vector (vector interpreted as an unsigned or signed integer).
type LinTerm struct {
	Key    string
	Vec    []Node
	Signed bool
	Coeff  int64
}

// Lin is the mathematical integer Σ terms + K (valid only while no machine overflow occurred).
type Lin struct {
	Terms []LinTerm
	K     int64
}

// Bits is an integer/bool abstract value: W boolean functions, LSB first, possibly lazily materialised.
type Bits struct {
	W      int
	Signed bool
	b      []Node
	lazy   func() []Node
	Lin    *Lin
}

func (d *Dom) Const(v int64, w int, signed bool) *Bits {
	b := make([]Node, w)
	for i := 0; i < w; i++ {
		if i < 64 && (v>>uint(i))&1 == 1 {
			b[i] = True
		} else if i >= 64 && v < 0 {
			b[i] = True
		}
	}
	return &Bits{W: w, Signed: signed, b: b, Lin: &Lin{K: v}}
}

// MakeBits wraps explicit bit functions (LSB first).
func MakeBits(w int, signed bool, b []Node) *Bits {
	if len(b) != w {
		nb := make([]Node, w)
		for i := range nb {
			if i < len(b) {
				nb[i] = b[i]
			} else {
				nb[i] = False
			}
		}
		b = nb
	}
	return &Bits{W: w, Signed: signed, b: b}
}

func (d *Dom) Bool(n Node) *Bits { return &Bits{W: 1, b: []Node{n}} }

// Sym creates a fresh symbolic vector. msbFirst puts the most significant bit first in the BDD order
// (small BDDs for division by constants); LSB first suits multiplication by constants.
func (d *Dom) Sym(name string, w int, signed, msbFirst bool) *Bits {
	if _, dup := d.syms[name]; dup {
		unsupported("duplicate symbol %s", name)
	}
	si := &SymInfo{Name: name, W: w, Signed: signed, Vars: make([]int, w)}
	b := make([]Node, w)
	mk := func(i int) {
		si.Vars[i] = d.M.NumVars()
		b[i] = d.M.NewVar(fmt.Sprintf("%s[%d]", name, i))
	}
	if msbFirst {
		for i := w - 1; i >= 0; i-- {
			mk(i)
		}
	} else {
		for i := 0; i < w; i++ {
			mk(i)
		}
	}
	d.syms[name] = si
	d.symOrder = append(d.symOrder, name)
	return &Bits{W: w, Signed: signed, b: b}
}

func (d *Dom) SymInfo(name string) *SymInfo { return d.syms[name] }

// SymGroup creates several unsigned symbols at once with an explicit BDD variable order given as
// (symbol index, bit) pairs; bits not listed are created afterwards, LSB first.
func (d *Dom) SymGroup(names []string, widths []int, order [][2]int) []*Bits {
	out := make([]*Bits, len(names))
	infos := make([]*SymInfo, len(names))
	for k, n := range names {
		if _, dup := d.syms[n]; dup {
			unsupported("duplicate symbol %s", n)
		}
		infos[k] = &SymInfo{Name: n, W: widths[k], Vars: make([]int, widths[k])}
		out[k] = &Bits{W: widths[k], b: make([]Node, widths[k])}
		for i := range infos[k].Vars {
			infos[k].Vars[i] = -1
		}
	}
	mk := func(k, i int) {
		if infos[k].Vars[i] >= 0 {
			return
		}
		infos[k].Vars[i] = d.M.NumVars()
		out[k].b[i] = d.M.NewVar(fmt.Sprintf("%s[%d]", names[k], i))
	}
	for _, o := range order {
		mk(o[0], o[1])
	}
	for k := range names {
		for i := 0; i < widths[k]; i++ {
			mk(k, i)
		}
		d.syms[names[k]] = infos[k]
		d.symOrder = append(d.symOrder, names[k])
	}
	return out
}

// SymInterleaved creates several w-bit symbols whose BDD variables are interleaved bit by bit
// (so that comparing them with each other stays linear in size).
func (d *Dom) SymInterleaved(names []string, w int, signed bool) []*Bits {
	out := make([]*Bits, len(names))
	infos := make([]*SymInfo, len(names))
	for k, n := range names {
		if _, dup := d.syms[n]; dup {
			unsupported("duplicate symbol %s", n)
		}
		infos[k] = &SymInfo{Name: n, W: w, Signed: signed, Vars: make([]int, w)}
		out[k] = &Bits{W: w, Signed: signed, b: make([]Node, w)}
	}
	for i := 0; i < w; i++ {
		for k, n := range names {
			infos[k].Vars[i] = d.M.NumVars()
			out[k].b[i] = d.M.NewVar(fmt.Sprintf("%s[%d]", n, i))
		}
	}
	for k, n := range names {
		d.syms[n] = infos[k]
		d.symOrder = append(d.symOrder, n)
	}
	return out
}

// Bits materialises the bit functions.
func (x *Bits) Bits() []Node {
	if x.b == nil {
		if x.lazy == nil {
			unsupported("value has no bit-level form")
		}
		x.b = x.lazy()
		x.lazy = nil
	}
	return x.b
}

func (x *Bits) Materialised() bool { return x.b != nil }

func vecKey(v []Node, signed bool) string {
	n := len(v)
	if !signed {
		for n > 0 && v[n-1] == False {
			n--
		}
	}
	var sb strings.Builder
	if signed {
		sb.WriteString("s")
	}
	for i := 0; i < n; i++ {
		fmt.Fprintf(&sb, "%d,", v[i])
	}
	return sb.String()
}

// selfLin returns x's linear form, creating the trivial one (1·x) if x is materialised.
func (d *Dom) selfLin(x *Bits) *Lin {
	if x.Lin != nil {
		return x.Lin
	}
	if x.b == nil {
		return nil
	}
	if k, ok := d.ConstVal(x); ok {
		return &Lin{K: k}
	}
	return &Lin{Terms: []LinTerm{{Key: vecKey(x.b, x.Signed), Vec: x.b, Signed: x.Signed, Coeff: 1}}}
}

// ConstVal returns the value if every bit is constant.
func (d *Dom) ConstVal(x *Bits) (int64, bool) {
	if x.b == nil {
		if x.Lin != nil && len(x.Lin.Terms) == 0 {
			return x.Lin.K, true
		}
		return 0, false
	}
	var v int64
	for i, n := range x.b {
		switch n {
		case True:
			if i < 64 {
				v |= 1 << uint(i)
			}
		case False:
		default:
			return 0, false
		}
	}
	if x.Signed && x.W < 64 && x.b[x.W-1] == True {
		v -= 1 << uint(x.W)
	}
	return v, true
}

// ---------------------------------------------------------------------------
// ranges

// Range returns [lo,hi] of the vector (as signed/unsigned integer) over all assignments satisfying d.Cond.
func (d *Dom) Range(v []Node, signed bool) (*big.Int, *big.Int) {
	key := fmt.Sprintf("%d|%s", d.Cond, vecKey(v, signed)) + fmt.Sprint(len(v))
	if r, ok := d.rc[key]; ok {
		return r[0], r[1]
	}
	lo := d.extreme(v, signed, false)
	hi := d.extreme(v, signed, true)
	d.rc[key] = [2]*big.Int{lo, hi}
	return lo, hi
}

func (d *Dom) extreme(v []Node, signed, max bool) *big.Int {
	c := d.Cond
	res := new(big.Int)
	if c == False {
		return res
	}
	for i := len(v) - 1; i >= 0; i-- {
		want := max // prefer bit=1 for max, 0 for min
		if signed && i == len(v)-1 {
			want = !max
		}
		lit := v[i]
		if !want {
			lit = d.M.Not(lit)
		}
		t := d.M.And(c, lit)
		bit := want
		if t != False {
			c = t
		} else {
			c = d.M.And(c, d.M.Not(lit))
			bit = !want
		}
		if bit {
			w := new(big.Int).Lsh(big.NewInt(1), uint(i))
			if signed && i == len(v)-1 {
				res.Sub(res, w)
			} else {
				res.Add(res, w)
			}
		}
	}
	return res
}

// RangeOf: bounds of x; read off its linear form when it has one (without materialising its bits).
func (d *Dom) RangeOf(x *Bits) (*big.Int, *big.Int) {
	if l := d.selfLinLazy(x); l != nil {
		return d.linRange(l)
	}
	return d.Range(x.Bits(), x.Signed)
}

func (d *Dom) linRange(l *Lin) (*big.Int, *big.Int) {
	lo, hi := big.NewInt(l.K), big.NewInt(l.K)
	for _, t := range l.Terms {
		a, b := d.Range(t.Vec, t.Signed)
		c := big.NewInt(t.Coeff)
		x, y := new(big.Int).Mul(a, c), new(big.Int).Mul(b, c)
		if x.Cmp(y) > 0 {
			x, y = y, x
		}
		lo.Add(lo, x)
		hi.Add(hi, y)
	}
	return lo, hi
}

func typeRange(w int, signed bool) (*big.Int, *big.Int) {
	if signed {
		h := new(big.Int).Lsh(big.NewInt(1), uint(w-1))
		return new(big.Int).Neg(h), new(big.Int).Sub(h, big.NewInt(1))
	}
	return big.NewInt(0), new(big.Int).Sub(new(big.Int).Lsh(big.NewInt(1), uint(w)), big.NewInt(1))
}

// fits reports whether the linear form stays inside the machine type under the current condition.
func (d *Dom) fits(l *Lin, w int, signed bool) bool {
	if l == nil {
		return false
	}
	lo, hi := d.linRange(l)
	tl, th := typeRange(w, signed)
	return lo.Cmp(tl) >= 0 && hi.Cmp(th) <= 0
}

func linAdd(a, b *Lin, sign int64) *Lin {
	m := map[string]LinTerm{}
	for _, t := range a.Terms {
		m[t.Key] = t
	}
	for _, t := range b.Terms {
		t.Coeff *= sign
		if e, ok := m[t.Key]; ok {
			e.Coeff += t.Coeff
			m[t.Key] = e
		} else {
			m[t.Key] = t
		}
	}
	out := &Lin{K: a.K + sign*b.K}
	for _, t := range m {
		if t.Coeff != 0 {
			out.Terms = append(out.Terms, t)
		}
	}
	sort.Slice(out.Terms, func(i, j int) bool { return out.Terms[i].Key < out.Terms[j].Key })
	return out
}

func linScale(a *Lin, k int64) *Lin {
	out := &Lin{K: a.K * k}
	if k == 0 {
		return out
	}
	for _, t := range a.Terms {
		t.Coeff *= k
		out.Terms = append(out.Terms, t)
	}
	return out
}

func LinEqual(a, b *Lin) bool {
	if a == nil || b == nil || a.K != b.K || len(a.Terms) != len(b.Terms) {
		return false
	}
	for i := range a.Terms {
		if a.Terms[i].Key != b.Terms[i].Key || a.Terms[i].Coeff != b.Terms[i].Coeff {
			return false
		}
	}
	return true
}

func (l *Lin) String() string {
	var ps []string
	for _, t := range l.Terms {
		ps = append(ps, fmt.Sprintf("%d*v(%s)", t.Coeff, t.Key))
	}
	ps = append(ps, fmt.Sprint(l.K))
	return strings.Join(ps, " + ")
}

// ---------------------------------------------------------------------------
// structural operations

func (d *Dom) mkLazy(w int, signed bool, lin *Lin, f func() []Node) *Bits {
	return &Bits{W: w, Signed: signed, lazy: f, Lin: lin}
}

// Resize converts to width w / signedness (Go conversion semantics: truncate or sign/zero-extend by source type).
func (d *Dom) Resize(x *Bits, w int, signed bool) *Bits {
	var lin *Lin
	if l := d.selfLinLazy(x); l != nil && d.fits(l, w, signed) {
		lin = l
	}
	src := x
	f := func() []Node {
		sb := src.Bits()
		b := make([]Node, w)
		for i := 0; i < w; i++ {
			switch {
			case i < src.W:
				b[i] = sb[i]
			case src.Signed:
				b[i] = sb[src.W-1]
			default:
				b[i] = False
			}
		}
		return b
	}
	if x.b != nil {
		return &Bits{W: w, Signed: signed, b: f(), Lin: lin}
	}
	return d.mkLazy(w, signed, lin, f)
}

// selfLinLazy is selfLin that does not force materialisation.
func (d *Dom) selfLinLazy(x *Bits) *Lin {
	if x.Lin != nil {
		return x.Lin
	}
	if x.b == nil && x.W <= 16 && x.lazy != nil {
		x.Bits() // narrow values are cheap to materialise and make better linear-form atoms
	}
	if x.b != nil {
		return d.selfLin(x)
	}
	return nil
}

// LinDiffPair: if two linear forms differ in exactly one term (same coefficient, different vector) and agree
// elsewhere, returns the two vectors; the values are equal iff the vectors are.
func LinDiffPair(a, b *Lin) (x, y LinTerm, ok bool) {
	if a == nil || b == nil || a.K != b.K || len(a.Terms) != len(b.Terms) {
		return
	}
	am := map[string]LinTerm{}
	for _, t := range a.Terms {
		am[t.Key] = t
	}
	var onlyB []LinTerm
	for _, t := range b.Terms {
		if e, same := am[t.Key]; same && e.Coeff == t.Coeff {
			delete(am, t.Key)
		} else {
			onlyB = append(onlyB, t)
		}
	}
	if len(am) != 1 || len(onlyB) != 1 {
		return
	}
	for _, t := range am {
		x = t
	}
	y = onlyB[0]
	if x.Coeff != y.Coeff || x.Coeff == 0 || x.Signed != y.Signed {
		return LinTerm{}, LinTerm{}, false
	}
	return x, y, true
}

func (d *Dom) Bitwise(op token.Token, x, y *Bits) *Bits {
	w := x.W
	if y.W > w {
		w = y.W
	}
	xb, yb := d.Resize(x, w, x.Signed).Bits(), d.Resize(y, w, y.Signed).Bits()
	b := make([]Node, w)
	for i := 0; i < w; i++ {
		switch op {
		case token.AND:
			b[i] = d.M.And(xb[i], yb[i])
		case token.OR:
			b[i] = d.M.Or(xb[i], yb[i])
		case token.XOR:
			b[i] = d.M.Xor(xb[i], yb[i])
		case token.AND_NOT:
			b[i] = d.M.And(xb[i], d.M.Not(yb[i]))
		default:
			unsupported("bitwise op %s", op)
		}
	}
	return &Bits{W: w, Signed: x.Signed, b: b}
}

func (d *Dom) NotBits(x *Bits) *Bits {
	xb := x.Bits()
	b := make([]Node, x.W)
	for i := range b {
		b[i] = d.M.Not(xb[i])
	}
	return &Bits{W: x.W, Signed: x.Signed, b: b}
}

// Shift by a constant amount.
func (d *Dom) Shift(op token.Token, x *Bits, n int) *Bits {
	xb := x.Bits()
	b := make([]Node, x.W)
	for i := 0; i < x.W; i++ {
		var j int
		if op == token.SHL {
			j = i - n
		} else {
			j = i + n
		}
		switch {
		case j >= 0 && j < x.W:
			b[i] = xb[j]
		case op == token.SHR && x.Signed:
			b[i] = xb[x.W-1]
		default:
			b[i] = False
		}
	}
	return &Bits{W: x.W, Signed: x.Signed, b: b}
}

// ShiftSym shifts by a symbolic amount whose range is small (mux over the possible amounts).
func (d *Dom) ShiftSym(op token.Token, x, n *Bits) *Bits {
	if k, ok := d.ConstVal(n); ok {
		if k < 0 {
			unsupported("negative shift")
		}
		if k > int64(x.W) {
			k = int64(x.W)
		}
		return d.Shift(op, x, int(k))
	}
	lo, hi := d.Range(n.Bits(), n.Signed)
	if lo.Sign() < 0 || hi.Cmp(big.NewInt(int64(x.W)+64)) > 0 {
		unsupported("shift amount range [%s,%s]", lo, hi)
	}
	var res *Bits
	for k := hi.Int64(); k >= lo.Int64(); k-- {
		kk := k
		if kk > int64(x.W) {
			kk = int64(x.W)
		}
		sh := d.Shift(op, x, int(kk))
		if res == nil {
			res = sh
			continue
		}
		c := d.Cmp(token.EQL, n, d.Const(k, n.W, n.Signed))
		res = d.ITE(c, sh, res)
	}
	return res
}

// ITE merges two integer values under condition c.
func (d *Dom) ITE(c Node, x, y *Bits) *Bits {
	if c == True {
		return x
	}
	if c == False {
		return y
	}
	if x == y {
		return x
	}
	if x.W != y.W {
		unsupported("ite of widths %d and %d", x.W, y.W)
	}
	var lin *Lin
	if LinEqual(x.Lin, y.Lin) {
		lin = x.Lin
	}
	f := func() []Node {
		xb, yb := x.Bits(), y.Bits()
		b := make([]Node, x.W)
		for i := range b {
			b[i] = d.M.ITE(c, xb[i], yb[i])
		}
		return b
	}
	if x.b != nil && y.b != nil {
		return &Bits{W: x.W, Signed: x.Signed, b: f(), Lin: lin}
	}
	return d.mkLazy(x.W, x.Signed, lin, f)
}

// ---------------------------------------------------------------------------
// arithmetic

func (d *Dom) addBits(xb, yb []Node, sub bool) []Node {
	w := len(xb)
	b := make([]Node, w)
	carry := False
	if sub {
		carry = True
	}
	for i := 0; i < w; i++ {
		y := yb[i]
		if sub {
			y = d.M.Not(y)
		}
		s := d.M.Xor(d.M.Xor(xb[i], y), carry)
		carry = d.M.Or(d.M.And(xb[i], y), d.M.And(carry, d.M.Or(xb[i], y)))
		b[i] = s
	}
	return b
}

func (d *Dom) AddSub(op token.Token, x, y *Bits) *Bits {
	w, signed := x.W, x.Signed
	if y.W != w {
		y = d.Resize(y, w, y.Signed)
	}
	var lin *Lin
	lx, ly := d.selfLinLazy(x), d.selfLinLazy(y)
	if lx != nil && ly != nil {
		sign := int64(1)
		if op == token.SUB {
			sign = -1
		}
		if l := linAdd(lx, ly, sign); d.fits(l, w, signed) {
			lin = l
		}
	}
	f := func() []Node { return d.addBits(x.Bits(), y.Bits(), op == token.SUB) }
	if lin != nil && len(lin.Terms) == 0 {
		return d.Const(lin.K, w, signed)
	}
	if lin != nil && len(lin.Terms) == 1 && lin.Terms[0].Coeff == 1 && lin.K == 0 && len(lin.Terms[0].Vec) <= w {
		t := lin.Terms[0]
		return d.Resize(&Bits{W: len(t.Vec), Signed: t.Signed, b: t.Vec, Lin: lin}, w, signed)
	}
	if x.b != nil && y.b != nil {
		// constant operand: cheap and exact, materialise now
		if _, ok := d.ConstVal(y); ok {
			return &Bits{W: w, Signed: signed, b: f(), Lin: lin}
		}
		if _, ok := d.ConstVal(x); ok {
			return &Bits{W: w, Signed: signed, b: f(), Lin: lin}
		}
	}
	return d.mkLazy(w, signed, lin, f)
}

func (d *Dom) mulConstBits(xb []Node, k int64, w int) []Node {
	acc := make([]Node, w)
	for i := range acc {
		acc[i] = False
	}
	neg := k < 0
	if neg {
		k = -k
	}
	for s := 0; s < 63 && (k>>uint(s)) != 0; s++ {
		if (k>>uint(s))&1 == 0 {
			continue
		}
		sh := make([]Node, w)
		for i := 0; i < w; i++ {
			if i-s >= 0 && i-s < len(xb) {
				sh[i] = xb[i-s]
			} else {
				sh[i] = False
			}
		}
		acc = d.addBits(acc, sh, false)
	}
	if neg {
		zero := make([]Node, w)
		for i := range zero {
			zero[i] = False
		}
		acc = d.addBits(zero, acc, true)
	}
	return acc
}

// MulConst multiplies by a constant.
func (d *Dom) MulConst(x *Bits, k int64) *Bits {
	w, signed := x.W, x.Signed
	var lin *Lin
	if l := d.selfLinLazy(x); l != nil {
		if s := linScale(l, k); d.fits(s, w, signed) {
			lin = s
		}
	}
	if lin != nil && len(lin.Terms) == 0 {
		return d.Const(lin.K, w, signed)
	}
	if lin != nil && len(lin.Terms) == 1 && lin.Terms[0].Coeff == 1 && lin.K == 0 && len(lin.Terms[0].Vec) <= w {
		t := lin.Terms[0]
		return d.Resize(&Bits{W: len(t.Vec), Signed: t.Signed, b: t.Vec, Lin: lin}, w, signed)
	}
	f := func() []Node {
		xb := x.Bits()
		if x.Signed {
			// sign-extend operand to w (already w) — two's complement multiplication is width-agnostic
		}
		return d.mulConstBits(xb, k, w)
	}
	return d.mkLazy(w, signed, lin, f)
}

// divmod by a positive constant. Unsigned operand, or signed operand proven non-negative.
func (d *Dom) DivModConst(x *Bits, k int64, mod bool) *Bits {
	if k <= 0 {
		unsupported("division by non-positive constant %d", k)
	}
	w, signed := x.W, x.Signed
	if l := d.selfLinLazy(x); l != nil {
		// split into the part divisible by k and a remainder part
		q := &Lin{}
		r := &Lin{}
		for _, t := range l.Terms {
			if t.Coeff%k == 0 {
				tt := t
				tt.Coeff /= k
				q.Terms = append(q.Terms, tt)
			} else {
				r.Terms = append(r.Terms, t)
			}
		}
		kr := ((l.K % k) + k) % k
		q.K = (l.K - kr) / k
		r.K = kr
		rlo, rhi := d.linRange(r)
		vlo, _ := d.linRange(l)
		if rlo.Sign() >= 0 && (vlo.Sign() >= 0 || (len(r.Terms) == 0 && r.K == 0)) {
			// the remainder part lies in one k-interval [c·k, (c+1)·k): quotient = q + c, remainder = r - c·k
			bk := big.NewInt(k)
			clo := new(big.Int).Div(rlo, bk)
			chi := new(big.Int).Div(rhi, bk)
			if clo.Cmp(chi) == 0 && clo.IsInt64() {
				cc := clo.Int64()
				res := &Lin{Terms: q.Terms, K: q.K + cc}
				if mod {
					res = &Lin{Terms: r.Terms, K: r.K - cc*k}
				}
				if d.fits(res, w, signed) {
					return d.fromLin(res, w, signed)
				}
			}
		}
	}
	if signed {
		lo, _ := d.Range(x.Bits(), true)
		if lo.Sign() < 0 {
			// Go truncates toward zero: divide the magnitude (as an unsigned value of the same width, which also holds
			// the magnitude of the most negative value) and give the result the sign of the dividend
			xb := x.Bits()
			neg := xb[w-1]
			zero := d.Const(0, w, false)
			ux := &Bits{W: w, Signed: false, b: xb}
			mag := d.ITE(neg, d.AddSub(token.SUB, zero, ux), ux)
			mag.Lin = nil
			res := d.DivModConst(&Bits{W: w, Signed: false, b: mag.Bits()}, k, mod)
			rb := res.Bits()
			nres := d.AddSub(token.SUB, zero, &Bits{W: w, Signed: false, b: rb})
			out := d.ITE(neg, nres, &Bits{W: w, Signed: false, b: rb})
			return &Bits{W: w, Signed: true, b: out.Bits()}
		}
	}
	f := func() []Node {
		xb := x.Bits()
		// restoring division, MSB first
		rw := 0
		for (int64(1) << uint(rw)) <= k {
			rw++
		}
		rw++ // room for the shifted-in bit
		rem := make([]Node, rw)
		for i := range rem {
			rem[i] = False
		}
		kb := d.Const(k, rw, false).b
		q := make([]Node, w)
		for i := w - 1; i >= 0; i-- {
			// rem = rem<<1 | x_i
			nr := make([]Node, rw)
			nr[0] = xb[i]
			copy(nr[1:], rem[:rw-1])
			ge := d.M.Not(d.ltBits(nr, kb)) // nr >= k
			sub := d.addBits(nr, kb, true)
			for j := range rem {
				rem[j] = d.M.ITE(ge, sub[j], nr[j])
			}
			q[i] = ge
		}
		if mod {
			out := make([]Node, w)
			for i := range out {
				if i < rw {
					out[i] = rem[i]
				} else {
					out[i] = False
				}
			}
			return out
		}
		return q
	}
	return d.mkLazy(w, signed, nil, f)
}

// fromLin builds a value from a linear form (bits lazily, by multiplier/adder circuits).
func (d *Dom) fromLin(l *Lin, w int, signed bool) *Bits {
	if len(l.Terms) == 0 {
		return d.Const(l.K, w, signed)
	}
	if len(l.Terms) == 1 && l.Terms[0].Coeff == 1 && l.K == 0 && len(l.Terms[0].Vec) <= w {
		t := l.Terms[0]
		r := d.Resize(&Bits{W: len(t.Vec), Signed: t.Signed, b: t.Vec}, w, signed)
		r.Lin = l
		return r
	}
	f := func() []Node {
		acc := d.Const(l.K, w, signed).b
		for _, t := range l.Terms {
			ext := d.Resize(&Bits{W: len(t.Vec), Signed: t.Signed, b: t.Vec}, w, signed).Bits()
			acc = d.addBits(acc, d.mulConstBits(ext, t.Coeff, w), false)
		}
		return acc
	}
	return d.mkLazy(w, signed, l, f)
}

// unsigned less-than of equal-width vectors.
func (d *Dom) ltBits(xb, yb []Node) Node {
	lt := False
	for i := 0; i < len(xb); i++ { // LSB to MSB: higher bits override
		eq := d.M.Eqv(xb[i], yb[i])
		lt = d.M.ITE(eq, lt, d.M.And(d.M.Not(xb[i]), yb[i]))
	}
	return lt
}

// Cmp compares two integers (Go semantics on the common type).
func (d *Dom) Cmp(op token.Token, x, y *Bits) Node {
	// try to decide by linear forms and ranges first (needed for unmaterialisable values)
	lx, ly := d.selfLinLazy(x), d.selfLinLazy(y)
	if lx != nil && ly != nil && (x.b == nil || y.b == nil) {
		diff := linAdd(lx, ly, -1)
		lo, hi := d.linRange(diff)
		dec := func(v bool) Node {
			if v {
				return True
			}
			return False
		}
		switch op {
		case token.EQL:
			if lo.Sign() == 0 && hi.Sign() == 0 {
				return True
			}
			if lo.Sign() > 0 || hi.Sign() < 0 {
				return False
			}
		case token.NEQ:
			if lo.Sign() == 0 && hi.Sign() == 0 {
				return False
			}
			if lo.Sign() > 0 || hi.Sign() < 0 {
				return True
			}
		case token.LSS:
			if hi.Sign() < 0 {
				return dec(true)
			}
			if lo.Sign() >= 0 {
				return dec(false)
			}
		case token.LEQ:
			if hi.Sign() <= 0 {
				return dec(true)
			}
			if lo.Sign() > 0 {
				return dec(false)
			}
		case token.GTR:
			if lo.Sign() > 0 {
				return dec(true)
			}
			if hi.Sign() <= 0 {
				return dec(false)
			}
		case token.GEQ:
			if lo.Sign() >= 0 {
				return dec(true)
			}
			if hi.Sign() < 0 {
				return dec(false)
			}
		}
	}
	w := x.W
	if y.W > w {
		w = y.W
	}
	signed := x.Signed || y.Signed
	xb, yb := d.Resize(x, w, x.Signed).Bits(), d.Resize(y, w, y.Signed).Bits()
	if signed {
		// flip sign bits to reduce to unsigned comparison
		xb = append([]Node{}, xb...)
		yb = append([]Node{}, yb...)
		xb[w-1] = d.M.Not(xb[w-1])
		yb[w-1] = d.M.Not(yb[w-1])
	}
	switch op {
	case token.EQL, token.NEQ:
		eq := True
		for i := 0; i < w; i++ {
			eq = d.M.And(eq, d.M.Eqv(xb[i], yb[i]))
		}
		if op == token.NEQ {
			return d.M.Not(eq)
		}
		return eq
	case token.LSS:
		return d.ltBits(xb, yb)
	case token.GTR:
		return d.ltBits(yb, xb)
	case token.LEQ:
		return d.M.Not(d.ltBits(yb, xb))
	case token.GEQ:
		return d.M.Not(d.ltBits(xb, yb))
	}
	unsupported("comparison %s", op)
	return False
}

// ---------------------------------------------------------------------------
// reporting helpers

// Describe renders a bit function: constant, variable name, negated variable, or f(support).
func (d *Dom) Describe(n Node) string {
	switch n {
	case False:
		return "0"
	case True:
		return "1"
	}
	nd := d.M.nodes[n]
	if nd.lo == False && nd.hi == True {
		return d.M.varName[nd.v]
	}
	if nd.lo == True && nd.hi == False {
		return "!" + d.M.varName[nd.v]
	}
	sup := d.M.Support(n)
	var names []string
	for i, v := range sup {
		if i >= 6 {
			names = append(names, "…")
			break
		}
		names = append(names, d.M.varName[v])
	}
	return "f(" + strings.Join(names, ",") + ")"
}

// Witness turns a satisfying assignment into symbol values (unassigned bits = 0).
func (d *Dom) Witness(f Node) string {
	as, ok := d.M.AnySat(f)
	if !ok {
		return "(none)"
	}
	var parts []string
	for _, name := range d.symOrder {
		si := d.syms[name]
		v := new(big.Int)
		touched := false
		for i, vi := range si.Vars {
			if val, ok := as[vi]; ok {
				touched = true
				if val {
					v.SetBit(v, i, 1)
				}
			}
		}
		if !touched {
			continue
		}
		if si.Signed && v.Bit(si.W-1) == 1 {
			v.Sub(v, new(big.Int).Lsh(big.NewInt(1), uint(si.W)))
		}
		if si.W == 1 {
			parts = append(parts, fmt.Sprintf("%s=%v", name, v.Sign() != 0))
		} else if si.W <= 8 {
			parts = append(parts, fmt.Sprintf("%s=%s", name, v.String()))
		} else {
			parts = append(parts, fmt.Sprintf("%s=%s(0x%s)", name, v.String(), v.Text(16)))
		}
	}
	return strings.Join(parts, " ")
}
