package absint

import (
	"fmt"
	"go/ast"
	"go/token"
	"go/types"
	"math/big"
	"os"
	"strings"
)

func (in *Interp) expr(e ast.Expr) Value {
	info := in.info()
	in.D.Cond = in.live
	if tv, ok := info.Types[e]; ok && tv.Value != nil {
		if v, ok := constToBits(in.D, tv.Value, tv.Type); ok {
			return v
		}
	}
	switch x := e.(type) {
	case *ast.ParenExpr:
		return in.expr(x.X)
	case *ast.Ident:
		if x.Name == "nil" {
			return NilVal{}
		}
		if x.Name == "true" {
			return in.D.Bool(True)
		}
		if x.Name == "false" {
			return in.D.Bool(False)
		}
		if fn, ok := info.Uses[x].(*types.Func); ok && fn.Pkg() != nil && strings.HasPrefix(fn.Pkg().Path(), "github.com/brocaar/lorawan") {
			return &FuncVal{Decl: fn}
		}
		return in.lvalue(x).V
	case *ast.SelectorExpr:
		if sel, ok := info.Selections[x]; ok && sel.Kind() == types.MethodVal {
			// a method value of a module type: the method bound to its receiver (a value receiver is copied now)
			fn := sel.Obj().(*types.Func)
			if _, isIface := sel.Recv().Underlying().(*types.Interface); !isIface && fn.Pkg() != nil && strings.HasPrefix(fn.Pkg().Path(), "github.com/brocaar/lorawan") {
				rc, rv := in.methodReceiver(x, sel, x)
				if _, ptrRecv := fn.Type().(*types.Signature).Recv().Type().(*types.Pointer); !ptrRecv && rc != nil {
					rv, rc = Copy(rc.V), nil
				}
				return &FuncVal{Bound: fn, RecvCell: rc, RecvVal: rv}
			}
			if _, isIface := sel.Recv().Underlying().(*types.Interface); isIface {
				// a method value of an uninterpreted object (`block.Encrypt` of a cipher.Block): the object and the method
				if o, ok := in.expr(x.X).(*Opaque); ok {
					return &FuncVal{BoundOpaque: o, OpaqueMethod: fn.Name()}
				}
			}
			in.fail(x, "method value")
		}
		if sel, ok := info.Selections[x]; ok && sel.Kind() == types.MethodExpr {
			if fn, ok := sel.Obj().(*types.Func); ok {
				return &FuncVal{MethodExpr: fn}
			}
		}
		// table[i].field with a symbolic i: read the element through the multiplexer, then select
		if sel, ok := info.Selections[x]; ok && sel.Kind() == types.FieldVal {
			if ix, ok := unparen(x.X).(*ast.IndexExpr); ok {
				if _, isMap := info.TypeOf(ix.X).Underlying().(*types.Map); !isMap {
					if iv, ok := in.expr(ix.Index).(*Bits); ok {
						if _, isConst := in.constLive(iv); !isConst {
							v := in.index(ix)
							T := info.TypeOf(ix)
							for _, fi := range sel.Index() {
								if p, isP := v.(*Ptr); isP {
									v = p.To.V
								}
								if pt, isP := T.Underlying().(*types.Pointer); isP {
									T = pt.Elem()
								}
								st, okS := T.Underlying().(*types.Struct)
								sv, okV := v.(*Struct)
								if !okS || !okV {
									in.fail(x, "field of %T", v)
								}
								f := st.Field(fi)
								c := sv.F[f.Name()]
								if c == nil {
									in.fail(x, "field %s missing", f.Name())
								}
								v, T = c.V, f.Type()
							}
							return v
						}
					}
				}
			}
		}
		return in.lvalue(x).V
	case *ast.StarExpr:
		return in.lvalue(x).V
	case *ast.IndexExpr:
		return in.index(x)
	case *ast.SliceExpr:
		return in.slice(x)
	case *ast.UnaryExpr:
		switch x.Op {
		case token.AND:
			if cl, ok := unparen(x.X).(*ast.CompositeLit); ok {
				v := in.expr(cl)
				return &Ptr{To: &Cell{v}, T: info.TypeOf(cl)}
			}
			return &Ptr{To: in.lvalue(x.X), T: info.TypeOf(x.X)}
		case token.NOT:
			return in.D.Bool(in.D.M.Not(in.cond(x.X)))
		case token.SUB:
			v, ok := in.expr(x.X).(*Bits)
			if !ok {
				in.fail(x, "negation of %T", v)
			}
			return in.D.AddSub(token.SUB, in.D.Const(0, v.W, v.Signed), v)
		case token.XOR:
			v, ok := in.expr(x.X).(*Bits)
			if !ok {
				in.fail(x, "complement of %T", v)
			}
			return in.D.NotBits(v)
		case token.ADD:
			return in.expr(x.X)
		}
		in.fail(x, "unary %s", x.Op)
	case *ast.BinaryExpr:
		if x.Op == token.LAND || x.Op == token.LOR {
			l := in.cond(x.X)
			ll := in.D.M.And(l, in.live)
			if x.Op == token.LAND {
				if ll == False {
					return in.D.Bool(False)
				}
				saved := in.live
				in.live = ll
				r := in.cond(x.Y)
				in.live = saved
				return in.D.Bool(in.D.M.And(l, r))
			}
			nl := in.D.M.And(in.D.M.Not(l), in.live)
			if nl == False {
				return in.D.Bool(True)
			}
			saved := in.live
			in.live = nl
			r := in.cond(x.Y)
			in.live = saved
			return in.D.Bool(in.D.M.Or(l, r))
		}
		l, r := in.expr(x.X), in.expr(x.Y)
		if x.Op == token.EQL || x.Op == token.NEQ {
			eq := in.equal(l, r, x)
			if x.Op == token.NEQ {
				eq = in.D.M.Not(eq)
			}
			return in.D.Bool(eq)
		}
		t := info.TypeOf(x)
		if x.Op == token.SHL || x.Op == token.SHR {
			t = info.TypeOf(x.X)
			if tv, ok := info.Types[x.X]; ok && tv.Value != nil {
				t = info.TypeOf(x) // untyped constant takes the expression's type
			}
		}
		return in.binop(x.Op, l, r, t, x)
	case *ast.CompositeLit:
		return in.compositeLit(x, info.TypeOf(x))
	case *ast.CallExpr:
		return in.call(x)
	case *ast.TypeAssertExpr:
		v := in.expr(x.X)
		dynT, dyn := in.dynamic(v, x)
		T := info.TypeOf(x.Type)
		if dynT == nil || !typeMatches(dynT, T) {
			in.fail(x, "single-result type assertion fails (dynamic type %v, asserted %v)", dynT, T)
		}
		return dyn
	case *ast.FuncLit:
		fr := in.fr()
		env := map[types.Object]*Cell{}
		for o, c := range fr.env {
			env[o] = c
		}
		return &FuncVal{Lit: x, Env: env, Pkg: fr.pkg}
	case *ast.BasicLit:
		in.fail(x, "literal without constant value")
	}
	in.fail(e, "expression %T outside subset", e)
	return nil
}

func unparen(e ast.Expr) ast.Expr {
	for {
		p, ok := e.(*ast.ParenExpr)
		if !ok {
			return e
		}
		e = p.X
	}
}

func (in *Interp) binop(op token.Token, l, r Value, t types.Type, at ast.Node) Value {
	x, ok1 := l.(*Bits)
	y, ok2 := r.(*Bits)
	if !ok1 || !ok2 {
		if op == token.ADD {
			if _, isStr := l.(*StrVal); isStr {
				return &StrVal{}
			}
		}
		in.fail(at, "binary %s on %T and %T", op, l, r)
	}
	w, signed, ok := widthOf(t)
	if !ok {
		w, signed = x.W, x.Signed
	}
	switch op {
	case token.LSS, token.LEQ, token.GTR, token.GEQ:
		return in.D.Bool(in.D.Cmp(op, x, y))
	case token.SHL, token.SHR:
		xx := in.D.Resize(x, w, signed)
		return in.D.ShiftSym(op, xx, y)
	}
	xx, yy := in.D.Resize(x, w, signed), in.D.Resize(y, w, signed)
	switch op {
	case token.AND, token.OR, token.XOR, token.AND_NOT:
		return in.D.Bitwise(op, xx, yy)
	case token.ADD, token.SUB:
		return in.D.AddSub(op, xx, yy)
	case token.MUL:
		if k, ok := in.D.ConstVal(yy); ok {
			return in.D.MulConst(xx, k)
		}
		if k, ok := in.D.ConstVal(xx); ok {
			return in.D.MulConst(yy, k)
		}
		in.fail(at, "multiplication of two symbolic values")
	case token.QUO, token.REM:
		if k, ok := in.D.ConstVal(yy); ok {
			if kx, ok := in.D.ConstVal(xx); ok && k != 0 {
				if op == token.QUO {
					return in.D.Const(kx/k, w, signed)
				}
				return in.D.Const(kx%k, w, signed)
			}
			if k == 0 {
				in.fail(at, "division by constant zero")
			}
			return in.D.DivModConst(xx, k, op == token.REM)
		}
		in.fail(at, "division by a symbolic value")
	}
	in.fail(at, "binary operator %s", op)
	return nil
}

// equal compares two abstract values for ==.
func (in *Interp) equal(l, r Value, at ast.Node) Node {
	switch x := l.(type) {
	case *Bits:
		if y, ok := r.(*Bits); ok {
			w := x.W
			if y.W > w {
				w = y.W
			}
			return in.D.Cmp(token.EQL, x, y)
		}
	case *ErrVal:
		if _, ok := r.(NilVal); ok {
			return in.D.M.Not(x.NonNil)
		}
		if y, ok := r.(*ErrVal); ok {
			if os.Getenv("LW_ERRDEBUG") != "" {
				fmt.Fprintf(os.Stderr, "errcmp at %s: x{tag=%q cause=%q tagG=%d} y{tag=%q cause=%q tagG=%d}\n", in.pos(at), x.Tag, x.Cause, len(x.TagG), y.Tag, y.Cause, len(y.TagG))
				for t, n := range x.TagG {
					fmt.Fprintf(os.Stderr, "   x.TagG[%s]: deadUnderLive=%v alwaysUnderLive=%v nonNilAlways=%v\n", t, in.D.M.And(in.live, n) == False, in.D.M.And(in.live, in.D.M.Not(n)) == False, in.D.M.And(in.live, in.D.M.Not(x.NonNil)) == False)
				}
			}
			bothNil := in.D.M.And(in.D.M.Not(x.NonNil), in.D.M.Not(y.NonNil))
			switch {
			case x.Tag == "?" || y.Tag == "?":
				// equal when both nil, or both are the same sentinel
				same := False
				cy := errTagConds(y)
				for t, cx := range errTagConds(x) {
					if c2, ok := cy[t]; ok {
						same = in.D.M.Or(same, in.D.M.And(cx, c2))
					}
				}
				return in.D.M.Or(bothNil, same)
			case x.Tag != "" && x.Tag == y.Tag:
				return in.D.M.Or(bothNil, in.D.M.And(x.NonNil, y.NonNil)) // the same sentinel, or both nil
			case x.Tag != "" && y.Tag != "":
				return bothNil // two different sentinels
			case x.Tag != "" || y.Tag != "":
				// a sentinel against an error created while running (errors.New / fmt.Errorf / a wrapped error): different objects
				return bothNil
			}
		}
	case NilVal:
		switch y := r.(type) {
		case NilVal:
			return True
		case *ErrVal:
			return in.D.M.Not(y.NonNil)
		default:
			return in.equal(r, l, at)
		}
	case *Ptr:
		switch y := r.(type) {
		case NilVal:
			return False
		case *Ptr:
			if x.To == y.To {
				return True
			}
			return False
		}
	case *Slice:
		if _, ok := r.(NilVal); ok {
			if x.Nil {
				return True
			}
			return False
		}
	case *FuncVal, *MapVal:
		if _, ok := r.(NilVal); ok {
			return False
		}
	case *Iface:
		if _, ok := r.(NilVal); ok {
			if _, isNil := x.Dyn.(NilVal); isNil {
				return True
			}
			return False
		}
	case *Array:
		if y, ok := r.(*Array); ok && len(x.E) == len(y.E) {
			eq := True
			for i := range x.E {
				eq = in.D.M.And(eq, in.equal(x.E[i].V, y.E[i].V, at))
			}
			return eq
		}
	case *Struct:
		if y, ok := r.(*Struct); ok {
			eq := True
			for k, c := range x.F {
				eq = in.D.M.And(eq, in.equal(c.V, y.F[k].V, at))
			}
			return eq
		}
	case *StrVal:
		if y, ok := r.(*StrVal); ok && x.Known && y.Known {
			if x.S == y.S {
				return True
			}
			return False
		}
	case *Opaque:
		if _, ok := r.(NilVal); ok {
			return False
		}
	}
	in.fail(at, "comparison of %T and %T", l, r)
	return False
}

// mapLookup evaluates m[k]: the value (zero value when absent) and whether the key is present.
func (in *Interp) mapLookup(x *ast.IndexExpr) (Value, bool, bool) {
	mt, ok := in.info().TypeOf(x.X).Underlying().(*types.Map)
	if !ok {
		return nil, false, false
	}
	var base Value
	if in.addressable(x.X) {
		base = in.lvalue(x.X).V
	} else {
		base = in.expr(x.X)
	}
	kv := in.toType(in.expr(x.Index), in.info().TypeOf(x.Index), mt.Key())
	switch m := base.(type) {
	case NilVal:
		return in.Zero(mt.Elem()), false, true
	case *MapVal:
		k, ok := in.mapKey(kv)
		if !ok {
			in.fail(x, "map lookup with a symbolic key")
		}
		if c := m.E[k]; c != nil && c.V != nil {
			return c.V, true, true
		}
		return in.Zero(mt.Elem()), false, true
	}
	in.fail(x, "map lookup on %T", base)
	return nil, false, true
}

func (in *Interp) index(x *ast.IndexExpr) Value {
	if v, _, isMap := in.mapLookup(x); isMap {
		return v
	}
	var base Value
	if in.addressable(x.X) {
		base = in.lvalue(x.X).V
	} else {
		base = in.expr(x.X)
	}
	idx, ok := in.expr(x.Index).(*Bits)
	if !ok {
		in.fail(x, "index is %T", idx)
	}
	if p, ok := base.(*Ptr); ok {
		base = p.To.V
	}
	n := 0
	var at func(i int) Value
	switch b := base.(type) {
	case *Array:
		n = len(b.E)
		at = func(i int) Value { return b.E[i].V }
	case *Slice:
		n = b.Len()
		at = func(i int) Value { return b.At(i).V }
	default:
		in.fail(x, "index on %T", base)
	}
	if k, ok := in.constLive(idx); ok {
		if k < 0 || int(k) >= n {
			in.crash(x, "index %d out of range [0,%d)", k, n)
		}
		return at(int(k))
	}
	// symbolic index over a small table: multiplexer (requires the index to be provably in range)
	lo, hi := in.D.Range(idx.Bits(), idx.Signed)
	if n > 256 {
		in.fail(x, "symbolic index with range [%s,%s] into %d elements", lo, hi, n)
	}
	if lo.Sign() < 0 || !hi.IsInt64() || hi.Int64() >= int64(n) {
		// out of range on some executing path: a run-time panic there
		oor := in.D.M.Or(in.D.Cmp(token.LSS, idx, in.D.Const(0, idx.W, idx.Signed)), in.D.M.Not(in.D.Cmp(token.LSS, idx, in.D.Const(int64(n), idx.W, idx.Signed))))
		if !idx.Signed {
			oor = in.D.M.Not(in.D.Cmp(token.LSS, idx, in.D.Const(int64(n), idx.W, false)))
		}
		if w := in.D.M.And(in.live, oor); w != False {
			panic(Panic{Why: fmt.Sprintf("%s: index out of range [0,%d) for some values", in.pos(x), n), Cond: w})
		}
		if n == 0 {
			in.fail(x, "index into an empty table on a dead path")
		}
		lo, hi = big.NewInt(0), big.NewInt(int64(n-1))
	}
	var res Value
	for k := int(hi.Int64()); k >= int(lo.Int64()); k-- {
		if res == nil {
			res = at(k)
			continue
		}
		c := in.D.Cmp(token.EQL, idx, in.D.Const(int64(k), idx.W, idx.Signed))
		res = in.ite(c, at(k), res)
	}
	return res
}

func (in *Interp) constInt(e ast.Expr, what string) int {
	v, ok := in.expr(e).(*Bits)
	if !ok {
		in.fail(e, "%s is not an integer", what)
	}
	k, isConst := in.constLive(v)
	if !isConst {
		// a value that takes one of a few constants depending on a symbolic condition (a cursor advanced by 8 or by 3
		// bytes): ask the client to partition on "it is the smallest of them" and re-run each part
		lo, hi := in.D.Range(v.Bits(), v.Signed)
		if lo.IsInt64() && hi.IsInt64() && hi.Int64()-lo.Int64() <= 64 && in.live != False {
			c := in.D.Cmp(token.EQL, v, in.D.Const(lo.Int64(), v.W, v.Signed))
			if in.D.M.And(in.live, c) != False && in.D.M.And(in.live, in.D.M.Not(c)) != False {
				panic(SplitRequest{Cond: c, Why: fmt.Sprintf("%s depends on a symbolic condition", what)})
			}
		}
		in.fail(e, "%s is symbolic", what)
	}
	return int(k)
}

// constLive: the value of x if it is the same constant on every path of the current path condition (a variable
// that differs only on paths which already left through break/continue is a constant for the code that still runs).
func (in *Interp) constLive(x *Bits) (int64, bool) {
	if k, ok := in.D.ConstVal(x); ok {
		return k, true
	}
	if in.live == True || in.live == False {
		return 0, false
	}
	var v int64
	bs := x.Bits()
	for i, n := range bs {
		switch {
		case in.D.M.And(in.live, n) == False:
		case in.D.M.And(in.live, in.D.M.Not(n)) == False:
			if i < 64 {
				v |= 1 << uint(i)
			}
		default:
			return 0, false
		}
	}
	if x.Signed && x.W < 64 && in.D.M.And(in.live, in.D.M.Not(bs[x.W-1])) == False {
		v -= 1 << uint(x.W)
	}
	return v, true
}

func (in *Interp) slice(x *ast.SliceExpr) Value {
	var base Value
	if in.addressable(x.X) {
		base = in.lvalue(x.X).V
	} else {
		base = in.expr(x.X)
	}
	if p, ok := base.(*Ptr); ok {
		base = p.To.V
	}
	var s *Slice
	switch b := base.(type) {
	case *Array:
		s = &Slice{Back: &Backing{E: b.E}, Lo: 0, Hi: len(b.E), Cap: len(b.E), Elem: b.Elem}
	case *Slice:
		s = b
	case NilVal:
		s = &Slice{Nil: true, Back: &Backing{}}
	default:
		in.fail(x, "slice of %T", base)
	}
	lo, hi := 0, s.Len()
	if x.Low != nil {
		lo = in.constInt(x.Low, "slice bound")
	}
	if x.High != nil {
		hi = in.constInt(x.High, "slice bound")
	}
	capEnd := s.Lo + s.Cap
	if s.Cap < s.Len() {
		capEnd = s.Hi
	}
	if lo < 0 || hi < lo || s.Lo+hi > capEnd || s.Lo+hi > len(s.Back.E) {
		if s.CapUnknown && lo >= 0 && hi >= lo {
			in.fail(x, "slice bounds [%d:%d] beyond len %d of a slice whose capacity after a reallocating append is an implementation detail", lo, hi, s.Len())
		}
		in.crash(x, "slice bounds [%d:%d] out of range (len %d, cap %d)", lo, hi, s.Len(), s.Cap)
	}
	return &Slice{Back: s.Back, Lo: s.Lo + lo, Hi: s.Lo + hi, Cap: capEnd - (s.Lo + lo), Elem: s.Elem, CapUnknown: s.CapUnknown}
}

func (in *Interp) compositeLit(x *ast.CompositeLit, t types.Type) Value {
	info := in.info()
	if t == nil {
		in.fail(x, "untyped composite literal")
	}
	elt := func(e ast.Expr, et types.Type) Value {
		if cl, ok := e.(*ast.CompositeLit); ok && cl.Type == nil {
			if pt, ok := et.Underlying().(*types.Pointer); ok {
				return &Ptr{To: &Cell{in.compositeLit(cl, pt.Elem())}, T: pt.Elem()}
			}
			return in.compositeLit(cl, et)
		}
		return Copy(in.toType(in.expr(e), info.TypeOf(e), et))
	}
	switch u := t.Underlying().(type) {
	case *types.Struct:
		st := in.Zero(t).(*Struct)
		for i, e := range x.Elts {
			if kv, ok := e.(*ast.KeyValueExpr); ok {
				name := kv.Key.(*ast.Ident).Name
				for j := 0; j < u.NumFields(); j++ {
					if u.Field(j).Name() == name {
						st.F[name].V = elt(kv.Value, u.Field(j).Type())
					}
				}
			} else {
				st.F[u.Field(i).Name()].V = elt(e, u.Field(i).Type())
			}
		}
		return st
	case *types.Array:
		a := in.Zero(t).(*Array)
		idx := 0
		for _, e := range x.Elts {
			if kv, ok := e.(*ast.KeyValueExpr); ok {
				idx = in.constInt(kv.Key, "array key")
				e = kv.Value
			}
			a.E[idx].V = elt(e, u.Elem())
			idx++
		}
		return a
	case *types.Slice:
		bk := &Backing{}
		idx := 0
		for _, e := range x.Elts {
			if kv, ok := e.(*ast.KeyValueExpr); ok {
				idx = in.constInt(kv.Key, "slice key")
				e = kv.Value
			}
			for len(bk.E) <= idx {
				bk.E = append(bk.E, &Cell{in.Zero(u.Elem())})
			}
			bk.E[idx].V = elt(e, u.Elem())
			idx++
		}
		return &Slice{Back: bk, Lo: 0, Hi: len(bk.E), Cap: len(bk.E), Elem: u.Elem()}
	case *types.Pointer:
		return &Ptr{To: &Cell{in.compositeLit(x, u.Elem())}, T: u.Elem()}
	case *types.Map:
		m := &MapVal{KT: u.Key(), VT: u.Elem(), E: map[string]*Cell{}}
		for _, e := range x.Elts {
			kv, ok := e.(*ast.KeyValueExpr)
			if !ok {
				in.fail(x, "map literal element without key")
			}
			k, ok := in.mapKey(in.toType(in.expr(kv.Key), info.TypeOf(kv.Key), u.Key()))
			if !ok {
				in.fail(kv.Key, "map literal key is not a constant")
			}
			if _, dup := m.E[k]; !dup {
				m.Order = append(m.Order, k)
			}
			m.E[k] = &Cell{elt(kv.Value, u.Elem())}
		}
		return m
	}
	in.fail(x, "composite literal of type %s", t)
	return nil
}

// toType converts a value of static type from to static type to (interface boxing, numeric resize).
func (in *Interp) toType(v Value, from, to types.Type) Value {
	if to == nil {
		return v
	}
	if _, isIface := to.Underlying().(*types.Interface); isIface {
		if isErrorType(to) {
			e := asErr(in.conv(v, to))
			if _, isErr := e.(*ErrVal); !isErr && from != nil {
				// a value of a concrete type that implements error (`&lengthError{…}`, `codingRateError(cr)`) stored into
				// an error: a non-nil error object (even a nil pointer of such a type makes a non-nil interface)
				if _, fromIface := from.Underlying().(*types.Interface); !fromIface {
					if b, isBasic := from.(*types.Basic); !isBasic || b.Kind() != types.UntypedNil {
						return &ErrVal{NonNil: True}
					}
				}
			}
			return e
		}
		switch v.(type) {
		case *Iface:
			return v
		case NilVal:
			return &Iface{Dyn: NilVal{}}
		case *ErrVal:
			return v
		}
		if from != nil {
			if _, fromIface := from.Underlying().(*types.Interface); !fromIface {
				return &Iface{Dyn: v, DynT: from}
			}
		}
		return v
	}
	return in.conv(v, to)
}

// ---------------------------------------------------------------------------
// calls

func (in *Interp) args(call *ast.CallExpr, sig *types.Signature) []Value {
	info := in.info()
	var out []Value
	if len(call.Args) == 1 && sig != nil && sig.Params().Len() > 1 {
		if t, ok := in.expr(call.Args[0]).(Tuple); ok {
			return t
		}
	}
	for i, a := range call.Args {
		v := in.expr(a)
		if sig != nil {
			var pt types.Type
			if sig.Variadic() && i >= sig.Params().Len()-1 {
				st := sig.Params().At(sig.Params().Len() - 1).Type().(*types.Slice)
				pt = st.Elem()
				if call.Ellipsis.IsValid() {
					pt = st
				}
			} else if i < sig.Params().Len() {
				pt = sig.Params().At(i).Type()
			}
			v = in.toType(v, info.TypeOf(a), pt)
		}
		out = append(out, v)
	}
	return out
}

// argsPacked evaluates the arguments for a call of a function of the module: the trailing arguments of a variadic
// call are packed into a fresh slice, as the compiler does.
func (in *Interp) argsPacked(call *ast.CallExpr, sig *types.Signature) []Value {
	out := in.args(call, sig)
	if sig == nil || !sig.Variadic() || call.Ellipsis.IsValid() {
		return out
	}
	n := sig.Params().Len()
	if len(out) < n-1 {
		return out
	}
	st := sig.Params().At(n - 1).Type().(*types.Slice)
	rest := out[n-1:]
	if len(rest) == 0 {
		return append(out[:n-1:n-1], &Slice{Nil: true, Back: &Backing{}, Elem: st.Elem()})
	}
	bk := &Backing{}
	for _, v := range rest {
		bk.E = append(bk.E, &Cell{Copy(v)})
	}
	return append(out[:n-1:n-1], &Slice{Back: bk, Hi: len(bk.E), Cap: len(bk.E), Elem: st.Elem()})
}

func single(res []Value) Value {
	switch len(res) {
	case 0:
		return nil
	case 1:
		return res[0]
	}
	return Tuple(res)
}

func (in *Interp) call(x *ast.CallExpr) Value {
	info := in.info()
	// conversion
	if tv, ok := info.Types[x.Fun]; ok && tv.IsType() {
		if len(x.Args) != 1 {
			in.fail(x, "conversion arity")
		}
		return in.convert(in.expr(x.Args[0]), info.TypeOf(x.Args[0]), tv.Type, x)
	}
	fun := unparen(x.Fun)
	if id, ok := fun.(*ast.Ident); ok {
		if _, isB := info.Uses[id].(*types.Builtin); isB {
			return in.builtin(id.Name, x)
		}
		if fn, ok := info.Uses[id].(*types.Func); ok {
			return single(in.callResolved(fn, nil, nil, x))
		}
		if _, isVar := info.Uses[id].(*types.Var); isVar {
			if fv, ok := in.expr(id).(*FuncVal); ok {
				return single(in.callFuncVal(fv, x))
			}
		}
		in.fail(x, "call of %s", id.Name)
	}
	if sel, ok := fun.(*ast.SelectorExpr); ok {
		if s, ok := info.Selections[sel]; ok && s.Kind() == types.MethodVal {
			fn := s.Obj().(*types.Func)
			// interface method: dispatch on the dynamic type
			if _, isIface := s.Recv().Underlying().(*types.Interface); isIface {
				rv := in.expr(sel.X)
				switch r := rv.(type) {
				case *Opaque:
					return single(in.opaqueMethod(r, fn.Name(), x))
				case *ErrVal:
					if fn.Name() == "Error" {
						return &StrVal{}
					}
				}
				dynT, dyn := in.dynamic(rv, x)
				if dynT == nil {
					in.crash(x, "method call on a nil interface")
				}
				obj, _, _ := types.LookupFieldOrMethod(dynT, true, fn.Pkg(), fn.Name())
				cf, ok := obj.(*types.Func)
				if !ok {
					in.fail(x, "dynamic type %s has no method %s", dynT, fn.Name())
				}
				if p, ok := dyn.(*Ptr); ok {
					return single(in.callFunc(cf, p.To, nil, in.argsPacked(x, cf.Type().(*types.Signature))))
				}
				return single(in.callFunc(cf, nil, dyn, in.argsPacked(x, cf.Type().(*types.Signature))))
			}
			if fn.Pkg() == nil || !strings.HasPrefix(fn.Pkg().Path(), "github.com/brocaar/lorawan") {
				var rv Value
				if in.isForeignPkgVar(sel.X) {
					rv = &Opaque{Kind: "extern"}
				} else if fn.FullName() == "(*sync.Once).Do" && in.addressable(sel.X) {
					rv = &Ptr{To: in.lvalue(sel.X), T: s.Recv()} // the identity of the Once is its storage
				} else {
					rv = in.expr(sel.X)
				}
				return single(in.foreign(fn, rv, x))
			}
			recvCell, recvVal := in.methodReceiver(sel, s, x)
			return single(in.callFunc(fn, recvCell, recvVal, in.argsPacked(x, fn.Type().(*types.Signature))))
		}
		// package-qualified function
		if fn, ok := info.Uses[sel.Sel].(*types.Func); ok {
			return single(in.callResolved(fn, nil, nil, x))
		}
		// function-typed field or variable
		if fv, ok := in.expr(fun).(*FuncVal); ok {
			return single(in.callFuncVal(fv, x))
		}
		in.fail(x, "call through a function value")
	}
	if lit, ok := fun.(*ast.FuncLit); ok {
		return single(in.callFuncLit(lit, in.argsPacked(x, info.TypeOf(lit).(*types.Signature))))
	}
	switch fun.(type) {
	case *ast.IndexExpr, *ast.CallExpr:
		if fv, ok := in.expr(fun).(*FuncVal); ok {
			return single(in.callFuncVal(fv, x))
		}
	}
	in.fail(x, "call form %T", fun)
	return nil
}

// isForeignPkgVar: expression is pkg.Var of a package outside the module (binary.LittleEndian, …).
func (in *Interp) isForeignPkgVar(e ast.Expr) bool {
	sel, ok := unparen(e).(*ast.SelectorExpr)
	if !ok {
		return false
	}
	id, ok := sel.X.(*ast.Ident)
	if !ok {
		return false
	}
	if _, isPkg := in.info().Uses[id].(*types.PkgName); !isPkg {
		return false
	}
	o := in.info().Uses[sel.Sel]
	return o != nil && o.Pkg() != nil && !strings.HasPrefix(o.Pkg().Path(), "github.com/brocaar/lorawan")
}

func (in *Interp) callResolved(fn *types.Func, recvCell *Cell, recvVal Value, x *ast.CallExpr) []Value {
	if fn.Pkg() != nil && strings.HasPrefix(fn.Pkg().Path(), "github.com/brocaar/lorawan") {
		return in.callFunc(fn, recvCell, recvVal, in.argsPacked(x, fn.Type().(*types.Signature)))
	}
	return in.foreign(fn, nil, x)
}

func (in *Interp) convert(v Value, from, to types.Type, at ast.Node) Value {
	switch x := v.(type) {
	case *Bits:
		if w, s, ok := widthOf(to); ok {
			return in.D.Resize(x, w, s)
		}
		if b, ok := to.Underlying().(*types.Basic); ok && b.Info()&types.IsString != 0 {
			return &StrVal{}
		}
	case *StrVal:
		if sl, ok := to.Underlying().(*types.Slice); ok {
			if x.Known {
				bk := &Backing{}
				for i := 0; i < len(x.S); i++ {
					bk.E = append(bk.E, &Cell{in.D.Const(int64(x.S[i]), 8, false)})
				}
				return &Slice{Back: bk, Hi: len(x.S), Cap: len(x.S), Elem: sl.Elem()}
			}
			if x.Chars != nil {
				bk := &Backing{}
				for _, c := range x.Chars {
					bk.E = append(bk.E, &Cell{c})
				}
				return &Slice{Back: bk, Hi: len(x.Chars), Cap: len(x.Chars), Elem: sl.Elem()}
			}
			in.fail(at, "[]byte of an unknown string")
		}
		return x
	case *Slice:
		if b, ok := to.Underlying().(*types.Basic); ok && b.Info()&types.IsString != 0 {
			// string(bytes): the content at this moment
			chars := make([]Value, 0, x.Len())
			for i := 0; i < x.Len(); i++ {
				bv, ok := x.At(i).V.(*Bits)
				if !ok {
					return &StrVal{}
				}
				chars = append(chars, bv)
			}
			return &StrVal{Chars: chars}
		}
		return x
	case NilVal:
		return in.conv(v, to)
	}
	return in.toType(v, from, to)
}

func (in *Interp) builtin(name string, x *ast.CallExpr) Value {
	info := in.info()
	switch name {
	case "len", "cap":
		v := in.expr(x.Args[0])
		if p, ok := v.(*Ptr); ok {
			v = p.To.V
		}
		switch b := v.(type) {
		case *Slice:
			if name == "cap" {
				return in.D.Const(int64(b.Cap), 64, true)
			}
			return in.D.Const(int64(b.Len()), 64, true)
		case *Array:
			return in.D.Const(int64(len(b.E)), 64, true)
		case *StrVal:
			if b.Known {
				return in.D.Const(int64(len(b.S)), 64, true)
			}
			if b.Chars != nil {
				return in.D.Const(int64(len(b.Chars)), 64, true)
			}
		case NilVal:
			return in.D.Const(0, 64, true)
		case *MapVal:
			n := 0
			for _, c := range b.E {
				if c.V != nil {
					n++
				}
			}
			return in.D.Const(int64(n), 64, true)
		}
		in.fail(x, "%s of %T", name, v)
	case "make":
		t := info.TypeOf(x.Args[0])
		if mt, isMap := t.Underlying().(*types.Map); isMap {
			return &MapVal{KT: mt.Key(), VT: mt.Elem(), E: map[string]*Cell{}}
		}
		sl, ok := t.Underlying().(*types.Slice)
		if !ok {
			in.fail(x, "make of %s", t)
		}
		n := in.constInt(x.Args[1], "make length")
		c := n
		if len(x.Args) > 2 {
			c = in.constInt(x.Args[2], "make capacity")
		}
		if n < 0 || c < n || c > 1<<16 {
			in.crash(x, "make(%d,%d)", n, c)
		}
		bk := &Backing{}
		for i := 0; i < c; i++ {
			bk.E = append(bk.E, &Cell{in.Zero(sl.Elem())})
		}
		return &Slice{Back: bk, Lo: 0, Hi: n, Cap: c, Elem: sl.Elem()}
	case "append":
		base := in.expr(x.Args[0])
		var s *Slice
		switch b := base.(type) {
		case *Slice:
			s = b
		case NilVal:
			st := info.TypeOf(x.Args[0]).Underlying().(*types.Slice)
			s = &Slice{Nil: true, Back: &Backing{}, Elem: st.Elem()}
		default:
			in.fail(x, "append to %T", base)
		}
		et := info.TypeOf(x.Args[0]).Underlying().(*types.Slice).Elem()
		var added []Value
		for i, a := range x.Args[1:] {
			v := in.expr(a)
			if x.Ellipsis.IsValid() && i == len(x.Args)-2 {
				switch src := v.(type) {
				case *Slice:
					for j := 0; j < src.Len(); j++ {
						added = append(added, Copy(src.At(j).V))
					}
				case NilVal:
				case *StrVal:
					if !src.Known {
						in.fail(x, "append of an unknown string")
					}
					for j := 0; j < len(src.S); j++ {
						added = append(added, in.D.Const(int64(src.S[j]), 8, false))
					}
				default:
					in.fail(x, "append of %T...", v)
				}
			} else {
				added = append(added, Copy(in.toType(v, info.TypeOf(a), et)))
			}
		}
		// within the existing capacity Go guarantees that append writes in place and shares the backing array
		if !s.Nil && s.Back != nil && s.Cap >= s.Len()+len(added) && s.Lo+s.Len()+len(added) <= len(s.Back.E) {
			for i, v := range added {
				in.store(s.Back.E[s.Hi+i], v)
			}
			return &Slice{Back: s.Back, Lo: s.Lo, Hi: s.Hi + len(added), Cap: s.Cap, Elem: s.Elem}
		}
		// otherwise a new array is allocated; its capacity is an implementation detail (modelled as exactly len)
		bk := &Backing{}
		for i := 0; i < s.Len(); i++ {
			bk.E = append(bk.E, &Cell{s.At(i).V})
		}
		for _, v := range added {
			bk.E = append(bk.E, &Cell{v})
		}
		return &Slice{Back: bk, Lo: 0, Hi: len(bk.E), Cap: len(bk.E), Elem: s.Elem, CapUnknown: true}
	case "copy":
		dst, ok1 := in.expr(x.Args[0]).(*Slice)
		if !ok1 {
			in.fail(x, "copy destination is %T", in.expr(x.Args[0]))
		}
		var src *Slice
		switch sv := in.expr(x.Args[1]).(type) {
		case *Slice:
			src = sv
		case NilVal:
			src = &Slice{Back: &Backing{}}
		default:
			in.fail(x, "copy source is %T", sv)
		}
		n := dst.Len()
		if src.Len() < n {
			n = src.Len()
		}
		vals := make([]Value, n)
		for i := 0; i < n; i++ {
			vals[i] = src.At(i).V
		}
		for i := 0; i < n; i++ {
			in.store(dst.At(i), Copy(vals[i]))
		}
		return in.D.Const(int64(n), 64, true)
	case "panic":
		in.crash(x, "explicit panic")
	case "new":
		t := info.TypeOf(x.Args[0])
		return &Ptr{To: &Cell{in.Zero(t)}, T: t}
	}
	in.fail(x, "builtin %s", name)
	return nil
}

// methodReceiver resolves the receiver of a (possibly promoted) method of a module type selected by sel.
func (in *Interp) methodReceiver(sel *ast.SelectorExpr, s *types.Selection, x ast.Node) (*Cell, Value) {
	info := in.info()
	// receiver through the selection path (embedded fields)
	var recvCell *Cell
	var recvVal Value
	if in.addressable(sel.X) {
		recvCell = in.lvalue(sel.X)
	} else {
		recvVal = in.expr(sel.X)
	}
	if recvCell != nil {
		if p, ok := recvCell.V.(*Ptr); ok {
			recvCell = p.To
		}
	}
	if len(s.Index()) > 1 {
		// promoted method: walk the embedded fields to the value that declares it
		if recvCell == nil {
			recvCell = &Cell{V: recvVal}
			if p, ok := recvVal.(*Ptr); ok {
				recvCell = p.To
			}
			recvVal = nil
		}
		T := info.TypeOf(sel.X)
		for _, fi := range s.Index()[:len(s.Index())-1] {
			if pt, isP := T.Underlying().(*types.Pointer); isP {
				T = pt.Elem()
			}
			st, okS := T.Underlying().(*types.Struct)
			sv, okV := recvCell.V.(*Struct)
			if !okS || !okV {
				in.fail(x, "promoted method through a %T", recvCell.V)
			}
			f := st.Field(fi)
			recvCell = sv.F[f.Name()]
			if recvCell == nil {
				in.fail(x, "embedded field %s missing", f.Name())
			}
			T = f.Type()
			if p, ok := recvCell.V.(*Ptr); ok {
				recvCell = p.To
				if pt, isP := T.Underlying().(*types.Pointer); isP {
					T = pt.Elem()
				}
			}
		}
	}
	return recvCell, recvVal
}
