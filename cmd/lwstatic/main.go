// lwstatic: static verification driver for brocaar/lorawan properties C01–C20.
package main

import (
	"encoding/json"
	"flag"
	"fmt"
	"os"
	"path/filepath"
	"runtime/debug"
	"sort"
	"strings"

	"lwverif/internal/core"
	"lwverif/internal/load"
	"lwverif/internal/props"
)

func verifDir() string {
	if d := os.Getenv("LW_VERIF"); d != "" {
		return d
	}
	if exe, err := os.Executable(); err == nil {
		d := filepath.Dir(filepath.Dir(exe))
		if _, err := os.Stat(filepath.Join(d, "properties.jsonl")); err == nil {
			return d
		}
	}
	return "/verif"
}

func main() {
	if len(os.Args) < 2 {
		fmt.Println("usage: lwstatic check -prop Cxx [-tier quick|thorough] | replay <file> | list | dump <what>")
		os.Exit(2)
	}
	switch os.Args[1] {
	case "check":
		fs := flag.NewFlagSet("check", flag.ExitOnError)
		prop := fs.String("prop", "", "property id")
		tier := fs.String("tier", "quick", "quick|thorough")
		only := fs.String("only", "", "report only obligations whose key contains this string (replay)")
		fs.Parse(os.Args[2:])
		if t := os.Getenv("VERIF_TIER"); t != "" && *tier == "" {
			*tier = t
		}
		os.Exit(runCheck(*prop, *tier, *only))
	case "replay":
		if len(os.Args) < 3 {
			fmt.Println("usage: lwstatic replay <replay.json>")
			os.Exit(2)
		}
		b, err := os.ReadFile(os.Args[2])
		if err != nil {
			fmt.Println(err)
			os.Exit(2)
		}
		var rp struct{ Property, Key string }
		if err := json.Unmarshal(b, &rp); err != nil {
			fmt.Println(err)
			os.Exit(2)
		}
		os.Exit(runCheck(rp.Property, "quick", rp.Key))
	case "list":
		ids := props.IDs()
		sort.Strings(ids)
		fmt.Println(strings.Join(ids, " "))
	case "dump":
		p, err := load.Load(load.RepoDir(), "")
		if err != nil {
			fmt.Println(err)
			os.Exit(2)
		}
		what := ""
		if len(os.Args) > 2 {
			what = os.Args[2]
		}
		props.Dump(p, what, os.Args[3:])
	default:
		fmt.Println("unknown command", os.Args[1])
		os.Exit(2)
	}
}

func runCheck(prop, tier, only string) (code int) {
	vd := verifDir()
	fn := props.Get(prop)
	if fn == nil {
		fmt.Printf("no check registered for property %q\n", prop)
		return 2
	}
	defer func() {
		if r := recover(); r != nil {
			fmt.Printf("ANALYZER PANIC (machinery error, not a violation): %v\n%s\n", r, debug.Stack())
			code = 2
		}
	}()
	run := core.NewRun(prop, tier)
	p, err := load.Load(load.RepoDir(), os.Getenv("LW_GOARCH"))
	if err != nil {
		fmt.Println("LOAD FAILED (machinery cannot decide):", err)
		return 2
	}
	ctx := &props.Ctx{Prog: p, Run: run, VerifDir: vd, Tier: tier}
	fn(ctx)
	if only != "" {
		var keep []*core.Obligation
		for _, o := range run.Obls {
			if o.Key == only || strings.Contains(o.Key, only) {
				keep = append(keep, o)
			}
		}
		fmt.Printf("replay: %d obligations match %q\n", len(keep), only)
		for _, o := range keep {
			fmt.Printf("  %s %s at %s want %s got %s\n", o.Status, o.Key, o.Pos, o.Want, o.Got)
			if o.Status == core.Violated {
				code = 1
			}
		}
		return code
	}
	findings, err := core.LoadFindings(filepath.Join(vd, "known_findings.txt"))
	if err != nil {
		fmt.Println(err)
		return 2
	}
	expect := map[string]int{}
	if b, err := os.ReadFile(filepath.Join(vd, "spec", "expect.json")); err == nil {
		var e core.Expect
		if err := json.Unmarshal(b, &e); err != nil {
			fmt.Println("spec/expect.json:", err)
			return 2
		}
		expect = e.MinCounts
	} else {
		fmt.Println("spec/expect.json missing:", err)
		return 2
	}
	selfMissed := 0
	if tier == "thorough" {
		notes, missed, err := props.SelfTest(prop, vd, findings)
		if err != nil {
			run.Note("selftest unavailable: %v", err)
		}
		for _, n := range notes {
			run.Note("%s", n)
		}
		for _, m := range missed {
			fmt.Printf("SELFTEST-MISSED seed=%s: the seeded breaking change is no longer reported by %s (machinery regression)\n", m, prop)
		}
		selfMissed = len(missed)
	}
	code = run.Finish(vd, findings, expect, p.SourceInfo())
	if code == 0 && selfMissed > 0 {
		code = 2
	}
	return code
}
